"""C18 translator: Python ast of TopologicalSorter.remove / add / sorted (src/pyramid/util.py),
Tweens.add_explicit / add_implicit / implicit / __call__ (config/tweens.py) and
ViewsConfiguratorMixin._apply_view_derivers (config/views.py) -> Gallina definitions gen_*, re-run on every
check (prop.facts) and emitted into coq/Gen/Facts_C18.v.  Proofs/C18_gen.v proves gen_* = the hand-written model.

Fail-closed: a statement outside the SUBSET, an expression outside the PRIMITIVE TABLE, a typing surprise
-> Problem; the caller records it as a broken tie and emits the stored fallback text
(harness/c18/gen_fallback.json) so that the Coq files still type-check.

=== CONTROL FLOW (mechanical; imperative state is passed explicitly, mutation = re-binding by `let`) ========
  x = e / self.f = e      let v_x := <e> in ...   (the same Coq name is re-bound: shadowing is the mutation)
  statement-level method  let v_x := <new value of x> in ...   (x.append(y), del d[k], d[k] = v, s.add(x), ...)
  if c: A else: B ; rest  neither branch leaves the function:  let '(m1, .., mk) := if <c> then <A; (m..)> else
                          <B; (m..)> in <rest>   with m.. = the variables assigned in A or B that exist before the
                          `if` (alphabetical); variables first assigned inside a branch are local to it.
                          a branch that always leaves (raise / return): if <c> then <A> else <B; rest> (no copy).
                          a branch that may leave in the middle (a call that can raise): every branch is followed
                          by its own copy of <rest>.
                          `c` is one boolean term (and -> &&, or -> ||, not -> negb, double negation removed).
  if x is not None: A     x the result of d.pop(k, None):  match v_x with Some v_x => <A> | None => <skip> end
                          x a constraint argument (hint) and A starts with `if not is_nonstr_iter(x): x = (x,)`:
                          match norm_hint v_x with Some v_x => <A without the idiom> | None => <skip> end
  for T in E: B           let '(m..) := fold_left (fun st x => let '(m..) := st in <B; (m..)>) <E> (m..) in ...
                          a tuple target (a, b) is bound by projections (let v_a := fst x in let v_b := snd x in).
                          if B contains a checked dictionary read (KeyError possible) the state is an option:
                          fold_left (fun st x => match st with None => None | Some (m..) => <B; Some (m..)> end)
                          and the loop is followed by  match .. with None => <failure of the function> | Some ..
  while L: B              (L a list; every iteration must execute `del D[k]` on a dictionary D)
                          Fixpoint gen_<f>_while (fuel : nat) (m..) {struct fuel} : option (m..) :=
                            match v_L with [] => Some (m..) | h :: t =>
                              match fuel with O => None | S fuel => <B; gen_<f>_while fuel (m..)> end end
                          called with fuel = length of D at loop entry (each iteration deletes one key of D and no
                          key is added, so that many iterations suffice; running out is the failure value, proved
                          unreachable: C18_sorted_total).  Inside B the list is known to be h :: t, and
                          `x = L.pop(0)` is  v_x := h, v_L := t.
  def g(p..): B           (nested, closing over variables it assigns)  Definition gen_<f>_<g> (st : m..) (p..) :=
                          let '(m..) := st in <B; (m..)>;  a call statement g(a..) is let '(m..) := gen_<f>_<g> (m..) a..
  return e / raise E(..)  the function's result constructors, see the table
  v = f(..) with f a translated function that can raise:  match <call> with <ok pattern v> => .. | e => <propagate> end

=== PRIMITIVE TABLE (trusted: each line is a claim about Python semantics / the data representation) ========
  data      names, constraint targets: node (text).  list of str: list node.  set of str: duplicate-free list.
            dict str -> tuple of str / value: insertion-ordered association list (aget/aset/adel).
            constraint argument (None | one name | iterable): hint; after `is not None` + is_nonstr_iter idiom: list.
            graph[node] = [count, child, ...]: (Z * list node) entries.  factories / derivers / values: opaque ids.
  self.names.remove(x)            CHECKED: if mem_text x names then names := remove_first x names else ValueError
  L.remove(x)  (self.order, self.req_after, self.req_before; a local list on a path where `x in L` was tested)
                                  UNCHECKED: remove_first / remove_arc (no-op when absent; absence is unreachable by
                                  the representation invariant C18_rep_reachable)
  L.append(x) L.extend(M) L += M  L ++ [x], L ++ M       L.insert(0, x)   x :: L        L[::-1] / reversed(L)  rev L
  [..] literals, (a, b) tuples, [e for v in L] comprehensions           lists, pairs, map
  {e for t in D.items() if c}     map (fun t => e) (filter (fun t => c) D)          any(c for v in L)  existsb
  x in L / x not in L / L truthy  mem_text x L / negb / nonempty L       k in D (dict)  amem k D
  del D[k]   D[k] = v   D.pop(k, None)        adel k D,  aset k v D,  (aget k D, adel k D)
  self.name2val[k]                aget_val k D   (only under `k in self.names`; names and name2val stay in sync)
  s.add(x)                        set_add x s            not A.issubset(B)     nonempty (missing A B)
  graph[k] = [0]                  aset k gnew graph      graph[k].append(x)    gappend k x graph   (no-op if absent)
  graph[k][0] += 1                gincr k graph          graph[k][0] = c       gset_count k c graph
  graph[k][0]  graph[k][1:]       CHECKED reads gcount / gchildren (KeyError = failure of the function)
  v[1:] for v in graph.items()    snd v
  x is None (hint)                hint_is_none x         n == 0, n -= 1 (counters)   Z.eqb n 0, (n - 1)%Z
  raise ConfigurationError('Unsatisfied before|after dependencies: %s' % ', '.join(sorted(A - B)))
                                  UnsatBefore | UnsatAfter (missing A B)   (selected by the literal's prefix)
  raise CyclicDependencyError(d)  Cyclic d               return result (sorted)   Sorted result
  ValueError from names.remove    None (remove/add return option)
  factory(handler, registry), wraps_view(deriver)(view, info)       Wrap name factory handler / view
  self.sorter.add(..) / .sorted() / self.remove() / self.implicit()   the translated gen_* (keywords bound by name)
  info.original_view, self.registry.getUtility(IViewDerivers)         the parameters view / derivers
  module-level deriver functions in outer_derivers                    opaque id 0
"""
import ast
import json
import os

HERE = os.path.dirname(os.path.abspath(__file__))
FALLBACK = os.path.join(HERE, 'gen_fallback.json')


class Problem(Exception):
    pass


def u(node):
    try:
        return ast.unparse(node)
    except Exception:
        return '<%s>' % type(node).__name__


# ---- types
class TV:
    """a type not yet known (empty literal)"""

    def __init__(self, hint):
        self.ty, self.hint = None, hint


def res(t):
    while isinstance(t, TV) and t.ty is not None:
        t = t.ty
    return t


def unify(t, want):
    t = res(t)
    if isinstance(t, TV):
        t.ty = want
        return want
    if t != want:
        raise Problem('type %s where %s is needed' % (t, want))
    return t


COQTY = {'node': 'node', 'nodes': 'list node', 'set': 'list node', 'arc': 'arc', 'arcs': 'list arc',
         'adict': 'list (node * list node)', 'vdict': 'list (node * N)', 'val': 'N', 'hint': 'hint', 'Z': 'Z',
         'graph': 'graph', 'bool': 'bool', 'pairs': 'list (node * N)', 'pair': '(node * N)',
         'cdict': 'list (node * list node)', 'handler': 'handler', 'optalts': 'option (list node)',
         'sorter': 'sorter', 'tweens': 'tweens', 'gitem': '(node * gentry)', 'aitem': '(node * list node)',
         'gentry': 'gentry'}
ELEM = {'nodes': 'node', 'set': 'node', 'arcs': 'arc', 'pairs': 'pair', 'adict.items': 'aitem', 'graph.items': 'gitem'}
LISTOF = {'node': 'nodes', 'arc': 'arcs', 'pair': 'pairs'}
FST = {'arc': 'node', 'pair': 'node', 'aitem': 'node', 'gitem': 'node'}
SND = {'arc': 'node', 'pair': 'val', 'aitem': 'nodes', 'gitem': 'gentry'}


def coqty(t):
    t = res(t)
    if isinstance(t, TV):
        raise Problem('the type of an empty literal (%s) was never determined' % t.hint)
    return COQTY[t]


def coq_text(s):
    return '[' + '; '.join(str(ord(c)) for c in s) + ']%N'


FIELDS = {  # TopologicalSorter state
    'names': 'nodes', 'req_before': 'set', 'req_after': 'set', 'name2before': 'adict', 'name2after': 'adict',
    'name2val': 'vdict', 'order': 'arcs', 'default_before': 'hint', 'default_after': 'hint', 'first': 'node',
    'last': 'node'}
FIELD_ORDER = ['names', 'req_before', 'req_after', 'name2before', 'name2after', 'name2val', 'order']
UNCHECKED_REMOVE = ('order', 'req_after', 'req_before')

# function specifications: parameter types by position, result conventions
SPECS = {
    'remove': dict(gen='gen_remove', self='sorter', params=['node'], ret='optsorter'),
    'add': dict(gen='gen_add', self='sorter', params=['node', 'val', 'hint', 'hint'], ret='optsorter'),
    'sorted': dict(gen='gen_sorted', self='sorter', params=[], ret='outcome'),
    'add_explicit': dict(gen='gen_tw_add_explicit', self='tweens', params=['node', 'val'], ret='tweens'),
    'add_implicit': dict(gen='gen_tw_add_implicit', self='tweens', params=['node', 'val', 'hint', 'hint'], ret='opttweens'),
    'implicit': dict(gen='gen_tw_implicit', self='tweens', params=[], ret='outcome'),
    '__call__': dict(gen='gen_tw_call', self='tweens', params=['handler', 'erased'], ret='sumhandler'),
    '_apply_view_derivers': dict(gen='gen_apply_view_derivers', self='config', params=['info'], ret='sumhandler'),
}


class Exit(Exception):
    pass


class Fn:
    """translation of one function body"""

    def __init__(self, fn, spec, env0, out, sigs):
        self.fn, self.spec, self.out, self.sigs = fn, spec, out, sigs
        self.env0 = env0
        self.closures = {}
        self.exit_used = False
        self.fail_used = False
        self.n = 0
        self.known = []          # conditions known true on the current path: ('in', x_term, L_term), ('cons', L, h, t)
        self.fail_stack = []     # innermost failure term (option loops)

    def fresh(self, base):
        self.n += 1
        return '%s%d' % (base, self.n)

    # ------------------------------------------------------------ result conventions
    def fail(self):
        """term for a checked leaf failing / an exception propagating"""
        self.fail_used = True
        if self.fail_stack:
            return self.fail_stack[-1]
        self.exit_used = True
        r = self.spec['ret']
        if r in ('optsorter', 'opttweens'):
            return 'None'
        if r == 'outcome':
            return 'Internal'
        raise Problem('a failing operation in a function that cannot fail')

    def finish(self, env):
        """falling off the end of the function"""
        r = self.spec['ret']
        if r == 'optsorter':
            return 'Some (%s)' % self.upd_sorter(env, 's')
        if r == 'tweens':
            return self.mk_tweens(env)
        if r == 'opttweens':
            return 'Some (%s)' % self.mk_tweens(env)
        raise Problem('the function can end without return')

    def upd_sorter(self, env, s):
        f = lambda n: env['self.' + n][0]
        return 'upd %s %s %s %s %s %s %s %s' % (s, f('names'), f('req_before'), f('req_after'), f('name2before'),
                                                f('name2after'), f('name2val'), f('order'))

    def mk_tweens(self, env):
        return 'mkTweens %s %s' % (env['self.sorter'][0], env['self.explicit'][0])

    # ------------------------------------------------------------ expressions
    def key(self, node):
        if isinstance(node, ast.Name):
            return node.id
        if isinstance(node, ast.Attribute) and isinstance(node.value, ast.Name) and node.value.id == self.selfname:
            return 'self.' + node.attr
        return None

    def var(self, node, env):
        k = self.key(node)
        if k is None or k not in env:
            raise Problem('unknown variable %s' % u(node))
        return env[k]

    def expr(self, e, env):
        """-> (term, type); only total leaves"""
        k = self.key(e)
        if k is not None:
            if k in env:
                return env[k]
            raise Problem('unknown name %s' % u(e))
        if isinstance(e, ast.Constant):
            if isinstance(e.value, str):
                return coq_text(e.value), 'node'
            raise Problem('constant %s' % u(e))
        if isinstance(e, ast.Tuple) and len(e.elts) == 2:
            a, ta = self.expr(e.elts[0], env)
            b, tb = self.expr(e.elts[1], env)
            ta, tb = res(ta), res(tb)
            if isinstance(ta, TV):
                ta = unify(ta, 'node')
            if isinstance(tb, TV):
                raise Problem('untyped tuple component %s' % u(e))
            if ta == 'node' and tb == 'node':
                return '(%s, %s)' % (a, b), 'arc'
            if ta == 'node' and tb == 'val':
                return '(%s, %s)' % (a, b), 'pair'
            raise Problem('tuple of %s and %s' % (ta, tb))
        if isinstance(e, ast.List):
            if not e.elts:
                return '[]', TV(u(e))
            parts = [self.expr(x, env) for x in e.elts]
            ty = res(parts[0][1])
            for _, t in parts:
                unify(t, ty)
            if ty not in LISTOF:
                raise Problem('list of %s' % ty)
            return '[%s]' % '; '.join(p[0] for p in parts), LISTOF[ty]
        if isinstance(e, ast.Dict) and not e.keys:
            return '[]', TV(u(e))
        if isinstance(e, ast.ListComp) and len(e.generators) == 1:
            g = e.generators[0]
            if g.ifs or g.is_async:
                raise Problem('comprehension %s' % u(e))
            it, ity = self.expr(g.iter, env)
            ity = res(ity)
            if ity not in ELEM:
                raise Problem('comprehension over %s' % ity)
            env2, binder, lets = self.bind_target(g.target, ELEM[ity], env)
            elt, ety = self.expr(e.elt, env2)
            ety = res(ety)
            if ety not in LISTOF:
                raise Problem('comprehension element %s' % ety)
            return 'map (fun %s => %s%s) %s' % (binder, lets, elt, self.par(it)), LISTOF[ety]
        if isinstance(e, ast.SetComp) and len(e.generators) == 1:
            g = e.generators[0]
            it, ity = self.iterable(g.iter, env)
            env2, binder, lets = self.bind_target(g.target, ELEM[ity], env)
            elt, ety = self.expr(e.elt, env2)
            if res(ety) != 'node':
                raise Problem('set comprehension element %s' % ety)
            term = self.par(it)
            for c in g.ifs:
                term = '(filter (fun %s => %s%s) %s)' % (binder, lets, self.cond(c, env2), term)
            return 'map (fun %s => %s%s) %s' % (binder, lets, elt, term), 'set'
        if isinstance(e, ast.BinOp) and isinstance(e.op, ast.Add):
            a, ta = self.expr(e.left, env)
            b, tb = self.expr(e.right, env)
            unify(tb, res(ta)) if not isinstance(res(ta), TV) else unify(ta, res(tb))
            return '%s ++ %s' % (self.par(a), self.par(b)), res(ta)
        if isinstance(e, ast.BinOp) and isinstance(e.op, ast.Sub):
            a, ta = self.expr(e.left, env)
            if res(ta) == 'Z' and isinstance(e.right, ast.Constant) and e.right.value == 1:
                return '(%s - 1)%%Z' % a, 'Z'
            raise Problem('subtraction %s' % u(e))
        if isinstance(e, ast.Subscript):
            v, tv = self.expr(e.value, env)
            tv = res(tv)
            s = e.slice
            if isinstance(s, ast.Slice) and s.lower is None and s.upper is None and isinstance(s.step, ast.UnaryOp) \
                    and isinstance(s.step.op, ast.USub) and isinstance(s.step.operand, ast.Constant) \
                    and s.step.operand.value == 1 and tv in ('nodes', 'pairs', 'arcs'):
                return 'rev %s' % self.par(v), tv
            if isinstance(s, ast.Slice) and isinstance(s.lower, ast.Constant) and s.lower.value == 1 \
                    and s.upper is None and s.step is None and tv == 'gentry':
                return 'snd %s' % self.par(v), 'nodes'
            if tv == 'vdict':
                kx, kt = self.expr(s, env)
                unify(kt, 'node')
                if not self.is_known('in', kx, env.get('self.names', ('?',))[0]):
                    raise Problem('%s outside `.. in self.names`' % u(e))
                return 'aget_val %s %s' % (self.par(kx), self.par(v)), 'val'
            raise Problem('subscript %s' % u(e))
        if isinstance(e, ast.Call):
            f = e.func
            if isinstance(f, ast.Name) and f.id == 'reversed' and len(e.args) == 1:
                v, tv = self.expr(e.args[0], env)
                if res(tv) not in ('nodes', 'pairs', 'arcs'):
                    raise Problem('reversed(%s)' % res(tv))
                return 'rev %s' % self.par(v), res(tv)
            if isinstance(f, ast.Name) and f.id in env and res(env[f.id][1]) == 'val' and len(e.args) == 2:
                # factory(handler, registry)
                h, th = self.expr(e.args[0], env)
                unify(th, 'handler')
                nm = self.pair_name(f.id, env)
                return 'Wrap %s %s %s' % (nm, env[f.id][0], self.par(h)), 'handler'
            if isinstance(f, ast.Call) and isinstance(f.func, ast.Name) and f.func.id == 'wraps_view' \
                    and len(f.args) == 1 and isinstance(f.args[0], ast.Name) and len(e.args) == 2:
                d = f.args[0].id
                if d not in env or res(env[d][1]) != 'val':
                    raise Problem('wraps_view(%s)' % d)
                h, th = self.expr(e.args[0], env)
                unify(th, 'handler')
                return 'Wrap %s %s %s' % (self.pair_name(d, env), env[d][0], self.par(h)), 'handler'
        raise Problem('expression outside the table: %s' % u(e))

    def pair_name(self, factory_var, env):
        nm = self.pair_of.get(factory_var)
        if nm is None or nm not in env:
            raise Problem('%s is not the second component of a (name, factory) loop element' % factory_var)
        return env[nm][0]

    def par(self, t):
        return t if (' ' not in t or (t[0] in '([' and self.balanced(t))) else '(' + t + ')'

    @staticmethod
    def balanced(t):
        d = 0
        for i, c in enumerate(t):
            if c in '([':
                d += 1
            elif c in ')]':
                d -= 1
                if d == 0 and i != len(t) - 1:
                    return False
        return d == 0

    def iterable(self, e, env):
        if isinstance(e, ast.Call) and isinstance(e.func, ast.Attribute) and e.func.attr == 'items' and not e.args:
            v, tv = self.expr(e.func.value, env)
            tv = res(tv)
            if tv == 'adict':
                return v, 'adict.items'
            if tv == 'graph':
                return v, 'graph.items'
            raise Problem('.items() of %s' % tv)
        v, tv = self.expr(e, env)
        tv = res(tv)
        if tv == 'optalts':
            raise Problem('iterating over a value that may be None: %s' % u(e))
        if tv not in ELEM:
            raise Problem('iteration over %s (%s)' % (tv, u(e)))
        return v, tv

    def bind_target(self, target, ety, env):
        """-> (env', binder, lets)"""
        env2 = dict(env)
        if isinstance(target, ast.Name):
            b = 'v_' + target.id
            env2[target.id] = (b, ety)
            return env2, b, ''
        if isinstance(target, ast.Tuple) and len(target.elts) == 2 and all(isinstance(x, ast.Name) for x in target.elts) \
                and ety in FST:
            p = self.fresh('p')
            a, b = target.elts[0].id, target.elts[1].id
            env2[a] = ('v_' + a, FST[ety])
            env2[b] = ('v_' + b, SND[ety])
            self.pair_of[b] = a
            return env2, p, 'let v_%s := fst %s in let v_%s := snd %s in ' % (a, p, b, p)
        raise Problem('loop target %s over %s' % (u(target), ety))

    def is_known(self, kind, *args):
        return (kind,) + args in self.known

    def cond(self, c, env):
        """-> boolean term"""
        if isinstance(c, ast.BoolOp):
            parts = [self.par(self.cond(v, env)) for v in c.values]
            return (' && ' if isinstance(c.op, ast.And) else ' || ').join(parts)
        if isinstance(c, ast.UnaryOp) and isinstance(c.op, ast.Not):
            inner = c.operand
            if isinstance(inner, ast.UnaryOp) and isinstance(inner.op, ast.Not):
                return self.cond(inner.operand, env)
            if isinstance(inner, ast.Call) and isinstance(inner.func, ast.Attribute) and inner.func.attr == 'issubset' \
                    and len(inner.args) == 1:
                a, ta = self.expr(inner.func.value, env)
                b, tb = self.expr(inner.args[0], env)
                unify(ta, 'set'), unify(tb, 'set')
                return 'nonempty (missing %s %s)' % (self.par(a), self.par(b))
            t = self.cond(inner, env)
            return t[5:] if t.startswith('negb ') and self.balanced(t[5:]) and t[5] == '(' else 'negb %s' % self.par(t)
        if isinstance(c, ast.Compare) and len(c.ops) == 1:
            op, l, r = c.ops[0], c.left, c.comparators[0]
            if isinstance(op, (ast.In, ast.NotIn)):
                x, tx = self.expr(l, env)
                L, tL = self.expr(r, env)
                tL = res(tL)
                if isinstance(tL, TV):
                    if isinstance(r, ast.Name) and tL.hint.startswith('{'):
                        tL = unify(tL, 'graph')
                    else:
                        tL = unify(tL, 'nodes')
                if tL in ('nodes', 'set'):
                    unify(tx, 'node')
                    t = 'mem_text %s %s' % (self.par(x), self.par(L))
                elif tL in ('graph', 'adict', 'vdict'):
                    unify(tx, 'node')
                    t = 'amem %s %s' % (self.par(x), self.par(L))
                else:
                    raise Problem('membership in %s' % tL)
                return t if isinstance(op, ast.In) else 'negb (%s)' % t
            if isinstance(op, (ast.Is, ast.IsNot)) and isinstance(r, ast.Constant) and r.value is None:
                x, tx = self.expr(l, env)
                if res(tx) != 'hint':
                    raise Problem('`is None` on %s' % res(tx))
                t = 'hint_is_none %s' % self.par(x)
                return t if isinstance(op, ast.Is) else 'negb (%s)' % t
            if isinstance(op, ast.Eq) and isinstance(r, ast.Constant) and r.value == 0 and type(r.value) is int:
                x, tx = self.expr(l, env)
                unify(tx, 'Z')
                return 'Z.eqb %s 0' % self.par(x)
        if isinstance(c, ast.Call) and isinstance(c.func, ast.Name) and c.func.id == 'any' and len(c.args) == 1 \
                and isinstance(c.args[0], ast.GeneratorExp) and len(c.args[0].generators) == 1:
            g = c.args[0].generators[0]
            if g.ifs:
                raise Problem('any(.. if ..)')
            it, ity = self.iterable(g.iter, env)
            env2, binder, lets = self.bind_target(g.target, ELEM[ity], env)
            return 'existsb (fun %s => %s%s) %s' % (binder, lets, self.cond(c.args[0].elt, env2), self.par(it))
        # truthiness of a list / dict
        k = self.key(c)
        if k is not None and k in env:
            t, ty = env[k]
            ty = res(ty)
            if isinstance(ty, TV) or ty in ('nodes', 'pairs', 'arcs', 'graph', 'adict', 'cdict'):
                return 'nonempty %s' % t
        raise Problem('condition outside the table: %s' % u(c))

    # ------------------------------------------------------------ statements
    def assigned(self, stmts):
        """python-level keys possibly re-bound by these statements (syntactic)"""
        out = set()

        def tgt(t):
            k = self.key(t)
            if k is not None:
                out.add(k)
            elif isinstance(t, ast.Subscript):
                tgt(t.value)
            elif isinstance(t, ast.Tuple):
                for x in t.elts:
                    tgt(x)

        for st in stmts:
            for n in ast.walk(st):
                if isinstance(n, ast.FunctionDef) and n is not st:
                    continue
                if isinstance(n, ast.Assign):
                    for t in n.targets:
                        tgt(t)
                elif isinstance(n, ast.AugAssign):
                    tgt(n.target)
                elif isinstance(n, ast.Delete):
                    for t in n.targets:
                        tgt(t)
                elif isinstance(n, ast.For):
                    pass
                elif isinstance(n, ast.Call):
                    f = n.func
                    if isinstance(f, ast.Attribute) and f.attr in ('append', 'extend', 'remove', 'insert', 'add', 'pop'):
                        tgt(f.value)
                    elif isinstance(f, ast.Name) and f.id in self.closures:
                        out.update(self.closures[f.id]['mod'])
                    elif isinstance(f, ast.Attribute) and isinstance(f.value, ast.Name) and f.value.id == self.selfname \
                            and f.attr == 'remove':
                        out.update('self.' + x for x in FIELD_ORDER)
                    elif isinstance(f, ast.Attribute) and self.key(f.value) == 'self.sorter' and f.attr == 'add':
                        out.add('self.sorter')
        return out

    TYPE_RANK = ['graph', 'nodes', 'set', 'arcs', 'adict', 'vdict', 'pairs', 'cdict', 'optalts', 'hint', 'Z', 'val',
                 'node', 'handler', 'sorter', 'tweens']

    def order_vars(self, keys, env, stmts, extra_types=None):
        """canonical order of loop-/branch-carried variables: by type, then by first occurrence in the statements
        that carry them (so neither renaming nor moving the initialisations changes the order)"""
        first = {}
        for st in stmts:
            for n in ast.walk(st):
                k = self.key(n) if isinstance(n, (ast.Name, ast.Attribute)) else None
                if k in keys:
                    pos = (n.lineno, n.col_offset)
                    if k not in first or pos < first[k]:
                        first[k] = pos

        def rank(k):
            t = res(env[k][1]) if k in env else None
            r = self.TYPE_RANK.index(t) if t in self.TYPE_RANK else len(self.TYPE_RANK)
            return (r, first.get(k, (10 ** 9, 0)), k)
        return sorted(keys, key=rank)

    def tuple_of(self, keys, env):
        ts = [env[k][0] for k in keys]
        return ts[0] if len(ts) == 1 else '(%s)' % ', '.join(ts)

    def pat_of(self, keys, env):
        ts = [env[k][0] for k in keys]
        return ts[0] if len(ts) == 1 else "'(%s)" % ', '.join(ts)

    def always_exits(self, stmts):
        if not stmts:
            return False
        last = stmts[-1]
        if isinstance(last, (ast.Raise, ast.Return)):
            return True
        if isinstance(last, ast.If):
            return self.always_exits(last.body) and self.always_exits(last.orelse)
        return False

    def block(self, stmts, env, k):
        if not stmts:
            return k(env)
        st, rest = stmts[0], stmts[1:]
        cont = lambda env2: self.block(rest, env2, k)
        return self.stmt(st, env, cont)

    def bind(self, env, key, term, ty):
        env2 = dict(env)
        name = env[key][0] if key in env else ('f_' + key[5:] if key.startswith('self.') else 'v_' + key)
        env2[key] = (name, ty)
        return env2, 'let %s := %s in\n' % (name, term)

    def stmt(self, st, env, cont):
        if isinstance(st, ast.Expr) and isinstance(st.value, ast.Constant) and isinstance(st.value.value, str):
            return cont(env)                                   # docstring
        if isinstance(st, ast.ImportFrom):
            return cont(env)                                   # `from pyramid.exceptions import ..` before a raise
        if isinstance(st, ast.Assign) and len(st.targets) == 1:
            return self.assign(st.targets[0], st.value, env, cont)
        if isinstance(st, ast.AugAssign):
            return self.augassign(st, env, cont)
        if isinstance(st, ast.Delete) and len(st.targets) == 1 and isinstance(st.targets[0], ast.Subscript):
            t = st.targets[0]
            d, td = self.var(t.value, env)
            td = res(td)
            if td not in ('vdict', 'graph', 'adict'):
                raise Problem('del on %s' % td)
            kx, kt = self.expr(t.slice, env)
            unify(kt, 'node')
            self.deleted.add(self.key(t.value))
            env2, let = self.bind(env, self.key(t.value), 'adel %s %s' % (self.par(kx), d), td)
            return let + cont(env2)
        if isinstance(st, ast.Expr) and isinstance(st.value, ast.Call):
            return self.call_stmt(st.value, env, cont)
        if isinstance(st, ast.If):
            return self.if_stmt(st, env, cont)
        if isinstance(st, ast.For) and not st.orelse:
            return self.for_stmt(st, env, cont)
        if isinstance(st, ast.While) and not st.orelse:
            return self.while_stmt(st, env, cont)
        if isinstance(st, ast.FunctionDef):
            return self.closure_def(st, env, cont)
        if isinstance(st, ast.Return):
            return self.ret(st, env)
        if isinstance(st, ast.Raise):
            return self.raise_(st, env)
        raise Problem('statement outside the subset: %s' % u(st).split('\n')[0])

    def ret(self, st, env):
        self.exit_used = True
        r = self.spec['ret']
        if st.value is None:
            return self.finish(env)
        # return of a call that can raise: the call's own result
        c = self.raising_call(st.value, env)
        if c is not None:
            term, kind = c
            if r == 'outcome' and kind == 'outcome':
                return term
            raise Problem('return of %s' % u(st.value))
        t, ty = self.expr(st.value, env)
        ty = res(ty)
        if r == 'outcome' and (ty == 'pairs' or isinstance(ty, TV)):
            return 'Sorted %s' % self.par(t)
        if r == 'sumhandler' and ty == 'handler':
            return 'inr %s' % self.par(t)
        raise Problem('return %s in a function returning %s' % (ty, r))

    def raise_(self, st, env):
        self.exit_used = True
        e = st.exc
        if self.spec['ret'] != 'outcome' or not (isinstance(e, ast.Call) and isinstance(e.func, ast.Name) and len(e.args) == 1):
            raise Problem('raise %s' % u(e))
        a = e.args[0]
        if e.func.id == 'CyclicDependencyError':
            t, ty = self.expr(a, env)
            unify(ty, 'cdict')
            return 'Cyclic %s' % self.par(t)
        if e.func.id == 'ConfigurationError' and isinstance(a, ast.BinOp) and isinstance(a.op, ast.Mod) \
                and isinstance(a.left, ast.Constant) and isinstance(a.left.value, str):
            lit = a.left.value
            con = {'Unsatisfied before dependencies: %s': 'UnsatBefore',
                   'Unsatisfied after dependencies: %s': 'UnsatAfter'}.get(lit)
            r = a.right
            if con and isinstance(r, ast.Call) and isinstance(r.func, ast.Attribute) and r.func.attr == 'join' \
                    and isinstance(r.func.value, ast.Constant) and r.func.value.value == ', ' and len(r.args) == 1:
                s = r.args[0]
                if isinstance(s, ast.Call) and isinstance(s.func, ast.Name) and s.func.id == 'sorted' and len(s.args) == 1 \
                        and isinstance(s.args[0], ast.BinOp) and isinstance(s.args[0].op, ast.Sub):
                    x, tx = self.expr(s.args[0].left, env)
                    y, ty = self.expr(s.args[0].right, env)
                    unify(tx, 'set'), unify(ty, 'set')
                    return '%s (missing %s %s)' % (con, self.par(x), self.par(y))
        raise Problem('raise outside the table: %s' % u(e))

    def raising_call(self, e, env):
        """calls of translated functions that may raise -> (term, kind) | None"""
        if not (isinstance(e, ast.Call) and isinstance(e.func, ast.Attribute)):
            return None
        f = e.func
        recv = self.key(f.value)
        if f.attr == 'sorted' and not e.args and not e.keywords:
            t, ty = self.expr(f.value, env)
            if res(ty) == 'sorter':
                return 'gen_sorted %s' % self.par(t), 'outcome'
        if f.attr == 'implicit' and isinstance(f.value, ast.Name) and f.value.id == self.selfname and not e.args:
            return 'gen_tw_implicit %s' % self.self_term(env), 'outcome'
        return None

    def self_term(self, env):
        if self.spec['self'] == 'tweens':
            return '(%s)' % self.mk_tweens(env)
        raise Problem('self used as a value')

    def assign(self, target, value, env, cont):
        # v = call that may raise
        c = self.raising_call(value, env)
        if c is not None and isinstance(target, ast.Name):
            term, kind = c
            self.exit_used = True
            v = 'v_' + target.id
            env2 = dict(env)
            env2[target.id] = (v, 'pairs')
            if self.spec['ret'] == 'sumhandler':
                return 'match %s with\n| Sorted %s =>\n%s\n| e => inl e\nend' % (term, v, cont(env2))
            raise Problem('call that can raise in %s' % self.fn.name)
        # d.pop(k, None)
        if isinstance(value, ast.Call) and isinstance(value.func, ast.Attribute) and value.func.attr == 'pop' \
                and len(value.args) == 2 and isinstance(value.args[1], ast.Constant) and value.args[1].value is None \
                and isinstance(target, ast.Name):
            d, td = self.var(value.func.value, env)
            if res(td) != 'adict':
                raise Problem('pop(k, None) on %s' % res(td))
            kx, kt = self.expr(value.args[0], env)
            unify(kt, 'node')
            env2, let1 = self.bind(env, target.id, 'aget %s %s' % (self.par(kx), d), 'optalts')
            env3, let2 = self.bind(env2, self.key(value.func.value), 'adel %s %s' % (self.par(kx), d), 'adict')
            return let1 + let2 + cont(env3)
        # L.pop(0) on a list known to be h :: t
        if isinstance(value, ast.Call) and isinstance(value.func, ast.Attribute) and value.func.attr == 'pop' \
                and len(value.args) == 1 and isinstance(value.args[0], ast.Constant) and value.args[0].value == 0 \
                and isinstance(target, ast.Name):
            L, tL = self.var(value.func.value, env)
            for kn in self.known:
                if kn[0] == 'cons' and kn[1] == L:
                    env2, let1 = self.bind(env, target.id, kn[2], ELEM[res(tL)])
                    env3, let2 = self.bind(env2, self.key(value.func.value), kn[3], res(tL))
                    self.known = [x for x in self.known if x is not kn]
                    return let1 + let2 + cont(env3)
            raise Problem('pop(0) on a list not known to be non-empty')
        # checked graph reads
        if isinstance(value, ast.Subscript) and isinstance(value.value, ast.Subscript) and isinstance(target, ast.Name):
            g, tg = self.expr(value.value.value, env)
            if res(tg) == 'graph' or isinstance(res(tg), TV):
                unify(tg, 'graph')
                kx, kt = self.expr(value.value.slice, env)
                unify(kt, 'node')
                s = value.slice
                if isinstance(s, ast.Constant) and s.value == 0:
                    prim, ty = 'gcount', 'Z'
                elif isinstance(s, ast.Slice) and isinstance(s.lower, ast.Constant) and s.lower.value == 1 \
                        and s.upper is None and s.step is None:
                    prim, ty = 'gchildren', 'nodes'
                else:
                    raise Problem('graph read %s' % u(value))
                v = 'v_' + target.id
                env2 = dict(env)
                env2[target.id] = (v, ty)
                fail = self.fail()
                return 'match %s %s %s with\n| None => %s\n| Some %s =>\n%s\nend' % (prim, self.par(kx), g, fail, v, cont(env2))
        # subscript store
        if isinstance(target, ast.Subscript):
            return self.store(target, value, env, cont)
        k = self.key(target)
        if k is None:
            raise Problem('assignment target %s' % u(target))
        # params that stand for themselves
        if isinstance(value, ast.Attribute) and isinstance(value.value, ast.Name) and value.attr == 'original_view' \
                and env.get(value.value.id, (None, None))[1] == 'info':
            env2, let = self.bind(env, k, 'view0', 'handler')
            return let + cont(env2)
        if isinstance(value, ast.Call) and u(value).endswith('registry.getUtility(IViewDerivers)'):
            env2, let = self.bind(env, k, 'derivers0', 'sorter')
            return let + cont(env2)
        if isinstance(value, ast.List) and value.elts and all(
                isinstance(x, ast.Tuple) and len(x.elts) == 2 and isinstance(x.elts[0], ast.Constant)
                and isinstance(x.elts[1], ast.Name) and x.elts[1].id not in env for x in value.elts):
            # [('name', module_level_function), ..]: the functions are opaque (id 0)
            names = [x.elts[0].value for x in value.elts]
            for x in value.elts:
                if x.elts[1].id != x.elts[0].value:
                    raise Problem('outer deriver %r is not paired with the function of that name' % x.elts[0].value)
            env2, let = self.bind(env, k, '[%s]' % '; '.join('(%s, 0%%N)' % coq_text(n) for n in names), 'pairs')
            return let + cont(env2)
        t, ty = self.expr(value, env)
        if k in env and not isinstance(res(env[k][1]), TV) and not isinstance(res(ty), TV) and res(env[k][1]) != res(ty):
            if not (res(env[k][1]) == 'hint' and res(ty) == 'hint'):
                raise Problem('%s changes its type from %s to %s' % (k, res(env[k][1]), res(ty)))
        env2, let = self.bind(env, k, t, ty)
        return let + cont(env2)

    def store(self, target, value, env, cont):
        d, td = self.var(target.value, env) if self.key(target.value) else (None, None)
        if d is not None:
            kx, kt = self.expr(target.slice, env)
            unify(kt, 'node')
            tdr = res(td)
            if isinstance(value, ast.List) and len(value.elts) == 1 and isinstance(value.elts[0], ast.Constant) \
                    and value.elts[0].value == 0:
                unify(td, 'graph')
                env2, let = self.bind(env, self.key(target.value), 'aset %s gnew %s' % (self.par(kx), d), 'graph')
                return let + cont(env2)
            v, tv = self.expr(value, env)
            tv = res(tv)
            if isinstance(tdr, TV):
                tdr = unify(td, {'nodes': 'cdict'}.get(tv) or '?')
            ok = {('adict', 'nodes'), ('cdict', 'nodes'), ('vdict', 'val')}
            if (tdr, tv) not in ok:
                raise Problem('store of %s into %s' % (tv, tdr))
            env2, let = self.bind(env, self.key(target.value), 'aset %s %s %s' % (self.par(kx), self.par(v), d), tdr)
            return let + cont(env2)
        # graph[k][0] = c
        if isinstance(target.value, ast.Subscript) and isinstance(target.slice, ast.Constant) and target.slice.value == 0:
            g, tg = self.var(target.value.value, env)
            unify(tg, 'graph')
            kx, kt = self.expr(target.value.slice, env)
            unify(kt, 'node')
            v, tv = self.expr(value, env)
            unify(tv, 'Z')
            env2, let = self.bind(env, self.key(target.value.value), 'gset_count %s %s %s' % (self.par(kx), self.par(v), g), 'graph')
            return let + cont(env2)
        raise Problem('store %s' % u(target))

    def augassign(self, st, env, cont):
        t = st.target
        k = self.key(t)
        if k is not None and isinstance(st.op, ast.Add):
            a, ta = env[k]
            b, tb = self.expr(st.value, env)
            unify(tb, res(ta))
            env2, let = self.bind(env, k, '%s ++ %s' % (self.par(a), self.par(b)), res(ta))
            return let + cont(env2)
        if k is not None and isinstance(st.op, ast.Sub) and isinstance(st.value, ast.Constant) and st.value.value == 1:
            a, ta = env[k]
            unify(ta, 'Z')
            env2, let = self.bind(env, k, '(%s - 1)%%Z' % a, 'Z')
            return let + cont(env2)
        if isinstance(t, ast.Subscript) and isinstance(t.value, ast.Subscript) and isinstance(t.slice, ast.Constant) \
                and t.slice.value == 0 and isinstance(st.op, ast.Add) and isinstance(st.value, ast.Constant) \
                and st.value.value == 1:
            g, tg = self.var(t.value.value, env)
            unify(tg, 'graph')
            kx, kt = self.expr(t.value.slice, env)
            unify(kt, 'node')
            env2, let = self.bind(env, self.key(t.value.value), 'gincr %s %s' % (self.par(kx), g), 'graph')
            return let + cont(env2)
        raise Problem('augmented assignment %s' % u(st))

    def call_stmt(self, c, env, cont):
        f = c.func
        # closures
        if isinstance(f, ast.Name) and f.id in self.closures:
            cl = self.closures[f.id]
            if len(c.args) != len(cl['params']) or c.keywords:
                raise Problem('call of %s' % f.id)
            args = []
            for a, ty in zip(c.args, cl['ptypes']):
                t, ta = self.expr(a, env)
                unify(ta, res(ty)) if not isinstance(res(ty), TV) else unify(ty, res(ta))
                args.append(self.par(t))
            keys = cl['mod']
            return 'let %s := %s %s %s in\n%s' % (self.pat_of(keys, env), cl['gen'], self.par(self.tuple_of(keys, env)),
                                                  ' '.join(args), cont(env))
        if not isinstance(f, ast.Attribute):
            raise Problem('call %s' % u(c))
        recv, m = f.value, f.attr
        rk = self.key(recv)
        # self.remove(name)
        if isinstance(recv, ast.Name) and recv.id == self.selfname and m == 'remove' and self.spec['self'] == 'sorter':
            if len(c.args) != 1 or c.keywords:
                raise Problem('call %s' % u(c))
            a, ta = self.expr(c.args[0], env)
            unify(ta, 'node')
            s1 = self.fresh('s')
            env2 = dict(env)
            lets = ''
            for fld in FIELD_ORDER:
                env2['self.' + fld] = ('f_' + fld, FIELDS[fld])
                lets += 'let f_%s := %s %s in\n' % (fld, fld, s1)
            fail = self.fail()
            return 'match gen_remove (%s) %s with\n| None => %s\n| Some %s =>\n%s%s\nend' % (
                self.upd_sorter(env, 's'), self.par(a), fail, s1, lets, cont(env2))
        # self.sorter.add(name, factory, after=.., before=..)
        if rk == 'self.sorter' and m == 'add':
            params = self.sigs['add']
            got = {}
            for i, a in enumerate(c.args):
                got[params[i]] = a
            for kw in c.keywords:
                if kw.arg not in params or kw.arg in got:
                    raise Problem('keyword %r of sorter.add' % kw.arg)
                got[kw.arg] = kw.value
            if set(got) != set(params):
                raise Problem('sorter.add: arguments %r' % sorted(got))
            args = []
            for pn, ty in zip(params, SPECS['add']['params']):
                t, ta = self.expr(got[pn], env)
                unify(ta, ty)
                args.append(self.par(t))
            s1 = self.fresh('s')
            env2 = dict(env)
            env2['self.sorter'] = (s1, 'sorter')
            fail = self.fail()
            return 'match gen_add %s %s with\n| None => %s\n| Some %s =>\n%s\nend' % (
                self.par(env['self.sorter'][0]), ' '.join(args), fail, s1, cont(env2))
        if rk is not None and rk in env:
            L, tL = env[rk]
            tLr = res(tL)
            if m == 'append' and len(c.args) == 1:
                x, tx = self.expr(c.args[0], env)
                txr = res(tx)
                if isinstance(tLr, TV):
                    if isinstance(txr, TV):
                        txr = unify(tx, 'node')
                    tLr = unify(tL, LISTOF[txr])
                unify(tx, ELEM[tLr])
                env2, let = self.bind(env, rk, '%s ++ [%s]' % (self.par(L), x), tLr)
                return let + cont(env2)
            if m == 'extend' and len(c.args) == 1:
                x, tx = self.expr(c.args[0], env)
                unify(tL, res(tx)) if isinstance(tLr, TV) else unify(tx, tLr)
                env2, let = self.bind(env, rk, '%s ++ %s' % (self.par(L), self.par(x)), res(tL))
                return let + cont(env2)
            if m == 'insert' and len(c.args) == 2 and isinstance(c.args[0], ast.Constant) and c.args[0].value == 0:
                x, tx = self.expr(c.args[1], env)
                if isinstance(tLr, TV):
                    tLr = unify(tL, 'nodes')
                unify(tx, ELEM[tLr])
                env2, let = self.bind(env, rk, '%s :: %s' % (x, self.par(L)), tLr)
                return let + cont(env2)
            if m == 'add' and len(c.args) == 1 and tLr == 'set':
                x, tx = self.expr(c.args[0], env)
                unify(tx, 'node')
                env2, let = self.bind(env, rk, 'set_add %s %s' % (self.par(x), L), 'set')
                return let + cont(env2)
            if m == 'remove' and len(c.args) == 1:
                x, tx = self.expr(c.args[0], env)
                if isinstance(tLr, TV):
                    tLr = unify(tL, 'nodes')
                if rk == 'self.names':
                    unify(tx, 'node')
                    self.exit_used = True
                    env2, let = self.bind(env, rk, 'remove_first %s %s' % (self.par(x), L), 'nodes')
                    old = list(self.known)
                    body = let + cont(env2)
                    self.known = old
                    return 'if mem_text %s %s then\n%s\nelse %s' % (self.par(x), L, body, self.fail())
                unchecked = (rk.startswith('self.') and rk[5:] in UNCHECKED_REMOVE) or \
                    self.is_known('in', x, L)
                if not unchecked:
                    raise Problem('%s outside the table (no `in` test on the path)' % u(c))
                if tLr == 'arcs':
                    unify(tx, 'arc')
                    prim = 'remove_arc'
                else:
                    unify(tx, 'node')
                    prim = 'remove_first'
                env2, let = self.bind(env, rk, '%s %s %s' % (prim, self.par(x), L), tLr)
                return let + cont(env2)
        # graph[k].append(x)
        if isinstance(recv, ast.Subscript) and m == 'append' and len(c.args) == 1 and self.key(recv.value) in env:
            g, tg = env[self.key(recv.value)]
            unify(tg, 'graph')
            kx, kt = self.expr(recv.slice, env)
            x, tx = self.expr(c.args[0], env)
            unify(kt, 'node'), unify(tx, 'node')
            env2, let = self.bind(env, self.key(recv.value), 'gappend %s %s %s' % (self.par(kx), self.par(x), g), 'graph')
            return let + cont(env2)
        raise Problem('call outside the table: %s' % u(c))

    # ---- if
    def if_stmt(self, st, env, cont):
        test, body, orelse = st.test, st.body, st.orelse
        # option / hint idioms
        if isinstance(test, ast.Compare) and len(test.ops) == 1 and isinstance(test.ops[0], (ast.IsNot, ast.Is)) \
                and isinstance(test.comparators[0], ast.Constant) and test.comparators[0].value is None \
                and isinstance(test.left, ast.Name) and test.left.id in env:
            x = test.left.id
            tx = res(env[x][1])
            some, none = (body, orelse) if isinstance(test.ops[0], ast.IsNot) else (orelse, body)
            if tx == 'optalts':
                return self.branches('match %s with' % env[x][0], [('| Some v_%s =>' % x, some, {x: ('v_' + x, 'nodes')}),
                                                                   ('| None =>', none, {})], 'end', env, cont)
            if tx == 'hint' and some and self.is_norm_idiom(some[0], x):
                return self.branches('match norm_hint %s with' % env[x][0],
                                     [('| Some v_%s =>' % x, some[1:], {x: ('v_' + x, 'nodes')}), ('| None =>', none, {})],
                                     'end', env, cont)
        c = self.cond(test, env)
        know = []
        if isinstance(test, ast.Compare) and len(test.ops) == 1 and isinstance(test.ops[0], ast.In):
            x, _ = self.expr(test.left, env)
            L, _ = self.expr(test.comparators[0], env)
            know = [('in', x, L)]
        return self.branches('if %s' % c, [('then', body, {}, know), ('else', orelse, {})], '', env, cont)

    def is_norm_idiom(self, st, x):
        return (isinstance(st, ast.If) and not st.orelse and u(st.test) == 'not is_nonstr_iter(%s)' % x
                and len(st.body) == 1 and u(st.body[0]) == '%s = (%s,)' % (x, x))

    def branches(self, head, arms, tail, env, cont):
        """arms: (label, stmts, extra env bindings[, known facts])"""
        allst = [s for a in arms for s in a[1]]
        mod = sorted(k for k in self.assigned(allst) if k in env and not any(k in a[2] for a in arms))
        # variables first assigned here, on every arm: defined afterwards
        def top_assigned(stmts):
            return {t.id for st in stmts if isinstance(st, ast.Assign) for t in st.targets if isinstance(t, ast.Name)}
        new = set.intersection(*[top_assigned(a[1]) for a in arms]) - set(env) if arms else set()
        mod = self.order_vars(set(mod) | new, env, allst)
        newty = {}

        def arm_env(a):
            e = dict(env)
            e.update(a[2])
            return e

        def with_known(a, f):
            old = list(self.known)
            if len(a) > 3:
                self.known = self.known + a[3]
            try:
                return f()
            finally:
                self.known = old

        exits = [self.always_exits(a[1]) for a in arms]
        if all(exits):
            parts = [with_known(a, lambda a=a: self.block(a[1], arm_env(a), lambda e: self.finish(e))) for a in arms]
            return '%s\n%s\n%s' % (head, '\n'.join('%s\n%s' % (a[0], p) for a, p in zip(arms, parts)), tail)
        # try the merge form
        saved = (self.exit_used, self.n)
        self.exit_used = False
        merged = None
        try:
            parts = []
            for a, ex in zip(arms, exits):
                if ex:
                    raise Exit()
                parts.append(with_known(a, lambda a=a: self.block(
                    a[1], arm_env(a), lambda e: self.tuple_of(mod, self.back(e, env, mod)) if mod else 'tt')))
            if not self.exit_used:
                merged = parts
        except Exit:
            pass
        if merged is not None:
            self.exit_used = saved[0]
            env = dict(env)
            for k in new:
                env[k] = ('v_' + k, self._last_types[k])
            pat = self.pat_of(mod, env) if mod else '_'
            inner = '%s\n%s\n%s' % (head, '\n'.join('%s\n%s' % (a[0], p) for a, p in zip(arms, merged)), tail)
            return 'let %s :=\n%s in\n%s' % (pat, inner, cont(env))
        # duplication form: every arm is followed by its own copy of the rest
        self.exit_used, self.n = True, saved[1]
        parts = []
        for a in arms:
            def k(e, a=a):
                e2 = self.back(e, env, mod)
                return cont(e2)
            parts.append(with_known(a, lambda a=a, k=k: self.block(a[1], arm_env(a), k)))
        return '%s\n%s\n%s' % (head, '\n'.join('%s\n%s' % (a[0], p) for a, p in zip(arms, parts)), tail)

    def back(self, e, env, mod):
        """environment after a branch: the outer variables, with the branch's values of the modified ones"""
        out = dict(env)
        for k in mod:
            out[k] = e[k]
            self._last_types[k] = e[k][1]
        return out

    # ---- for
    def for_stmt(self, st, env, cont):
        it, ity = self.for_iter(st.iter, env)
        if isinstance(it, tuple):       # needs a raising call first
            term, v = it
            self.exit_used = True
            env1 = dict(env)
            env1['$tmp'] = (v, 'pairs')
            st2 = ast.For(target=st.target, iter=self.replace_raising(st.iter), body=st.body, orelse=[])
            if self.spec['ret'] != 'sumhandler':
                raise Problem('call that can raise in a loop header')
            return 'match %s with\n| Sorted %s =>\n%s\n| e => inl e\nend' % (term, v, self.for_stmt(st2, env1, cont))
        mod = self.order_vars({k for k in self.assigned(st.body) if k in env}, env, st.body)
        if not mod:
            raise Problem('loop without effect')
        x = self.fresh('x')
        env2, binder, lets = self.bind_target(st.target, ELEM[ity], env)
        if binder != 'v_' + getattr(st.target, 'id', ''):
            x = binder
        else:
            x = binder
        pat, tup = self.pat_of(mod, env), self.tuple_of(mod, env)
        # first try: unchecked body
        saved = (self.exit_used, self.n, list(self.known))
        saved_fu = self.fail_used
        self.exit_used = False
        self.fail_used = False
        self.fail_stack.append('None')
        try:
            body = self.block(st.body, env2, lambda e: self.tuple_of(mod, self.back(e, env, mod)))
        finally:
            self.fail_stack.pop()
        if self.exit_used:
            raise Problem('return / raise inside a for loop')
        checked, self.fail_used = self.fail_used, saved_fu
        if not checked:
            self.exit_used = saved[0]
            stv = self.fresh('st')
            if len(mod) == 1:
                fn = '(fun %s %s =>\n%s%s)' % (env[mod[0]][0], x, lets, body)
            else:
                fn = '(fun %s %s =>\nlet %s := %s in\n%s%s)' % (stv, x, pat, stv, lets, body)
            return 'let %s :=\nfold_left %s\n%s %s in\n%s' % (pat, fn, self.par(it), self.par(tup), cont(env))
        # checked body: option state
        self.exit_used, self.n, self.known = saved
        self.fail_stack.append('None')
        try:
            body = self.block(st.body, env2, lambda e: 'Some %s' % self.par(self.tuple_of(mod, self.back(e, env, mod))))
        finally:
            self.fail_stack.pop()
        stv = self.fresh('st')
        somepat = self.tuple_of(mod, env)
        fn = '(fun %s %s =>\nmatch %s with\n| None => None\n| Some %s =>\n%s%s\nend)' % (
            stv, x, stv, self.par(somepat) if len(mod) > 1 else somepat, lets, body)
        fail = self.fail()
        return 'match fold_left %s\n%s (Some %s) with\n| None => %s\n| Some %s =>\n%s\nend' % (
            fn, self.par(it), self.par(tup), fail, self.par(somepat) if len(mod) > 1 else somepat, cont(env))

    def for_iter(self, e, env):
        hit = []

        class R(ast.NodeVisitor):
            def visit_Call(s, n):
                c = self.raising_call(n, env)
                if c is not None:
                    hit.append((n, c))
                else:
                    s.generic_visit(n)
        R().visit(e)
        if hit:
            if len(hit) > 1 or '$tmp' in env:
                raise Problem('several raising calls in %s' % u(e))
            self._raising_node = hit[0][0]
            return (hit[0][1][0], self.fresh('v_sorted')), None
        return self.iterable(e, env)

    def replace_raising(self, e):
        target = self._raising_node

        class T(ast.NodeTransformer):
            def visit_Call(s, n):
                if n is target:
                    return ast.Name(id='$tmp', ctx=ast.Load())
                return s.generic_visit(n)
        import copy
        return T().visit(e)

    # ---- while
    def while_stmt(self, st, env, cont):
        L = self.key(st.test)
        if L is None or L not in env:
            raise Problem('while test %s' % u(st.test))
        tL = res(env[L][1])
        if isinstance(tL, TV):
            tL = unify(env[L][1], 'nodes')
        if tL != 'nodes':
            raise Problem('while over %s' % tL)
        mod = self.order_vars({k for k in self.assigned(st.body) if k in env}, env, st.body)
        if L not in mod:
            raise Problem('the loop list is never changed')
        name = '%s_while' % self.spec['gen']
        h, t = self.fresh('h'), self.fresh('t')
        saved_known, saved_fail, saved_deleted = list(self.known), list(self.fail_stack), set(self.deleted)
        self.known = self.known + [('cons', env[L][0], h, t)]
        self.fail_stack = ['None']
        self.deleted = set()
        rec = lambda e: '%s fuel %s' % (name, ' '.join(self.par(self.back(e, env, mod)[k][0]) for k in mod))
        body = self.block(st.body, env, rec)
        dels = [k for k in self.deleted if k in mod and res(env[k][1]) == 'graph']
        self.known, self.fail_stack, self.deleted = saved_known, saved_fail, saved_deleted
        if len(dels) != 1:
            raise Problem('while loop: no `del D[k]` on a dictionary in every iteration (needed for the fuel)')
        params = ' '.join('(%s : %s)' % (env[k][0], coqty(env[k][1])) for k in mod)
        rty = ' * '.join(coqty(env[k][1]) for k in mod)
        tup = self.tuple_of(mod, env)
        self.out.append('Fixpoint %s (fuel : nat) %s {struct fuel} : option (%s) :=\nmatch %s with\n| [] => Some %s\n| %s :: %s =>\n'
                        'match fuel with\n| O => None\n| S fuel =>\n%s\nend\nend.\n' % (
                            name, params, rty, env[L][0], self.par(tup), h, t, body))
        fail = self.fail()
        return 'match %s (length %s) %s with\n| None => %s\n| Some %s =>\n%s\nend' % (
            name, env[dels[0]][0], ' '.join(env[k][0] for k in mod), fail, self.par(tup), cont(env))

    # ---- closures
    def closure_def(self, fn, env, cont):
        a = fn.args
        if a.vararg or a.kwarg or a.kwonlyargs or a.defaults or fn.decorator_list:
            raise Problem('closure %s' % fn.name)
        params = [x.arg for x in a.args]
        mod = self.order_vars({k for k in self.assigned(fn.body) if k in env}, env, fn.body)
        env2 = dict(env)
        ptypes = []
        for pn in params:
            tv = TV('parameter %s of %s' % (pn, fn.name))
            ptypes.append(tv)
            env2[pn] = ('v_' + pn, tv)
        gen = '%s_%s' % (self.spec['gen'], fn.name)
        saved = (self.exit_used, list(self.fail_stack))
        self.exit_used = False
        self.block(fn.body, env2, lambda e: self.tuple_of(mod, self.back(e, env, mod)))   # dry run: resolves the types
        mod = self.order_vars(set(mod), env, fn.body)
        body = self.block(fn.body, env2, lambda e: self.tuple_of(mod, self.back(e, env, mod)))
        if self.exit_used:
            raise Problem('closure %s can fail or return' % fn.name)
        self.exit_used = saved[0]
        for k in env2:
            if k not in mod and k not in params and k in env:
                pass
        # reads of other captured variables are not supported
        for n in ast.walk(fn):
            k = self.key(n) if isinstance(n, (ast.Name, ast.Attribute)) else None
            if k is not None and k in env and k not in mod and k not in params:
                raise Problem('closure %s reads %s which it does not assign' % (fn.name, k))
        self.closures[fn.name] = dict(gen=gen, params=params, ptypes=ptypes, mod=mod)
        self.pending.append((gen, fn.name, mod, params, ptypes, body, env))
        return cont(env)

    def flush_closures(self):
        for gen, name, mod, params, ptypes, body, env in self.pending:
            sty = ' * '.join(coqty(env[k][1]) for k in mod)
            ps = ' '.join('(v_%s : %s)' % (p, coqty(t)) for p, t in zip(params, ptypes))
            self.out.append('Definition %s (st : %s) %s : %s :=\nlet %s := st in\n%s.\n' % (
                gen, sty, ps, sty, self.pat_of(mod, env), body))
        self.pending = []

    # ------------------------------------------------------------ entry
    def translate(self):
        fn, spec = self.fn, self.spec
        a = fn.args
        if a.vararg or a.kwarg or a.kwonlyargs or fn.decorator_list:
            raise Problem('unexpected parameter list / decorator')
        names = [x.arg for x in a.args]
        if len(names) != len(spec['params']) + 1:
            raise Problem('expected %d parameters' % (len(spec['params']) + 1))
        self.selfname = names[0]
        self.pair_of = {}
        self._last_types = {}
        self.pending = []
        self.deleted = set()
        env = dict(self.env0)
        sig = []
        for pn, ty in zip(names[1:], spec['params']):
            if ty == 'erased':
                continue
            if ty == 'info':
                env[pn] = ('info', 'info')
                continue
            env[pn] = ('v_' + pn, ty)
            sig.append('(v_%s : %s)' % (pn, COQTY[ty]))
        lets = ''
        if spec['self'] == 'sorter':
            head = '(s : sorter)'
            for f, ty in FIELDS.items():
                env['self.' + f] = ('f_' + f, ty)
                lets += 'let f_%s := %s s in\n' % (f, f)
        elif spec['self'] == 'tweens':
            head = '(t : tweens)'
            env['self.sorter'] = ('f_sorter', 'sorter')
            env['self.explicit'] = ('f_explicit', 'pairs')
            lets = 'let f_sorter := tw_sorter t in\nlet f_explicit := tw_explicit t in\n'
        else:
            head = '(derivers0 : sorter) (view0 : handler)'
        rty = {'optsorter': 'option sorter', 'outcome': 'outcome', 'tweens': 'tweens', 'opttweens': 'option tweens',
               'sumhandler': 'outcome + handler'}[spec['ret']]
        body = self.block(fn.body, env, lambda e: self.finish(e))
        self.flush_closures()
        self.out.append('Definition %s %s %s : %s :=\n%s%s.\n' % (spec['gen'], head, ' '.join(sig), rty, lets, body))


def _find(tree, qual):
    node = tree
    for part in qual.split('.'):
        nxt = None
        for ch in (node.body if hasattr(node, 'body') else []):
            if isinstance(ch, (ast.FunctionDef, ast.ClassDef)) and ch.name == part:
                nxt = ch
        if nxt is None:
            raise Problem('%s not found' % qual)
        node = nxt
    return node


TARGETS = [
    ('pyramid/util.py', 'TopologicalSorter', ['remove', 'add', 'sorted']),
    ('pyramid/config/tweens.py', 'Tweens', ['add_explicit', 'add_implicit', 'implicit', '__call__']),
    ('pyramid/config/views.py', 'ViewsConfiguratorMixin', ['_apply_view_derivers']),
]
# every source function whose control flow is regenerated on every run (closures as Outer.inner)
TRANSLATED = [
    'pyramid/util.py:TopologicalSorter.remove',
    'pyramid/util.py:TopologicalSorter.add',
    'pyramid/util.py:TopologicalSorter.sorted',
    'pyramid/util.py:TopologicalSorter.sorted.add_node',
    'pyramid/util.py:TopologicalSorter.sorted.add_arc',
    'pyramid/config/tweens.py:Tweens.add_explicit',
    'pyramid/config/tweens.py:Tweens.add_implicit',
    'pyramid/config/tweens.py:Tweens.implicit',
    'pyramid/config/tweens.py:Tweens.__call__',
    'pyramid/config/views.py:ViewsConfiguratorMixin._apply_view_derivers',
]
try:                                   # the directive translator (argument processing of add_view_deriver / _add_tween)
    from .translate_args import TRANSLATED as _ARGS_TRANSLATED
except ImportError:                    # run as a script
    from translate_args import TRANSLATED as _ARGS_TRANSLATED
TRANSLATED = TRANSLATED + list(_ARGS_TRANSLATED) + ['pyramid/config/predicates.py:PredicateList.make']
GEN_NAMES = ['gen_remove', 'gen_add', 'gen_sorted', 'gen_tw_add_explicit', 'gen_tw_add_implicit', 'gen_tw_implicit',
             'gen_tw_call', 'gen_apply_view_derivers']


def translate_tree(src):
    """-> (coq text, problems, summary).  On any Problem the stored fallback text is emitted."""
    problems, out, summary = [], [], {}
    try:
        sigs = {}
        trees = {}
        for rel, cls, fns in TARGETS:
            with open(os.path.join(src, rel)) as f:
                trees[rel] = ast.parse(f.read())
        addfn = _find(trees['pyramid/util.py'], 'TopologicalSorter.add')
        sigs['add'] = [x.arg for x in addfn.args.args][1:]
        if len(sigs['add']) != 4:
            raise Problem('TopologicalSorter.add signature')
        for rel, cls, fns in TARGETS:
            for name in fns:
                fn = _find(trees[rel], '%s.%s' % (cls, name))
                try:
                    Fn(fn, SPECS[name], {}, out, sigs).translate()
                except Problem as e:
                    raise Problem('%s.%s: %s' % (cls, name, e))
                except (KeyError, IndexError, AttributeError, TypeError) as e:
                    raise Problem('%s.%s: untranslatable (%s: %s)' % (cls, name, type(e).__name__, e))
        text = '\n'.join(out)
        summary['translated'] = GEN_NAMES
    except (Problem, OSError, SyntaxError) as e:
        problems.append('translator: %s' % e)
        with open(FALLBACK) as f:
            text = json.load(f)['text']
        summary['translated'] = 'FALLBACK (%s)' % e
    return text, problems, summary


if __name__ == '__main__':
    import sys
    t, p, s = translate_tree(sys.argv[1] if len(sys.argv) > 1 else '/repo/src')
    print(t)
    print(p, file=sys.stderr)
