"""Instrumented tween factories and view derivers for C18 (importable dotted names)."""
LOG = []
N_TWEENS = 6
PREFIX = 'harness.c18.tw.t'


def _mk(name):
    def factory(handler, registry):
        def tween(request):
            LOG.append([0, name])
            try:
                return handler(request)
            finally:
                LOG.append([1, name])
        return tween
    factory._c18_id = int(name[len(PREFIX):]) + 1
    return factory


for _i in range(N_TWEENS):
    globals()['t%d' % _i] = _mk('%s%d' % (PREFIX, _i))


def mk_deriver(name, ident):
    def deriver(view, info):
        def wrapped(context, request):
            LOG.append([0, name])
            try:
                return view(context, request)
            finally:
                LOG.append([1, name])
        return wrapped
    deriver.__name__ = 'deriver_' + name
    deriver._c18_id = ident
    return deriver
