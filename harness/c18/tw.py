"""Instrumented tween factories, view derivers and predicates for C18 (importable dotted names)."""
LOG = []
# attribute names of the tween factories; two of them CONTAIN a reserved tween name as a substring
# ('SUBDOMAIN' has 'MAIN', 'INGRESSION' has 'INGRESS'): lexical near-misses of the sentinels
ATTRS = ['t0', 't1', 't2', 't3', 't4', 't5', 'SUBDOMAIN_t6', 'INGRESSION_t7']
N_TWEENS = len(ATTRS)
MODULE = 'harness.c18.tw.'
NAMES = [MODULE + a for a in ATTRS]


def _mk(name, ident=None):
    def factory(handler, registry):
        def tween(request):
            LOG.append([0, name])
            try:
                return handler(request)
            finally:
                LOG.append([1, name])
        return tween
    factory._c18_id = NAMES.index(name) + 1 if ident is None else ident
    return factory


def reset():
    for a, n in zip(ATTRS, NAMES):
        globals()[a] = _mk(n)


def rebind(name, ident):
    """the dotted name now resolves to a (new) factory object carrying this id"""
    globals()[name[len(MODULE):]] = _mk(name, ident)


reset()


def mk_deriver(name, ident):
    def deriver(view, info):
        def wrapped(context, request):
            LOG.append([0, name])
            try:
                return view(context, request)
            finally:
                LOG.append([1, name])
        return wrapped
    deriver.__name__ = 'deriver_' + name
    deriver._c18_id = ident
    return deriver


def mk_pred(name, ident):
    class Pred:
        _c18_id = ident

        def __init__(self, val, info):
            self.val = val

        def text(self):
            return '%s = %r' % (name, self.val)

        phash = text

        def __call__(self, *args):
            LOG.append([3, name])
            return True
    Pred.__name__ = 'Pred_' + name
    return Pred
