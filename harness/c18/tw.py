"""Instrumented tween factories, view derivers and predicates for C18 (importable dotted names)."""
LOG = []
N_TWEENS = 6
PREFIX = 'harness.c18.tw.t'


def _mk(name, ident=None):
    def factory(handler, registry):
        def tween(request):
            LOG.append([0, name])
            try:
                return handler(request)
            finally:
                LOG.append([1, name])
        return tween
    factory._c18_id = int(name[len(PREFIX):]) + 1 if ident is None else ident
    return factory


def reset():
    for i in range(N_TWEENS):
        globals()['t%d' % i] = _mk('%s%d' % (PREFIX, i))


def rebind(name, ident):
    """the dotted name now resolves to a (new) factory object carrying this id"""
    globals()[name[len('harness.c18.tw.'):]] = _mk(name, ident)


reset()


def mk_deriver(name, ident):
    def deriver(view, info):
        def wrapped(context, request):
            LOG.append([0, name])
            try:
                return view(context, request)
            finally:
                LOG.append([1, name])
        return wrapped
    deriver.__name__ = 'deriver_' + name
    deriver._c18_id = ident
    return deriver


def mk_pred(name, ident):
    class Pred:
        _c18_id = ident

        def __init__(self, val, info):
            self.val = val

        def text(self):
            return '%s = %r' % (name, self.val)

        phash = text

        def __call__(self, *args):
            LOG.append([3, name])
            return True
    Pred.__name__ = 'Pred_' + name
    return Pred
