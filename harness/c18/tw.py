"""Instrumented tween factories, view derivers and predicates for C18 (importable dotted names)."""
LOG = []
# attribute names of the tween factories; two of them CONTAIN a reserved tween name as a substring
# ('SUBDOMAIN' has 'MAIN', 'INGRESSION' has 'INGRESS'): lexical near-misses of the sentinels
ATTRS = ['t0', 't1', 't2', 't3', 't4', 't5', 'SUBDOMAIN_t6', 'INGRESSION_t7']
N_TWEENS = len(ATTRS)
MODULE = 'harness.c18.tw.'
NAMES = [MODULE + a for a in ATTRS]
# OTHER SPELLINGS of dotted names that Configurator.maybe_dotted resolves to the same factories (the configurator's
# package is harness.c18): package-relative ('.tw.t0') and pkg_resources style ('harness.c18.tw:t1', '.tw:t2').  A tween
# is known to the sorter under the string it was ADDED with, and other tweens refer to it by that same string.
ALIASES = ['.tw.t0', '.tw.t1', 'harness.c18.tw:t1', 'harness.c18.tw:t2', '.tw:t3']
ALL_NAMES = NAMES + ALIASES


def attr_of(name):
    return name.replace(':', '.').rsplit('.', 1)[-1]


def _mk(name, ident=None):
    def factory(handler, registry):
        def tween(request):
            LOG.append([0, name])
            try:
                return handler(request)
            finally:
                LOG.append([1, name])
        return tween
    factory._c18_name = name
    factory._c18_id = ALL_NAMES.index(name) + 1 if ident is None else ident
    return factory


def reset():
    for a, n in zip(ATTRS, NAMES):
        globals()[a] = _mk(n)


def rebind(name, ident):
    """the dotted name now resolves to the factory object carrying this id: the VERY SAME object as before when the
    id is the one already bound (re-registering an unchanged factory under other hints -- identity matters to code
    that short-cuts on `is`), a new object otherwise"""
    attr = attr_of(name)
    cur = globals().get(attr)
    if cur is not None and getattr(cur, '_c18_id', None) == ident and getattr(cur, '_c18_name', None) == name:
        return cur
    globals()[attr] = f = _mk(name, ident)
    return f


class ObjCache:
    """per-case objects by (name, id): the same id under the same name = the very same deriver / predicate object"""

    def __init__(self, mk):
        self.mk, self.d = mk, {}

    def get(self, name, ident):
        k = (name, ident)
        if k not in self.d:
            self.d[k] = self.mk(name, ident)
        return self.d[k]


reset()


def mk_deriver(name, ident):
    def deriver(view, info):
        def wrapped(context, request):
            LOG.append([0, name])
            try:
                return view(context, request)
            finally:
                LOG.append([1, name])
        return wrapped
    deriver.__name__ = 'deriver_' + name
    deriver._c18_id = ident
    return deriver


def mk_pred(name, ident):
    class Pred:
        _c18_id = ident
        _c18_name = name

        def __init__(self, val, info):
            self.val = val

        def text(self):
            return '%s = %r' % (name, self.val)

        phash = text

        def __call__(self, *args):
            LOG.append([3, name])
            return True
    Pred.__name__ = 'Pred_' + name
    return Pred
