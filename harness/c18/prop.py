"""C18 -- tween, view-deriver and predicate ordering honours every declared constraint."""
import itertools
import sys
import json
import os
from harness.common import facts as F
from harness.common import build
from . import facts18
from . import translate
from . import translate_args
from . import translate_make

ID = 'C18'
HERE = os.path.dirname(os.path.abspath(__file__))
CASES = {'quick': 20000, 'thorough': 600000}
PARALLEL = True
RULE = ('sorter cases: sequences of <=10 add/remove calls on a TopologicalSorter (three constructor flavours: '
        'predicate list, tweens, derivers) over <=8 names + sentinels + absent names, constraints None/name/sentinel/'
        'list of alternatives, item names incl. near-misses of the reserved names (DOMAIN, PREVIEW, ..SUBDOMAIN.., ..INGRESSION..), sorted() observed after every call; all insertion orders of small declaration sets; '
        'configurator cases: add_tween HISTORIES (adds/re-adds interleaved with implicit() and requests through freshly '
        'made apps, with/without pyramid.tweens, autocommit / commit after each add / ONE commit per look with adds inside config.include and top-level overrides; names also in package-relative and pkg:attr spelling, the stock excview tween re-positioned, user derivers named like the fixed outer wrappers; directive calls positional, with None hints omitted, deriver name omitted), add_view_deriver, and '
        'add_view/route/subscriber_predicate with weighs_more_than/weighs_less_than hints, with a real request through '
        'instrumented tweens/derivers/predicates, or PredicateList.make called directly with single / predvalseq / not_ values; re-registrations hand over the VERY SAME object in part of the cases and '
        'a third of all cases pass every name/hint as an equal-but-not-identical str object. non-trivial = some observed step is an error '
        'or an order of >=2 names with at least one constraint between present names; distinct by full case')
ASSUMPTIONS = [
    'names and constraint targets are str; the Sentinel objects FIRST/LAST are compared by identity (no __eq__) and are '
    'never used as item names; for the tween/deriver sorters the reserved names (INGRESS, MAIN, VIEW) are not item names',
    'is_nonstr_iter distinguishes a scalar hint from an iterable one (shape-pinned); iterables are lists/tuples of str',
    'configurator scenarios run with autocommit=True (re-adding a name replaces it instead of conflicting)',
]
TRUSTED = [
    'translator harness/c18/translate.py: its PRIMITIVE TABLE (which Python leaf expression / method / idiom / exception '
    'constructor becomes which primitive of coq/Model/C18_base.v -- see the docstring); control flow is translated '
    'mechanically, anything outside subset/table is a broken tie, never a guess',
    'hand-written REFERENCE model coq/Model/C18_base.v + C18.v: for remove/add/sorted, Tweens.add_explicit/add_implicit/'
    'implicit/__call__ and _apply_view_derivers it is no longer trusted (proved equal to the regenerated program); still '
    'trusted and shape-pinned: add_default_* lists, get_predlist, Router.__init__, '
    'is_nonstr_iter, is_string_or_iterable, as_sorted_tuple; the argument processing of add_view_deriver / _add_tween / '
    'add_tween and of the predicate directive chain (add_*_predicate -> _add_predicate -> PredicateList.add) is regenerated (translate_args.py) and proved equal to the model, its skipped plumbing statements are '
    'hashed (masked pins)',
    'directive translator harness/c18/translate_args.py: its table (identity test on a bare hint = equality with the '
    'interned constant; `C in hint` only under an is_nonstr_iter guard; names are str and never None; the action runs the '
    'register() closure)',
    'Python str ordering (as_sorted_tuple) modelled as code-point lexicographic order',
    'Router.__init__ / make_wsgi_app / view lookup are exercised, not modelled (only the enter/exit log is compared)',
]
TECHNIQUE = ('Coq proof about a Gallina program whose control flow is TRANSLATED from the Python source on every run '
             '(harness/c18/translate.py -> Gen/Facts_C18.v: gen_remove, gen_add, gen_sorted with its closures and its fuelled '
             'while loop, gen_tw_*, gen_apply_view_derivers; harness/c18/translate_args.py: gen_deriver_args, gen_add_tween, '
             'gen_add_tween_directive), proved equal to the hand-written reference model (Proofs/C18_gen.v, C18_args.v); '
             'loop invariant of the Kahn-style emission loop, representation invariant of add/remove, pigeonhole for cycles; '
             'extracted-model differential correspondence; the declarative judge defined in Coq is run on the '
             'implementation\'s answers; the wire-level judges are proved to accept every wire answer of the model (C18_wire.v)')
LEVEL_TEXT = ('Machine-checked theorems about the program regenerated from src/pyramid/util.py, config/tweens.py and '
              'config/views.py on this run: for every constructor flavour and every add/remove sequence each answer of sorted() is '
              'accepted by the declarative judge (every declared name once with its latest value, every constraint between present '
              'names respected, Unsatisfied/Cyclic errors exactly when justified; C18_gen_model_judged), sorted() never fails '
              'internally, tweens and view derivers nest in list order with an explicit tween list winning; plus, on the reference '
              'model, cycle_iff_error in both directions, tween histories, predicate directives, the default deriver order '
              '(secured_view first) and, after any add_view_deriver calls, every deriver outside mapped_view (user callable innermost); the regenerated argument processing of add_view_deriver / _add_tween equals the model and '
              'feeds the judged scenarios end to end (C18_gen_derivers_scenario_judged, C18_gen_tweens_history_add), likewise the predicate directive chain (C18_gen_pred_chain_is_spec, C18_gen_preds_scenario_judged); PredicateList.make regenerated and proved to create (= evaluate) the predicates in an order honouring every weighs_more_than/weighs_less_than constraint (C18_gen_make_order_respects); end-to-end compositions for derivers and predicates (C18_derivers_end_to_end, C18_preds_end_to_end) and the batch/include rule stated in Coq with the history judge on the effective history (C18_batch_flush_spec, C18_batch_history_judged); the executable wire '
              'judges accept every answer of the model (C18_wire_*_judged). Ties: generated = model theorems (no shape pins on the translated functions), regenerated '
              'constants, 30 shape pins + 4 masked pins on the untranslated functions / statements, a structural fact on setup_registry, '
              'differential run with the Coq judge on the implementation.')
LEVEL_NOTE = ('Trusted: Coq kernel; the translator\'s primitive table (leaf claims about dict/list/set methods, the graph entry '
              'representation, the unchecked list.remove on order/req_* which is unreachable by C18_rep_reachable, the fuel = '
              'len(graph) of the while loop whose exhaustion is proved impossible); the hand-written model of the untranslated '
              'functions (pinned); the tables of the directive and make translators (pred.phash() opaque); Python harness (incl. _tw_keep, a Python mirror of the Coq function `effective`; that C04\'s commit executes exactly these statements is taken from C04, not proved here). The wire-level judges are proved through the outermost run_C18 dispatch for tags 0-7; for tag 8 (make) at the decoded level (C18_wire_make_judged).')
ALLOWED_AXIOMS = ()
PROOF_TIMEOUT = 1500

NAMES = list('abcdefgh')
ABSENT = ['x', 'y']
FIRST_T, LAST_T = facts18.SENT['FIRST'], facts18.SENT['LAST']
from . import tw as _twmod
TW_ABS = list(_twmod.NAMES)
TW = list(_twmod.ALL_NAMES)   # absolute names, then other spellings (relative, pkg:attr); two absolute ones contain 'MAIN' / 'INGRESS' as substrings (near-misses of the sentinels)
EXCVIEW = 'pyramid.tweens.excview_tween_factory'

_facts_cache = {}


def facts(src):
    problems = []
    summary = F.check_shapes(src, os.path.join(HERE, 'pins.json'), problems)
    vals, pr = facts18.extract(src)
    problems += pr
    _facts_cache['vals'] = vals
    summary.update({k: (list(v) if isinstance(v, tuple) else v) for k, v in vals.items()})
    gen, tproblems, tsummary = translate.translate_tree(src)
    problems += tproblems
    summary.update(tsummary)
    gen2, aproblems, asummary = translate_args.translate_tree(src)      # directive argument processing
    problems += aproblems
    summary.update(asummary)
    gen3, mproblems, msummary = translate_make.translate_tree(src)       # PredicateList.make
    problems += mproblems
    summary.update(msummary)
    gen = gen + '\n' + gen2 + '\n' + gen3
    return {'coq': facts18.emit(vals, gen), 'summary': summary, 'problems': problems}


def _vals():
    if 'vals' not in _facts_cache:
        _facts_cache['vals'] = facts18.extract(build.SRC)[0]
    return _facts_cache['vals']


# ------------------------------------------------------------ generation
def _sentinels(cfg):
    return [FIRST_T, LAST_T] if cfg == 0 else (['INGRESS', 'MAIN'] if cfg == 1 else ['INGRESS', 'VIEW'])


def gen_hint(rng, pool, before_of=None, empty_ok=True):
    """pool: candidate targets"""
    r = rng.random()
    if r < 0.35:
        return None
    if r < 0.70:
        return rng.choice(pool)
    k = rng.choice([1, 1, 2, 2, 3])
    if empty_ok and rng.random() < 0.04:
        k = 0
    return [rng.choice(pool) for _ in range(k)]


def _with_copies(rng, case):
    """a third of the cases hand over every name / hint as an equal-but-not-identical str object; configurator cases
    also vary the ARGUMENT FORM of the directive calls (positional, None hints omitted, deriver name omitted)"""
    if rng.random() < 0.34:
        case['copies'] = 1
    if case['k'] != 'sorter' and rng.random() < 0.5:
        case['style'] = rng.choice([1, 2, 3] if case['k'] == 'derivers' else [1, 2])
    return case


def gen_sorter(rng):
    cfg = rng.choice([0, 0, 1, 2])
    n = rng.choice([2, 3, 3, 4, 4, 5, 6, 8])
    names = NAMES[:n]
    if cfg > 0 and rng.random() < 0.3:                      # names that contain a sentinel of this flavour as a substring
        names = names[:-1] + [rng.choice(['DOMAIN', 'INGRESSION'] if cfg == 1 else ['PREVIEW', 'INGRESSION'])]
    sent = _sentinels(cfg)
    perm = names[:]
    rng.shuffle(perm)
    pos = {x: i for i, x in enumerate(perm)}
    dagish = rng.random() < 0.8
    p_absent = rng.choice([0.0, 0.0, 0.05, 0.2])
    p_sent = rng.choice([0.0, 0.1, 0.3])
    p_none = rng.choice([0.3, 0.5, 0.7])
    declare_all = rng.random() < 0.6
    added = []

    def target(name, after, only_added):
        r = rng.random()
        if r < p_absent:
            return rng.choice(ABSENT)
        if r < p_absent + p_sent:
            if rng.random() < 0.85:
                return sent[0] if after else sent[1]
            return rng.choice(sent)
        pool = [x for x in (added if only_added and added else names)]
        if dagish and rng.random() < 0.93:
            cands = [x for x in pool if (pos[x] < pos[name]) == after and x != name]
            if cands:
                return rng.choice(cands)
            if rng.random() < 0.7:
                return sent[0] if after else sent[1]
        return rng.choice(pool)

    def hint(name, after, only_added):
        r = rng.random()
        if r < p_none:
            return None
        if r < p_none + (1 - p_none) * 0.6:
            return target(name, after, only_added)
        k = rng.choice([1, 2, 2, 3])
        if rng.random() < 0.02:
            k = 0
        return [target(name, after, only_added) for _ in range(k)]

    ops = []
    if declare_all:
        order = names[:]
        rng.shuffle(order)
        for name in order:
            ops.append(['add', name, rng.randrange(1, 5), hint(name, True, False), hint(name, False, False)])
            added.append(name)
        extra = rng.choice([0, 0, 1, 2, 3])
    else:
        extra = rng.choice([1, 2, 3, 4, 5, 6, 7, 8, 10])
    for _ in range(extra):
        if added and rng.random() < 0.15:
            nm = rng.choice(added) if rng.random() < 0.9 else rng.choice(names + ['x'])
            ops.append(['remove', nm])
            if nm in added:
                added.remove(nm)
            continue
        name = rng.choice(names)
        oa = rng.random() < 0.7
        ops.append(['add', name, rng.randrange(1, 5), hint(name, True, oa), hint(name, False, oa)])
        if name not in added:
            added.append(name)
    return _with_copies(rng, {'k': 'sorter', 'cfg': cfg, 'ops': ops[:12]})


def gen_perms(rng, maxn):
    """a small declaration set, every insertion order"""
    n = rng.choice([2, 3, 3, 4][:maxn - 1])
    base = gen_sorter(rng)
    names = NAMES[:n]
    decls = {}
    for op in base['ops']:
        if op[0] == 'add' and op[1] in names and op[1] not in decls:
            decls[op[1]] = op
    adds = list(decls.values())
    if not adds:
        return
    for p in itertools.permutations(adds):
        yield {'k': 'sorter', 'cfg': base['cfg'], 'ops': [list(o) for o in p]}


def gen_tweens(rng):
    """a history: rounds of add_tween calls (later rounds mostly RE-ADD existing names with other hints / another
    factory), with a look at the order (implicit() or a request through a freshly made app) after every round"""
    k = rng.choice([1, 2, 3, 4, 6])
    live = TW_ABS[:max(2, k)]
    q = rng.random()
    if q < 0.35:                                            # bring in the names that merely CONTAIN a reserved name
        live = rng.sample(TW_ABS, max(2, min(k, len(TW_ABS))))
    elif q < 0.65:                                          # other SPELLINGS of dotted names (relative, pkg:attr), also next
        al = rng.sample(_twmod.ALIASES, rng.choice([1, 2, 3]))     # to the absolute spelling of the same factory
        live = al + rng.sample(TW_ABS[:4], max(1, min(4, k - len(al))))
        rng.shuffle(live)
    pool = live + ['MAIN', 'INGRESS', EXCVIEW, 'absent.tween', 'absent.MAINTENANCE', 'absent.INGRESSES', '.tw.absent']
    explicit = []
    if rng.random() < 0.2:
        cand = TW_ABS[:4] + TW_ABS[-2:] + [EXCVIEW] + (_twmod.ALIASES if rng.random() < 0.4 else [])
        rng.shuffle(cand)
        seen_attr = set()
        for x in cand:                                      # one spelling per factory in an explicit list
            if _twmod.attr_of(x) not in seen_attr and len(explicit) < 3:
                explicit.append(x)
                seen_attr.add(_twmod.attr_of(x))
        explicit = explicit[:rng.choice([1, 2, 3])]

    def hint(after):
        r = rng.random()
        if r < 0.45:
            return None
        c = lambda: (rng.choice(live) if rng.random() < 0.6 else
                     (('INGRESS' if after else 'MAIN') if rng.random() < 0.6 else rng.choice(pool)))
        if r < 0.8:
            return c()
        return [c() for _ in range(rng.choice([1, 2, 3]))]

    events = []
    added = []
    rounds = rng.choice([1, 2, 2, 3])
    for r in range(rounds):
        n_adds = k if r == 0 else rng.choice([1, 1, 2, 3])
        for _ in range(n_adds):
            if r > 0 and added and rng.random() < 0.8:
                name = rng.choice(added)                       # re-add: the number of names does not change
            else:
                q = rng.random()
                name = rng.choice(live) if q < 0.9 else (EXCVIEW if q < 0.95 else rng.choice(['MAIN', 'INGRESS']))
            fid = _tw_id(name) if rng.random() < 0.6 else 10 * (r + 1) + _tw_id(name)
            if name == EXCVIEW:
                fid = 0                                        # the stock tween re-positioned: its real factory
            events.append(['add', name, fid, hint(True), hint(False)])
            if name in TW and name not in added:
                added.append(name)
        if r < rounds - 1:
            q = rng.random()
            if q < 0.45:
                events.append(['implicit'])
            elif q < 0.9:
                events.append(['request'])
    events.append(['request'] if rng.random() < 0.8 else ['implicit'])
    case = {'k': 'tweens', 'explicit': explicit, 'autocommit': rng.random() < 0.7, 'events': events}
    if rng.random() < 0.3:
        b = _to_batch(rng, case)
        if valid(b):
            case = b
    return _with_copies(rng, case)


def _to_batch(rng, case):
    """the same history with ONE commit per look: statements accumulate, some of them inside config.include(..), and a
    top-level statement overrides an included one of the same name (each name at most once per level and batch)"""
    evs, seen = [], {}
    for e in case['events']:
        if e[0] != 'add':
            evs.append(e)
            seen = {}
            continue
        def clean(h, after):
            bad = ('MAIN', 'INGRESS')
            if isinstance(h, list):
                return [t for t in h if t not in bad] or None
            return None if h in bad else h
        if e[1] in ('MAIN', 'INGRESS'):
            continue
        levels = seen.setdefault(e[1], set())
        free = [l for l in (0, 1) if l not in levels]
        if not free:
            continue
        lvl = rng.choice(free) if rng.random() < 0.6 else free[0]
        levels.add(lvl)
        evs.append(['add', e[1], e[2], clean(e[3], True), clean(e[4], False)] + ([1] if lvl else []))
    # make overriding likely: repeat an included statement's name at top level (or the other way round) in its batch
    out, batch = [], []
    for e in evs + [None]:
        if e is not None and e[0] == 'add':
            batch.append(e)
            continue
        if batch and rng.random() < 0.6:
            src = rng.choice(batch)
            lv = bool(len(src) > 5 and src[5])
            if not any(x[1] == src[1] and bool(len(x) > 5 and x[5]) != lv for x in batch):
                twin = ['add', src[1], src[2] if rng.random() < 0.5 else src[2] + 20,
                        rng.choice([None, src[4], rng.choice(batch)[1]]), rng.choice([None, src[3]])]
                twin = [twin[0], twin[1], twin[2], twin[3] if twin[3] != src[1] else None, twin[4]] + ([] if lv else [1])
                batch.insert(rng.randrange(len(batch) + 1), twin)
        out += batch
        batch = []
        if e is not None:
            out.append(e)
    return {'k': 'tweens', 'explicit': case['explicit'], 'autocommit': 2, 'events': out}


PRED_KINDS = ['view', 'route', 'subscriber']
PRED_USER = ['p0', 'p1', 'p2', 'p3']
PRED_BUILTIN = {0: ['xhr', 'request_method', 'custom', 'accept', 'header', 'physical_path'],
                1: ['xhr', 'request_method', 'custom', 'accept', 'header'],
                2: []}


def gen_preds(rng):
    kind = rng.choice([0, 0, 1, 1, 1, 2])
    k = rng.choice([1, 2, 2, 3, 3, 4])
    builtin = PRED_BUILTIN[kind]
    perm = PRED_USER[:]
    rng.shuffle(perm)
    chosen = perm[:k]
    pos = {x: i for i, x in enumerate(chosen)}
    order = chosen[:]
    rng.shuffle(order)
    if rng.random() < 0.3:
        order.append(rng.choice(chosen))                   # re-add (half of them hand over the very same object)
    if builtin and rng.random() < 0.1:
        order.insert(rng.randrange(len(order) + 1), rng.choice(['xhr', 'header']))   # replace a built-in predicate
    p_abs = rng.choice([0.0, 0.05, 0.15])
    adds = []
    for name in order:
        def target(after):
            q = rng.random()
            if q < p_abs:
                return 'absent_pred'
            if q < p_abs + 0.07:
                return FIRST_T if after else LAST_T
            if q < p_abs + 0.3 and builtin:
                return rng.choice(builtin)
            c = [x for x in chosen if x != name and (name not in pos or (pos[x] < pos[name]) == after)]
            if c and rng.random() < 0.9:
                return rng.choice(c)
            if builtin and rng.random() < 0.7:
                return rng.choice(builtin)
            if rng.random() < 0.85:
                return FIRST_T if after else LAST_T
            return rng.choice(chosen)

        def hint(after):
            q = rng.random()
            if q < 0.35:
                return None
            if q < 0.75:
                return target(after)
            return [target(after) for _ in range(rng.choice([1, 2, 3]))]
        adds.append([name, hint(True), hint(False)])
        if any(a[0] == name for a in adds[:-1]) and rng.random() < 0.5:
            adds[-1].append(1)                             # the same predicate object again, other hints
    case = {'k': 'preds', 'kind': kind, 'adds': adds}
    if rng.random() < 0.4:
        # PredicateList.make directly: one value, a predvalseq of values, not_(value) per instrumented predicate
        kw = []
        for name in dict.fromkeys(a[0] for a in adds):
            q = rng.random()
            v = rng.randrange(1, 9)
            kw.append([name, v if q < 0.55 else (-v if q < 0.7 else [rng.choice([1, -1]) * rng.randrange(1, 9)
                                                                     for _ in range(rng.choice([0, 1, 2, 3]))])])
        rng.shuffle(kw)
        q = rng.random()
        if q < 0.08:
            kw.append(['zz', 1])                              # a keyword that names no predicate
        elif q < 0.16 and len(kw) > 1:
            kw.pop()                                          # values for a part of the predicates only
        case['kw'] = kw
    return _with_copies(rng, case)


DV_DEFAULT = ['secured_view', 'csrf_view', 'owrapped_view', 'http_cached_view', 'decorated_view', 'rendered_view',
              'mapped_view']
DV_USER = ['d0', 'd1', 'd2', 'd3', 'PREVIEW_d4', 'INGRESSION_d5']   # the last two contain VIEW / INGRESS
# names the framework itself uses for FIXED pipeline members but does not reserve: a user deriver may carry them (it is
# then one more item of the sorter; the fixed wrappers of that name stay where they are)
DV_OUTER = ['attr_wrapped_view', 'predicated_view']
DV_NAMES = DV_USER + DV_OUTER


def gen_derivers(rng):
    """add_view_deriver calls: user derivers and RE-ADDED stock derivers (any of them, incl. mapped_view), hints as a bare
    name, as the bare sentinels INGRESS / VIEW, or as iterables of alternatives that may contain a sentinel, an absent
    name, forward references to derivers registered later"""
    k = rng.choice([0, 1, 2, 3, 4, 5])
    pool = DV_USER + DV_DEFAULT + ['INGRESS', 'VIEW', 'absent_deriver']
    stock = {d[0]: (d[1], d[2]) for d in _vals()['dv_default_decls']}
    adds = []

    def listify(h):
        """the same constraint in another input form"""
        q = rng.random()
        if h is None or isinstance(h, list) or q < 0.45:
            return h
        if q < 0.75:
            return [h]
        return [h, rng.choice(['absent_deriver'] + DV_USER)] if q < 0.9 else [rng.choice(DV_USER), h]

    if rng.random() < 0.6:
        return _with_copies(rng, {'k': 'derivers', 'adds': _planned_derivers(rng, max(1, k), stock, listify)})
    for _ in range(k):
        r = rng.random()
        name = rng.choice(DV_USER if r < 0.66 else DV_NAMES) if r < 0.78 else (rng.choice(DV_DEFAULT) if r < 0.96 else rng.choice(['INGRESS', 'VIEW']))
        if adds and rng.random() < 0.2:
            name = rng.choice(adds)[0]                     # re-register an earlier name (re-positioning a deriver)

        def hint(after):
            r = rng.random()
            if r < 0.45:
                return None

            def c():
                q = rng.random()
                if q < 0.04:
                    return rng.choice(['VIEW', 'mapped_view']) if after else 'INGRESS'     # refused by add_view_deriver
                if q < 0.18:
                    return 'INGRESS' if after else 'VIEW'                                  # the sentinels
                if q < 0.5:
                    return rng.choice(DV_USER)
                return (rng.choice(DV_DEFAULT[:4] if after else DV_DEFAULT[3:]) if rng.random() < 0.75
                        else rng.choice(pool))
            if r < 0.75:
                return listify(c())
            return [c() for _ in range(rng.choice([1, 2, 3]))]
        if name in stock and rng.random() < 0.6:
            u, o = stock[name]                     # replace a stock deriver with its stock hints, in some input form
            adds.append([name, listify(u), listify(o)])
        else:
            adds.append([name, hint(True), hint(False)])
        if any(a[0] == name for a in adds[:-1]) and rng.random() < 0.5:
            adds[-1].append(1)                             # the very same deriver object again, other hints
    return _with_copies(rng, {'k': 'derivers', 'adds': adds})


DV_PLAN = ['secured_view', 'csrf_view', 'owrapped_view', 'http_cached_view', 'decorated_view', 'rendered_view',
           'mapped_view']                                   # one linear order the stock declarations allow


def _planned_derivers(rng, k, stock, listify):
    """MOSTLY SATISFIABLE registrations: a target pipeline is drawn first (the stock order with the user derivers at
    random places before mapped_view), then every registration gets hints that agree with it -- `under` names derivers
    (or INGRESS) earlier in the plan, `over` later ones (or VIEW), in every input form, also with absent alternatives
    next to a present one, forward references, re-registrations that MOVE a deriver, stock derivers re-added with their
    stock hints; one registration in five is left to chance.  Most of these cases end in a sorted pipeline, so that the
    order, mapped_view innermost and the enter/exit log are what is compared."""
    users = rng.sample(DV_NAMES if rng.random() < 0.35 else DV_USER, min(len(DV_USER), rng.choice([1, 2, 2, 3, 4])))
    plan = DV_PLAN[:-1]
    for nm in users:
        plan.insert(rng.randrange(len(plan) + 1), nm)
    plan.append('mapped_view')
    adds, todo = [], users[:]
    rng.shuffle(todo)
    todo = (todo + [rng.choice(users + DV_PLAN[:6]) for _ in range(k)])[:max(k, len(users))]
    if rng.random() < 0.3:
        todo = todo[:k]                                      # some planned user derivers stay unregistered (absent names)
    final = set(DV_PLAN) | set(todo)
    for nm in todo:
        if nm in stock and nm not in users:
            u, o = stock[nm]
            adds.append([nm, listify(u), listify(o)])
        else:
            i = plan.index(nm)
            if rng.random() < 0.08:
                plan.remove(nm)                              # a re-registration moves the deriver
                i = rng.randrange(len(plan))
                plan.insert(i, nm)
            before = [x for x in plan[:i] if x in final] + ['INGRESS']
            after = [x for x in plan[i + 1:] if x in final] + ['VIEW']

            def pick(cands, dflt, lo):
                q = rng.random()
                if q < 0.2 and ((dflt in cands) if lo else (dflt in cands)):
                    return None                              # the default hint agrees with the plan
                if q < 0.65:
                    return listify(rng.choice(cands))
                l = rng.sample(cands, min(len(cands), rng.choice([1, 2])))
                if rng.random() < 0.4:
                    l.insert(rng.randrange(len(l) + 1), rng.choice(['absent_deriver', 'PREVIEW_absent']))
                return l
            u = pick(before, 'decorated_view', True)
            o = pick(after, 'rendered_view', False)
            if u is None and o is not None and 'decorated_view' not in before:
                u = 'INGRESS'
            if o is None and 'rendered_view' not in after:
                o = 'VIEW'
            if u is None and 'decorated_view' not in before:
                u = 'INGRESS'
            adds.append([nm, u, o])
        if rng.random() < 0.2:
            adds[-1][1 + rng.randrange(2)] = rng.choice([None, rng.choice(DV_USER), 'absent_deriver', rng.choice(DV_PLAN)])
        if any(a[0] == nm for a in adds[:-1]) and rng.random() < 0.5:
            adds[-1].append(1)
    return adds


def generate(rng, tier, n):
    n_app = max(30, min(n // 50, 400 if tier == 'quick' else 12000))
    n_perm = n // 5
    out = 0
    for i in range(n_app):
        yield gen_tweens(rng) if i % 2 == 0 else gen_derivers(rng)
        out += 1
    for i in range(n_app):
        yield gen_preds(rng)
        out += 1
    pc = 0
    while pc < n_perm:
        for c in gen_perms(rng, 5 if tier == 'thorough' else 4):
            yield c
            pc += 1
            out += 1
    while out < n:
        yield gen_sorter(rng)
        out += 1


def _hint_ok(h):
    return h is None or (isinstance(h, str) and h != '') or \
        (isinstance(h, list) and all(isinstance(x, str) and x for x in h))


def valid(case):
    try:
        k = case['k']
        if k == 'sorter':
            if case['cfg'] not in (0, 1, 2) or not isinstance(case['ops'], list) or not case['ops']:
                return False
            sent = _sentinels(case['cfg'])
            for op in case['ops']:
                if op[0] == 'add':
                    if len(op) != 5 or not isinstance(op[1], str) or not op[1] or op[1] in sent \
                            or op[1].startswith('\x00') or not isinstance(op[2], int) or op[2] < 0:
                        return False
                    if not (_hint_ok(op[3]) and _hint_ok(op[4])):
                        return False
                    for h in (op[3], op[4]):
                        for t in ([h] if isinstance(h, str) else (h or [])):
                            if t.startswith('\x00') and t not in (FIRST_T, LAST_T):
                                return False
                            if '\x00' in t[1:] or ', ' in t:
                                return False
                elif op[0] == 'remove':
                    if len(op) != 2 or not isinstance(op[1], str) or not op[1] or op[1].startswith('\x00'):
                        return False
                else:
                    return False
            return True
        if k == 'tweens':
            if not all(x in TW + [EXCVIEW] for x in case['explicit']):
                return False
            attrs = [_twmod.attr_of(x) for x in case['explicit']]
            if len(set(attrs)) != len(attrs):
                return False
            evs = _tw_events(case)
            if not evs or evs[-1][0] not in ('request', 'implicit'):
                return False
            batch = _tw_batch(case)
            seen = set()
            for e in evs:
                if e[0] == 'add':
                    if len(e) not in ((5, 6) if batch else (5,)) or e[1] not in TW + ['MAIN', 'INGRESS', EXCVIEW] \
                            or not isinstance(e[2], int) or e[2] < (0 if e[1] == EXCVIEW else 1) \
                            or (e[1] == EXCVIEW and e[2] != 0) or not (_hint_ok(e[3]) and _hint_ok(e[4])):
                        return False
                    if batch:
                        # one statement per name and include level between two commits (else a conflict), and no call
                        # that add_tween refuses (a refused call registers nothing, so it overrides nothing)
                        key = (e[1], bool(len(e) > 5 and e[5]))
                        flat = [t for h in (e[3], e[4]) for t in ([h] if isinstance(h, str) else (h or []))]
                        if key in seen or e[1] in ('MAIN', 'INGRESS') or 'MAIN' in flat or 'INGRESS' in flat \
                                or (len(e) > 5 and e[5] not in (0, 1)):
                            return False
                        seen.add(key)
                elif e not in (['implicit'], ['request']):
                    return False
                else:
                    seen = set()
            return True
        if k == 'preds':
            if case['kind'] not in (0, 1, 2):
                return False
            for a in case['adds']:
                if len(a) not in (3, 4) or a[0] not in PRED_USER + ['xhr', 'header'] \
                        or not (_hint_ok(a[1]) and _hint_ok(a[2])) or (len(a) == 4 and a[3] != 1):
                    return False
                if case['kind'] == 2 and a[0] in ('xhr', 'header'):
                    return False
            if 'kw' in case:
                names = [x[0] for x in case['kw']]
                if len(set(names)) != len(names):
                    return False
                for n, v in case['kw']:
                    if n not in PRED_USER + ['xhr', 'header', 'zz']:
                        return False
                    vs = v if isinstance(v, list) else [v]
                    if not vs and not isinstance(v, list):
                        return False
                    if not all(isinstance(x, int) and not isinstance(x, bool) and x != 0 and abs(x) < 1000 for x in vs):
                        return False
            return bool(case['adds'])
        if k == 'derivers':
            for a in case['adds']:
                if len(a) not in (3, 4) or a[0] not in DV_NAMES + DV_DEFAULT + ['INGRESS', 'VIEW'] \
                        or not (_hint_ok(a[1]) and _hint_ok(a[2])) or (len(a) == 4 and a[3] != 1):
                    return False
            return True
        return False
    except Exception:
        return False


# ------------------------------------------------------------ wire
def _hw(h):
    if h is None:
        return []
    if isinstance(h, str):
        return [h]
    return [list(h)]


def _ops_wire(case):
    out = []
    for op in case['ops']:
        if op[0] == 'add':
            out.append([0, op[1], op[2], _hw(op[3]), _hw(op[4])])
        else:
            out.append([1, op[1]])
    return out


def _tw_id(name):
    return TW.index(name) + 1 if name in TW else 0


def _tw_events(case):
    if 'events' in case:
        return case['events']
    return [['add', a[0], max(1, _tw_id(a[0])), a[1], a[2]] for a in case['adds']] + [['request']]   # older corpus format


def _tw_batch(case):
    return case.get('autocommit', True) == 2


def _tw_keep(case):
    """BATCH mode (autocommit == 2): nothing is committed before the next look, and an add may be issued inside
    config.include(..) (6th element 1).  When the batch is committed, an included add_tween is OVERRIDDEN by a top-level
    add_tween of the same name in the same batch (conflict resolution by include depth, C04); the surviving actions run in
    statement order.  -> one bool per event: does it take effect (looks: True)."""
    evs = _tw_events(case)
    keep = [True] * len(evs)
    if not _tw_batch(case):
        return keep
    batch = []
    for i, e in enumerate(evs + [['implicit']]):
        if e[0] == 'add':
            batch.append(i)
            continue
        top = {evs[j][1] for j in batch if not (len(evs[j]) > 5 and evs[j][5])}
        for j in batch:
            if len(evs[j]) > 5 and evs[j][5] and evs[j][1] in top:
                keep[j] = False
        batch = []
    return keep


def _events_wire(case):
    out = []
    for e, k in zip(_tw_events(case), _tw_keep(case)):
        if not k:
            continue
        if e[0] == 'add':
            out.append([0, [e[1], e[2], _hw(e[3]), _hw(e[4])]])
        else:
            out.append([1] if e[0] == 'implicit' else [2])
    return out


def _add_ids(case):
    """opaque id of the object registered by each add: i+1, or -- when the add carries the optional 4th element 1 --
    the id of the latest earlier add under the same name (the harness then hands over the VERY SAME object again)"""
    ids, last = [], {}
    for i, a in enumerate(case['adds']):
        ident = last[a[0]] if (len(a) > 3 and a[3] and a[0] in last) else i + 1
        last[a[0]] = ident
        ids.append(ident)
    return ids


def _adds_wire(case):
    return [[a[0], ident, _hw(a[1]), _hw(a[2])] for a, ident in zip(case['adds'], _add_ids(case))]


def to_wire(case):
    k = case['k']
    if k == 'sorter':
        return [0, case['cfg'], _ops_wire(case)]
    if k == 'tweens':
        return [2, [[n, _tw_id(n)] for n in case['explicit']], _events_wire(case)]
    if k == 'preds':
        if 'kw' in case:
            return [8, case['kind'], _adds_wire(case),
                    [[n, ([1, list(v)] if isinstance(v, list) else [0, v])] for n, v in case['kw']]]
        return [6, case['kind'], _adds_wire(case)]
    return [4, _adds_wire(case)]


def _canon_outcome(o):
    """model/impl outcome -> canonical (unsatisfied name lists sorted, as the message is)"""
    if isinstance(o, list) and o and o[0] in (1, 2):
        return [o[0], sorted(o[1])]
    return o


def from_wire(case, raw):
    if raw == [['bad']] or raw in (['stack'], ['fail']):
        return {'model': ['MODEL-BAD', raw], 'spec': None}
    if case['k'] == 'sorter':
        return {'model': [_canon_outcome(o) for o in raw], 'spec': 'judge'}
    if case['k'] == 'tweens':
        out = []
        keep = _tw_keep(case)
        raw = list(raw)
        full = [(raw.pop(0) if raw else ['MODEL-SHORT']) if k else 'OVR' for k in keep]
        for e, o in zip(_tw_events(case), full):
            if o == 'OVR':
                out.append(o)
                continue
            if e[0] == 'implicit':
                o = _canon_outcome(o)
            elif e[0] == 'request' and o[0] == 1:
                o = [1, _canon_outcome(o[1])]
            out.append(o)
        return {'model': out, 'spec': 'judge'}
    if case['k'] == 'preds':
        if 'kw' in case:
            mk = raw[2]
            if mk and mk[0] == 0:      # [0, order, preds, phash]: predicates as [name, factory id, value, notted, value-is-not_]
                mk = [0, mk[1], [x[:4] for x in mk[2]]]
            elif mk and mk[0] == 1:
                mk = [1]
            return {'model': [_canon_outcome(raw[0]), raw[1], mk], 'spec': 'judge'}
        return {'model': [_canon_outcome(raw[0]), raw[1]], 'spec': 'judge'}
    codes, fin = raw
    if fin[0] == 1:
        fin = [1, _canon_outcome(fin[1])]
    return {'model': [codes, fin], 'spec': 'judge'}


# ------------------------------------------------------------ implementation
_impl = {}


def setup(tier):
    import warnings
    warnings.filterwarnings('ignore')
    from pyramid.util import TopologicalSorter, FIRST, LAST
    from pyramid.exceptions import ConfigurationError, CyclicDependencyError
    from pyramid.config import Configurator
    from pyramid.config.tweens import Tweens
    from pyramid.interfaces import ITweens, IViewDerivers
    from pyramid.request import Request
    from pyramid.response import Response
    from . import tw
    _impl.update(TS=TopologicalSorter, FIRST=FIRST, LAST=LAST, CE=ConfigurationError, CDE=CyclicDependencyError,
                 Configurator=Configurator, Tweens=Tweens, ITweens=ITweens, IViewDerivers=IViewDerivers,
                 Request=Request, Response=Response, tw=tw)


def _to_obj(t, fresh=False):
    if t == FIRST_T:
        return _impl['FIRST']
    if t == LAST_T:
        return _impl['LAST']
    # add_tween tests "over is INGRESS" / "under is MAIN" by identity: hand over the interned constants, as a caller
    # using pyramid.tweens.MAIN / INGRESS does (cases arrive unpickled, i.e. not interned, in the worker pool)
    if fresh and len(t) > 1:
        # an EQUAL BUT NOT IDENTICAL str object (a hint read from a settings file): everything except the two bare-hint
        # identity tests of _add_tween compares names with == / `in`, so the answers must not change
        c = ''.join([t[:1], t[1:]])
        assert c == t and c is not sys.intern(t)
        return c
    return sys.intern(t)


def _from_obj(o):
    if o is _impl['FIRST']:
        return FIRST_T
    if o is _impl['LAST']:
        return LAST_T
    return o


def _hint_obj(h, tup=False, fresh=False, bare_const=()):
    """fresh: equal-but-not-identical copies of every name (bare hints listed in bare_const stay the constants)"""
    if h is None:
        return None
    if isinstance(h, str):
        return _to_obj(h, fresh and h not in bare_const)
    l = [_to_obj(x, fresh) for x in h]
    return tuple(l) if tup else l


def _call_directive(meth, first, hints, names, style):
    """call a directive in one of the legal argument forms: 0 hints as keywords (None passed explicitly), 1 everything
    positional, 2 keywords with the None hints OMITTED (the defaults of the signature become observable)"""
    if style == 1:
        return meth(*first, *hints)
    kw = {k: h for k, h in zip(names, hints) if not (style == 2 and h is None)}
    return meth(*first, **kw)


def _observe_sorted(call, ident):
    try:
        r = call()
        return [0, [[_from_obj(n), ident(v)] for n, v in r]]
    except _impl['CDE'] as e:
        d = e.args[0]
        return [3, [[_from_obj(k), [_from_obj(c) for c in v]] for k, v in d.items()]]
    except _impl['CE'] as e:
        msg = str(e.args[0]) if e.args else ''
        for code, pre in ((1, 'Unsatisfied before dependencies: '), (2, 'Unsatisfied after dependencies: ')):
            if msg.startswith(pre):
                return [code, sorted(msg[len(pre):].split(', '))]
        return ['EXC', 'ConfigurationError', msg[:80]]
    except Exception as e:
        return ['EXC', type(e).__name__]


def _new_sorter(cfg):
    if cfg == 0:
        return _impl['TS']()
    if cfg == 1:
        return _impl['Tweens']().sorter
    db, da, f, l = _vals()['cfg_derivers']
    return _impl['TS'](default_before=db, default_after=da, first=f, last=l)


def run_sorter(case):
    s = _new_sorter(case['cfg'])
    out = []
    fr = bool(case.get('copies'))
    for i, op in enumerate(case['ops']):
        if op[0] == 'add':
            try:
                s.add(_to_obj(op[1], fr), op[2], after=_hint_obj(op[3], tup=(i % 2 == 1), fresh=fr),
                      before=_hint_obj(op[4], tup=(i % 2 == 1), fresh=fr))
            except Exception as e:
                out.append(['EXC', type(e).__name__])
                continue
        else:
            try:
                s.remove(_to_obj(op[1], fr))
            except ValueError:
                out.append([5])
                continue
            except Exception as e:
                out.append(['EXC', type(e).__name__])
                continue
        out.append(_observe_sorted(s.sorted, lambda v: v))
    return out


def _view(context, request):
    _impl['tw'].LOG.append([2])
    return _impl['Response']('ok')


def _code(e, table):
    msg = str(e)
    for code, frag in table:
        if frag in msg:
            return code
    return ['EXC', type(e).__name__, msg[:80]]


def _request(app):
    log = _impl['tw'].LOG
    del log[:]
    resp = _impl['Request'].blank('/').get_response(app)
    tr = [list(x) for x in log]
    del log[:]
    if resp.status_int != 200:
        return ['STATUS', resp.status_int]
    return tr


def run_tweens(case):
    C = _impl['Configurator']
    tw = _impl['tw']
    tw.reset()
    auto = case.get('autocommit', True)
    fr = bool(case.get('copies'))
    style = case.get('style', 0)
    settings = {'pyramid.tweens': ' '.join(case['explicit'])} if case['explicit'] else {}
    for n in case['explicit']:
        if n in TW:
            tw.rebind(n, _tw_id(n))                # the explicit list is resolved when the Configurator is set up
    batch = _tw_batch(case)
    auto = bool(auto) and not batch
    config = C(settings=settings, autocommit=auto, package='harness.c18')
    config.add_view(_view)
    ident = lambda f: getattr(f, '_c18_id', 0)
    out = []
    keep = _tw_keep(case)
    try:
        for i, e in enumerate(_tw_events(case)):
            if e[0] == 'add':
                name, fid, under, over = e[1:5]
                if name in TW:
                    tw.rebind(name, fid)

                def issue(c, name=name, under=under, over=over):
                    _call_directive(c.add_tween, [_to_obj(name, fr)],
                                    [_hint_obj(under, fresh=fr, bare_const=('MAIN', 'INGRESS')),
                                     _hint_obj(over, fresh=fr, bare_const=('MAIN', 'INGRESS'))], ('under', 'over'), style)
                try:
                    if batch and len(e) > 5 and e[5]:
                        issue.__name__ = 'included_%d' % i          # config.include skips a spec it has seen before
                        config.include(issue)
                    else:
                        issue(config)
                    if not auto and not batch:
                        config.commit()
                    out.append(0 if keep[i] else 'OVR')
                except _impl['CE'] as ex:
                    out.append(_code(ex, ((1, 'reserved tween name'), (2, 'cannot be over INGRESS'),
                                          (3, 'cannot be under MAIN'))))
            elif e[0] == 'implicit':
                if not auto:
                    config.commit()
                tweens = config.registry.queryUtility(_impl['ITweens'])
                out.append(_observe_sorted(tweens.implicit, ident))
            else:
                try:
                    app = config.make_wsgi_app()          # a fresh Router: tweens(handle_request, registry)
                except (_impl['CE'], _impl['CDE']) as ex:
                    out.append([1, _observe_sorted(lambda ex=ex: (_ for _ in ()).throw(ex), ident)])
                    continue
                tweens = config.registry.queryUtility(_impl['ITweens'])
                use = tweens.explicit if tweens.explicit else tweens.implicit()
                out.append([0, [[n, ident(f)] for n, f in use], _request(app)])
    finally:
        tw.reset()
    return out


class _Evt:
    pass


def run_preds(case):
    kind = PRED_KINDS[case['kind']]
    tw = _impl['tw']
    config = _impl['Configurator'](autocommit=True)
    ident = lambda f: getattr(f, '_c18_id', 0)
    objs = tw.ObjCache(tw.mk_pred)
    fr = bool(case.get('copies'))
    for a, oid in zip(case['adds'], _add_ids(case)):
        name, more, less = a[:3]
        _call_directive(getattr(config, 'add_%s_predicate' % kind), [_to_obj(name, fr), objs.get(name, oid)],
                        [_hint_obj(more, fresh=fr), _hint_obj(less, fresh=fr)],
                        ('weighs_more_than', 'weighs_less_than'), case.get('style', 0))
    predlist = config.get_predlist(kind)
    o = _observe_sorted(predlist.sorter.sorted, ident)
    ev = []
    if 'kw' in case:
        return _run_make(case, config, predlist, o)
    if o[0] == 0:
        kw = {n: 1 for n, v in o[1] if v > 0}
        log = tw.LOG
        del log[:]
        if kind == 'view':
            config.add_view(_view, **kw)
            resp = _impl['Request'].blank('/').get_response(config.make_wsgi_app())
        elif kind == 'route':
            config.add_route('r', '/', **kw)
            config.add_view(_view, route_name='r')
            resp = _impl['Request'].blank('/').get_response(config.make_wsgi_app())
        else:
            config.add_subscriber(lambda e: None, _Evt, **kw)
            config.registry.notify(_Evt())
            resp = None
        if resp is not None and resp.status_int != 200:
            return [o, ['STATUS', resp.status_int]]
        for x in log:
            if x[0] == 3 and x[1] not in ev:
                ev.append(x[1])
        del log[:]
    return [o, ev]


def _run_make(case, config, predlist, o):
    """PredicateList.make called directly (public method) with the keyword values of the case: a single value, a
    predvalseq of values, a not_(value); observed: the order number and the predicates created, in order"""
    from pyramid.registry import predvalseq
    from pyramid.config import not_
    from pyramid.predicates import Notted

    def val(x):
        return not_(-x) if x < 0 else x
    kw = {n: (predvalseq([val(x) for x in v]) if isinstance(v, list) else val(v)) for n, v in case['kw']}
    try:
        order, preds, phash = predlist.make(config, **kw)
    except _impl['CDE']:
        return [o, [], [2]]
    except _impl['CE'] as e:
        msg = str(e)
        return [o, [], [1] if msg.startswith('Unknown predicate values') else ([2] if msg.startswith('Unsatisfied') else ['EXC', msg[:60]])]
    out, ev = [], []
    for p in preds:
        notted = isinstance(p, Notted)
        q = p.predicate if notted else p
        nm, ident = getattr(q, '_c18_name', '?'), getattr(q, '_c18_id', 0)
        out.append([nm, ident, q.val if isinstance(q.val, int) else -1, 1 if notted else 0])
        if ident > 0 and nm not in ev:
            ev.append(nm)
    return [o, ev, [0, order, out]]


def run_derivers(case):
    config = _impl['Configurator'](autocommit=True)
    tw = _impl['tw']
    codes = []
    objs = tw.ObjCache(tw.mk_deriver)
    fr = bool(case.get('copies'))
    for a, oid in zip(case['adds'], _add_ids(case)):
        name, under, over = a[:3]
        try:
            style = case.get('style', 0)
            d = objs.get(name, oid)
            hs = [_hint_obj(under, fresh=fr), _hint_obj(over, fresh=fr)]
            if style == 3:
                d.__name__ = name                 # name omitted: add_view_deriver takes it from deriver.__name__
                config.add_view_deriver(d, under=hs[0], over=hs[1])
            elif style == 1:
                config.add_view_deriver(d, _to_obj(name, fr), hs[0], hs[1])
            else:
                _call_directive(config.add_view_deriver, [d], [_to_obj(name, fr)] + hs, ('name', 'under', 'over'), style)
            codes.append(0)
        except _impl['CE'] as e:
            codes.append(_code(e, ((1, 'reserved view deriver name'), (2, 'cannot be over INGRESS'),
                                   (3, 'cannot be under VIEW'), (4, 'cannot be under "mapped_view"'))))
    ident = lambda f: getattr(f, '_c18_id', 0)
    try:
        config.add_view(_view)
    except (_impl['CE'], _impl['CDE']) as e:
        return [codes, [1, _observe_sorted(lambda: (_ for _ in ()).throw(e), ident)]]
    use = config.registry.getUtility(_impl['IViewDerivers']).sorted()
    app = config.make_wsgi_app()
    return [codes, [0, [[n, ident(f)] for n, f in use], _request(app)]]


def run_impl(case):
    if not _impl:
        setup('quick')
    k = case['k']
    if k == 'sorter':
        return run_sorter(case)
    if k == 'tweens':
        return run_tweens(case)
    if k == 'preds':
        return run_preds(case)
    return run_derivers(case)


# ------------------------------------------------------------ judging (the Coq judge, through the runner)
_judge = {}


def _judge_call(wire):
    if 'r' not in _judge:
        from harness.common.main import Runner
        path = os.path.join(build.BUILD, ID, 'runner')
        _judge['r'] = Runner(path) if os.path.exists(path) else None
    r = _judge['r']
    if r is None:
        return None
    try:
        return r.one(wire)
    except Exception:
        _judge.pop('r', None)
        return None


def _has_exc(v):
    if isinstance(v, list):
        return (len(v) > 0 and v[0] in ('EXC', 'STATUS', 'HARNESS-EXC')) or any(_has_exc(x) for x in v)
    return False


def verdicts(case, obs):
    """per-step verdicts of the Coq judge on the implementation's observation; None = judge unavailable"""
    if _has_exc(obs):
        return [False]
    k = case['k']
    if k == 'sorter':
        if len(obs) != len(case['ops']):
            return [False]
        res = _judge_call([1, case['cfg'], _ops_wire(case), obs])
        if res is None or res == [['bad']]:
            return None if res is None else [False]
        return [bool(x) for x in res]
    if k == 'tweens':
        if len(obs) != len(_tw_events(case)):
            return [False]
        keep = _tw_keep(case)
        if any((o == 'OVR') != (not k) for o, k in zip(obs, keep)):
            return [False]
        obs = [o for o, k in zip(obs, keep) if k]
        res = _judge_call([3, [[n, _tw_id(n)] for n in case['explicit']], _events_wire(case), obs])
        if res is None or res == [['bad']]:
            return None if res is None else [False]
        return [bool(x) for x in res]
    if k == 'preds':
        res = _judge_call([7, case['kind'], _adds_wire(case), obs[:2]])
    else:
        codes, fin = obs
        res = _judge_call([5, _adds_wire(case), fin])
    if res is None:
        return None
    return [res == 1]


def _empty_alt_steps(case):
    """indexes of steps at/after which the stale-requirement oddity can matter: an earlier add used an empty iterable"""
    seen = False
    out = []
    if case['k'] != 'sorter':
        return []
    for i, op in enumerate(case['ops']):
        if op[0] == 'add' and (op[3] == [] or op[4] == []):
            seen = True
        if seen:
            out.append(i)
    return out


FINDING_EMPTY = 'C18-empty-alternatives-stale-requirement'


def _make_unjudged(case, obs):
    """make-mode predicate cases the evaluation-order judge says nothing about: a keyword that names no predicate, or
    values for only a part of the instrumented predicates (the judge compares with ALL instrumented names)"""
    if case['k'] != 'preds' or 'kw' not in case or _has_exc(obs):
        return False
    o = obs[0]
    if not (isinstance(o, list) and o and o[0] == 0):
        return False                                  # the sorter's error is judged as always
    inst = {n for n, v in o[1] if v > 0}
    return {n for n, _ in case['kw']} != inst or any(isinstance(v, list) and not v for _, v in case['kw'])


def spec_holds(case, obs, spec):
    if _make_unjudged(case, obs):
        return None
    v = verdicts(case, obs)
    if v is None:
        return None
    return all(v)


def stale_requirement(case, obs):
    """does the deviation look exactly like finding C18-empty-alternatives-stale-requirement (repaired; label only)"""
    v = verdicts(case, obs)
    if not v or all(v) or _has_exc(obs) or case['k'] != 'sorter':
        return False
    stale = set(_empty_alt_steps(case))
    bad = [i for i, ok in enumerate(v) if not ok]
    return bool(bad) and all(i in stale for i in bad) and \
        all(isinstance(obs[i], list) and obs[i] and obs[i][0] in (1, 2) for i in bad)


def classify(case, obs, spec):
    # both findings of this property are repaired (fixed-pending): no deviation is excused
    return None


def _present_arc(case, upto):
    decl = {}
    for op in case['ops'][:upto + 1]:
        if op[0] == 'add':
            decl[op[1]] = op
        else:
            decl.pop(op[1], None)
    for n, op in decl.items():
        for h in (op[3], op[4]):
            for t in ([h] if isinstance(h, str) else (h or [])):
                if t in decl and t != n:
                    return True
    return False


def nontrivial(case, obs):
    if case['k'] == 'sorter':
        for i, o in enumerate(obs):
            if not isinstance(o, list) or not o:
                continue
            if o[0] in (1, 2, 3):
                return True
            if o[0] == 0 and len(o[1]) >= 2 and _present_arc(case, i):
                return True
        return False
    if case['k'] == 'tweens':
        return any(e[0] == 'add' for e in _tw_events(case))
    return bool(case['adds'])


def _tw_kinds(case, obs, names):
    out = []
    evs = _tw_events(case)
    out.append('tweens-explicit' if case['explicit'] else 'tweens-implicit')
    out.append('tweens-batch-commit-at-looks' if _tw_batch(case) else ('tweens-autocommit' if case.get('autocommit', True) else 'tweens-commit-after-each-add'))
    if not all(_tw_keep(case)):
        out.append('tweens-included-add-overridden-by-top-level')
    if any(e[0] == 'add' and len(e) > 5 and e[5] for e in evs):
        out.append('tweens-add-inside-include')
    out.append('tweens-adds%d' % sum(1 for e in evs if e[0] == 'add'))
    seen_names, looked, readd_after_look, changed_factory = {}, False, False, False
    hints, same_obj_other_hints = {}, False
    for e, o in zip(evs, obs if isinstance(obs, list) else []):
        if e[0] == 'add':
            out.append('tweens-add-code-%s' % (o if isinstance(o, int) else ('overridden' if o == 'OVR' else 'exc')))
            if o == 0:
                if e[1] in seen_names and seen_names[e[1]] == e[2] and hints.get(e[1]) != [e[3], e[4]]:
                    same_obj_other_hints = True
                if e[1] in seen_names and looked:
                    readd_after_look = True
                    if seen_names[e[1]] != e[2]:
                        changed_factory = True
                hints[e[1]] = [e[3], e[4]]
                seen_names[e[1]] = e[2]
        else:
            looked = True
            if e[0] == 'implicit':
                out.append('tweens-look-implicit-%s' % (names.get(o[0], 'exc') if isinstance(o, list) and o else 'exc'))
            elif isinstance(o, list) and o:
                if o[0] == 0:
                    out.append('tweens-look-request-ok')
                elif isinstance(o[1], list) and o[1]:
                    out.append('tweens-look-request-%s' % names.get(o[1][0], 'exc'))
    if readd_after_look:
        out.append('tweens-readd-after-look')
    if changed_factory:
        out.append('tweens-readd-new-factory-after-look')
    if same_obj_other_hints:
        out.append('tweens-readd-same-object-other-hints')
    return sorted(set(out))


def kinds(case, obs):
    k = case['k']
    out = [k]
    if case.get('copies'):
        out.append(k + '-names-as-nonidentical-copies')
    if case.get('style'):
        out.append('%s-call-style-%s' % (k, {1: 'positional', 2: 'none-hints-omitted', 3: 'name-omitted'}.get(case['style'])))
    if k == 'tweens':
        if any(e[0] == 'add' and e[1] == EXCVIEW for e in _tw_events(case)):
            out.append('tweens-stock-excview-repositioned')
        al = [e[1] for e in _tw_events(case) if e[0] == 'add' and e[1] in _twmod.ALIASES]
        if al:
            out.append('tweens-name-spelling-relative-or-colon')
            refs = [t for e in _tw_events(case) if e[0] == 'add' for h in (e[3], e[4])
                    for t in ([h] if isinstance(h, str) else (h or []))]
            if any(t in al for t in refs):
                out.append('tweens-alias-named-in-a-hint')
    names = {0: 'ok', 1: 'unsat-before', 2: 'unsat-after', 3: 'cyclic', 4: 'internal', 5: 'valueerror'}
    if k == 'sorter':
        out.append('cfg%d' % case['cfg'])
        out.append('ops%d' % len(case['ops']))
        seen = set()
        for o in obs:
            seen.add(names.get(o[0], 'exc') if isinstance(o, list) and o else 'exc')
        out += ['step-' + s for s in sorted(seen)]
        fin = obs[-1] if obs else None
        if isinstance(fin, list) and fin:
            out.append('final-' + names.get(fin[0], 'exc'))
            if fin[0] == 0:
                out.append('final-len%d' % len(fin[1]))
        added = [op[1] for op in case['ops'] if op[0] == 'add']
        if len(set(added)) < len(added):
            out.append('re-add')
        if any(op[0] == 'remove' for op in case['ops']):
            out.append('remove')
        if any(op[0] == 'add' and (isinstance(op[3], list) or isinstance(op[4], list)) for op in case['ops']):
            out.append('alternatives-list')
        if _empty_alt_steps(case):
            out.append('empty-alternatives')
            try:
                if stale_requirement(case, obs):
                    out.append('deviation:' + FINDING_EMPTY)
            except Exception:
                pass
    elif k == 'tweens':
        out += _tw_kinds(case, obs, names)
    elif k == 'preds':
        kind = PRED_KINDS[case['kind']]
        out.append('preds-' + kind)
        o = obs[0] if isinstance(obs, list) and obs else None
        if isinstance(o, list) and o:
            out.append('preds-%s-%s' % (kind, names.get(o[0], 'exc')))
            if o[0] == 0 and len(obs[1]) >= 2:
                out.append('preds-%s-evaluated>=2' % kind)
        if any(a[1] is not None or a[2] is not None for a in case['adds']):
            out.append('preds-%s-hinted' % kind)
        if len(set(_add_ids(case))) < len(case['adds']):
            out.append('preds-readd-same-object')
        if 'kw' in case:
            out.append('preds-make-direct')
            mk = obs[2] if isinstance(obs, list) and len(obs) > 2 else None
            if isinstance(mk, list) and mk:
                out.append('preds-make-%s' % {0: 'ok', 1: 'unknown-keyword', 2: 'sorter-error'}.get(mk[0], 'exc'))
                if mk[0] == 0 and any(x[3] for x in mk[2]):
                    out.append('preds-make-notted')
                if mk[0] == 0 and len(mk[2]) > len({x[0] for x in mk[2]}):
                    out.append('preds-make-several-values-of-one-predicate')
            if any(isinstance(v, list) and not v for _, v in case['kw']):
                out.append('preds-make-empty-predvalseq')
            if _make_unjudged(case, obs):
                out.append('preds-make-unjudged(partial-or-unknown-keywords)')
    else:
        codes, fin = obs if (isinstance(obs, list) and len(obs) == 2) else ([], ['?'])
        out.append('%s-adds%d' % (k, len(case['adds'])))
        if k == 'derivers':
            if any(isinstance(a[2], list) and 'VIEW' in a[2] for a in case['adds']):
                out.append('derivers-over-iterable-with-VIEW')
            if any(isinstance(a[1], list) and 'INGRESS' in a[1] for a in case['adds']):
                out.append('derivers-under-iterable-with-INGRESS')
            if any(a[0] in DV_DEFAULT for a in case['adds']):
                out.append('derivers-stock-replaced')
            if any(a[0] == 'mapped_view' for a in case['adds']):
                out.append('derivers-mapped_view-replaced')
            if any(a[0] in DV_OUTER for a in case['adds']):
                out.append('derivers-user-deriver-named-like-a-fixed-outer-wrapper')
            if len(set(_add_ids(case))) < len(case['adds']):
                out.append('derivers-readd-same-object')
        for c in codes:
            out.append('%s-add-code-%s' % (k, c if isinstance(c, int) else 'exc'))
        if isinstance(fin, list) and fin:
            if fin[0] == 0:
                out.append('%s-final-ok' % k)
            elif fin[0] == 1 and isinstance(fin[1], list) and fin[1]:
                out.append('%s-final-%s' % (k, names.get(fin[1][0], 'exc')))
    return out


def describe(case):
    return case


def explain(item):
    try:
        v = verdicts(item['case'], item['impl'])
    except Exception:
        v = None
    return {'judge_verdict_per_step': v,
            'meaning': 'each observed answer is judged by Model/C18.v judge against the declarations in force: Sorted must '
                       'contain each declared name once with its latest value and respect every constraint between present '
                       'names with nothing unsatisfied; errors must be justified by the declarations'}


def targeted(broken, disagreements, rng):
    out = []
    # the defect of DESIGN section 5 item 11 and its mirror
    out.append({'k': 'sorter', 'cfg': 0, 'ops': [['add', 'c', 1, 'f', None], ['add', 'a', 2, None, 'c']]})
    out.append({'k': 'sorter', 'cfg': 0, 'ops': [['add', 'c', 1, None, 'f'], ['add', 'a', 2, 'c', None]]})
    for cfg in (0, 1, 2):
        s0, s1 = _sentinels(cfg)
        out.append({'k': 'sorter', 'cfg': cfg, 'ops': [['add', 'a', 1, 'b', None], ['add', 'b', 2, 'a', None]]})
        out.append({'k': 'sorter', 'cfg': cfg, 'ops': [['add', 'a', 1, s0, s1], ['add', 'b', 2, 'a', s1],
                                                       ['add', 'c', 3, ['b', 'x'], None], ['add', 'a', 4, None, None]]})
    out.append({'k': 'tweens', 'explicit': [], 'adds': [[TW[0], None, None], [TW[1], TW[0], None], [TW[2], None, TW[0]]]})
    out.append({'k': 'tweens', 'explicit': [TW[1], TW[0]], 'adds': [[TW[0], None, None], [TW[1], TW[0], None]]})
    for look in (['implicit'], ['request']):
        for auto in (True, False):
            # re-add after a look: new constraint, new factory, unsatisfiable re-add
            out.append({'k': 'tweens', 'explicit': [], 'autocommit': auto, 'events': [
                ['add', TW[0], 1, None, None], ['add', TW[1], 2, TW[0], None], look,
                ['add', TW[1], 12, None, TW[0]], look, ['request']]})
            out.append({'k': 'tweens', 'explicit': [], 'autocommit': auto, 'events': [
                ['add', TW[0], 1, None, None], look, ['add', TW[0], 1, 'absent.tween', None], look, ['request']]})
    for kind in (0, 1, 2):
        out.append({'k': 'preds', 'kind': kind, 'adds': [['p0', None, None], ['p1', None, 'p0']]})
        out.append({'k': 'preds', 'kind': kind, 'adds': [['p0', None, None], ['p1', 'p0', None], ['p2', ['p1', 'zz'], 'p0']]})
        if kind < 2:
            out.append({'k': 'preds', 'kind': kind, 'adds': [['p0', None, 'xhr'], ['p1', 'xhr', 'request_method']]})
    for _ in range(300):
        out.append(gen_preds(rng))
    out.append({'k': 'derivers', 'adds': [['d0', None, None], ['d1', 'd0', None], ['d2', None, 'd0']]})
    for _ in range(300):
        out.append(gen_tweens(rng))
        out.append(gen_derivers(rng))
    for _ in range(3000):
        out.append(gen_sorter(rng))
    return out
