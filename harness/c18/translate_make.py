"""C18 translator for PredicateList.make (src/pyramid/config/predicates.py): how the ordered predicate list, the order
number and the phash are computed from the sorter's output.  Regenerated into Gallina (gen_pl_make, appended to
coq/Gen/Facts_C18.v) on every run; Proofs/C18_make.v proves gen_pl_make = pl_make (Model/C18_base.v).

Fail-closed: anything outside the tables is a Problem -> broken tie + stored fallback text (gen_fallback_make.json).

=== TYPES ======================================================================================================
  kw (the **kw dict)            kwd    insertion-ordered association list name -> pvals   (aget / adel)
  kw.pop(name, None)            optvals; after `if vals is None: continue`: pvals; after the predvalseq idiom: pvlist
  val / realval                 pval  (PV x | PNot x);  notted  bool;  pred  pred;  pred.phash()  phres; hashes list: predlist
  phash (sha256 accumulator)    predlist: the sequence of update() arguments (hash content is opaque = the predicate)
  weights  zlist;  preds  predlist;  score / order / bit  Z;  n (enumerate index)  nat
=== STATEMENTS =================================================================================================
  ordered = self.sorter.sorted()         match sorted0 with Sorted v_ordered => .. | e => MkSortError e end
  x = [] / x = sha256() / x = 0          let v_x := [] / [] / 0%Z
  info = PredicateInfo(..)               plumbing (hashed)
  for n, (a, b) in enumerate(L): B       fold_left (fun st x => let '(carried) := st in <B>; (carried)) (enumerate_from 0 L)
  for v in L: B                          fold_left over L;  carried = variables assigned in B that exist before the loop,
                                         ordered by type rank, then first use in B (renaming does not change the term)
  v = d.pop(k, None)                     let v_v := aget k d in let d := adel k d in
  if v is None: continue                 match v_v with None => (carried) | Some v_v => <rest of the body> end
  if not isinstance(v, predvalseq): v = (v,)           let v_v := pvals_list v_v in      (v : pvals)
  if not is_nonstr_iter(h): h = [h]                    let v_h := ph_list v_h in         (h : phres)
  if C: x = e; y = f                     let '(x, y) := if <C> then (<e>, <f>) else (x, y) in     (alphabetical)
  L.append(e)  /  H.update(bytes_(e))    let L := L ++ [e]
  s = s | b                              Z.lor
  if kw: .. raise ConfigurationError('Unknown predicate values ..')   if nonempty v_kw then MkUnknown (map fst v_kw) else
                                         (the body only decorates the message: difflib suggestions; hashed as plumbing)
  return order, preds, phash.hexdigest() MkOk v_order v_preds v_phash
=== EXPRESSIONS ================================================================================================
  isinstance(v, not_)  pv_is_not v      v.value  pv_value v       f(realval, info)  Pred <name paired with f> f realval
  Notted(p)  NottedP p                  p.phash()  ph_of p        1 << n + 1  Z.shiftl 1 (Z.of_nat n + 1)
  (MAX_ORDER - s) // (len(L) + 1)       Z.div (max_order - s) (Z.of_nat (length L) + 1)   (MAX_ORDER: value fact)
  True / False  true / false            names  the variables
"""
import ast
import hashlib
import json
import os

HERE = os.path.dirname(os.path.abspath(__file__))
FALLBACK = os.path.join(HERE, 'gen_fallback_make.json')
TRANSLATED = ['pyramid/config/predicates.py:PredicateList.make']
RANK = ['kwd', 'predlist', 'zlist', 'pvlist', 'pvals', 'optvals', 'pval', 'pred', 'phres', 'bool', 'Z', 'nat', 'node', 'val']


class Problem(Exception):
    pass


def u(n):
    try:
        return ast.unparse(n)
    except Exception:
        return '<%s>' % type(n).__name__


def par(t):
    return t if ' ' not in t else '(' + t + ')'


class Make:
    def __init__(self, fn):
        self.fn = fn
        self.plumb = []
        self.pair_of = {}
        self.selfname = fn.args.args[0].arg

    # ------------------------------------------------------------ expressions
    def expr(self, e, env):
        if isinstance(e, ast.Name):
            if e.id in env:
                return env[e.id]
            raise Problem('unknown name %s' % e.id)
        if isinstance(e, ast.Constant):
            if e.value is True or e.value is False:
                return ('true' if e.value else 'false'), 'bool'
            if e.value == 0 and type(e.value) is int:
                return '0%Z', 'Z'
            raise Problem('constant %s' % u(e))
        if isinstance(e, ast.List) and not e.elts:
            return '[]', None
        if isinstance(e, ast.Call):
            f = e.func
            src = u(f)
            if src == 'sha256' and not e.args:
                return '[]', 'predlist'
            if src == 'isinstance' and len(e.args) == 2 and u(e.args[1]) == 'not_':
                a, ta = self.expr(e.args[0], env)
                if ta != 'pval':
                    raise Problem('isinstance(%s, not_)' % ta)
                return 'pv_is_not %s' % par(a), 'bool'
            if src == 'Notted' and len(e.args) == 1:
                a, ta = self.expr(e.args[0], env)
                if ta != 'pred':
                    raise Problem('Notted(%s)' % ta)
                return 'NottedP %s' % par(a), 'pred'
            if isinstance(f, ast.Attribute) and f.attr == 'phash' and not e.args:
                a, ta = self.expr(f.value, env)
                if ta != 'pred':
                    raise Problem('%s.phash()' % ta)
                return 'ph_of %s' % par(a), 'phres'
            if isinstance(f, ast.Name) and f.id in env and env[f.id][1] == 'val' and len(e.args) == 2 \
                    and isinstance(e.args[1], ast.Name) and e.args[1].id == 'info' and not e.keywords:
                a, ta = self.expr(e.args[0], env)
                if ta != 'pval':
                    raise Problem('factory(%s, info)' % ta)
                nm = self.pair_of.get(f.id)
                if nm is None or nm not in env:
                    raise Problem('%s is not paired with a name' % f.id)
                return 'Pred %s %s %s' % (env[nm][0], env[f.id][0], par(a)), 'pred'
            if src == 'len' and len(e.args) == 1:
                a, ta = self.expr(e.args[0], env)
                if ta not in ('predlist', 'zlist'):
                    raise Problem('len(%s)' % ta)
                return 'Z.of_nat (length %s)' % a, 'Z'
        if isinstance(e, ast.Attribute) and e.attr == 'value':
            a, ta = self.expr(e.value, env)
            if ta != 'pval':
                raise Problem('%s.value' % ta)
            return 'pv_value %s' % par(a), 'pval'
        if isinstance(e, ast.BinOp):
            if isinstance(e.op, ast.LShift) and isinstance(e.left, ast.Constant) and e.left.value == 1:
                r = e.right          # 1 << n + 1  parses as  1 << (n + 1)
                if isinstance(r, ast.BinOp) and isinstance(r.op, ast.Add) and isinstance(r.right, ast.Constant) \
                        and r.right.value == 1:
                    a, ta = self.expr(r.left, env)
                    if ta != 'nat':
                        raise Problem('shift by %s' % ta)
                    return 'Z.shiftl 1 (Z.of_nat %s + 1)' % a, 'Z'
                raise Problem('shift %s' % u(e))
            if isinstance(e.op, ast.BitOr):
                a, ta = self.expr(e.left, env)
                b, tb = self.expr(e.right, env)
                if ta != 'Z' or tb != 'Z':
                    raise Problem('%s | %s' % (ta, tb))
                return 'Z.lor %s %s' % (par(a), par(b)), 'Z'
            if isinstance(e.op, ast.FloorDiv):
                l, r = e.left, e.right
                if isinstance(l, ast.BinOp) and isinstance(l.op, ast.Sub) and isinstance(l.left, ast.Name) \
                        and l.left.id == 'MAX_ORDER' and isinstance(r, ast.BinOp) and isinstance(r.op, ast.Add) \
                        and isinstance(r.right, ast.Constant) and r.right.value == 1:
                    s_, ts = self.expr(l.right, env)
                    n_, tn = self.expr(r.left, env)
                    if ts != 'Z' or tn != 'Z':
                        raise Problem('order of %s, %s' % (ts, tn))
                    return 'Z.div (max_order - %s) (%s + 1)' % (s_, n_), 'Z'
        raise Problem('expression outside the table: %s' % u(e))

    # ------------------------------------------------------------ statements
    def assigned(self, stmts):
        out = []
        for st in stmts:
            for n in ast.walk(st):
                if isinstance(n, ast.Assign):
                    for t in n.targets:
                        if isinstance(t, ast.Name):
                            out.append((t.id, (n.lineno, n.col_offset)))
                elif isinstance(n, ast.Call) and isinstance(n.func, ast.Attribute) and n.func.attr in ('append', 'update', 'pop') \
                        and isinstance(n.func.value, ast.Name):
                    out.append((n.func.value.id, (n.lineno, n.col_offset)))
        return out

    def carried(self, stmts, env):
        first = {}
        for k, pos in self.assigned(stmts):
            if k in env and (k not in first or pos < first[k]):
                first[k] = pos
        return sorted(first, key=lambda k: (RANK.index(env[k][1]) if env[k][1] in RANK else 99, first[k]))

    def tup(self, keys, env):
        ts = [env[k][0] for k in keys]
        return ts[0] if len(ts) == 1 else '(%s)' % ', '.join(ts)

    def pat(self, keys, env):
        ts = [env[k][0] for k in keys]
        return ts[0] if len(ts) == 1 else "'(%s)" % ', '.join(ts)

    def let(self, env, k, term, ty):
        env2 = dict(env)
        env2[k] = ('v_' + k, ty)
        return env2, 'let v_%s := %s in\n' % (k, term)

    def block(self, stmts, env, k):
        """k(env) -> the term that ends this block"""
        if not stmts:
            return k(env)
        st, rest = stmts[0], stmts[1:]
        nxt = lambda e: self.block(rest, e, k)
        if isinstance(st, ast.Expr) and isinstance(st.value, ast.Constant) and isinstance(st.value.value, str):
            return nxt(env)
        if isinstance(st, ast.Assign) and len(st.targets) == 1 and isinstance(st.targets[0], ast.Name):
            t, v = st.targets[0].id, st.value
            src = u(v)
            if t == 'info' and src.startswith('PredicateInfo('):
                self.plumb.append(u(st))
                return nxt(dict(env, info=('info', 'info')))
            # d.pop(k, None)
            if isinstance(v, ast.Call) and isinstance(v.func, ast.Attribute) and v.func.attr == 'pop' and len(v.args) == 2 \
                    and isinstance(v.args[1], ast.Constant) and v.args[1].value is None and isinstance(v.func.value, ast.Name):
                d = v.func.value.id
                if env.get(d, (None, None))[1] != 'kwd':
                    raise Problem('pop on %s' % d)
                kx, kt = self.expr(v.args[0], env)
                if kt != 'node':
                    raise Problem('pop key %s' % kt)
                e1, l1 = self.let(env, t, 'aget %s %s' % (kx, env[d][0]), 'optvals')
                e2, l2 = self.let(e1, d, 'adel %s %s' % (kx, env[d][0]), 'kwd')
                return l1 + l2 + nxt(e2)
            term, ty = self.expr(v, env)
            if ty is None:                                   # [] : typed by the name's later use
                ty = {'weights': 'zlist'}.get(t, 'predlist') if self.list_kind(t) is None else self.list_kind(t)
            e1, l1 = self.let(env, t, term, ty)
            return l1 + nxt(e1)
        if isinstance(st, ast.Expr) and isinstance(st.value, ast.Call) and isinstance(st.value.func, ast.Attribute) \
                and isinstance(st.value.func.value, ast.Name) and st.value.func.value.id in env and len(st.value.args) == 1:
            c = st.value
            L = c.func.value.id
            tL = env[L][1]
            a = c.args[0]
            if c.func.attr == 'update' and isinstance(a, ast.Call) and u(a.func) == 'bytes_' and len(a.args) == 1:
                a = a.args[0]
            elif c.func.attr != 'append':
                raise Problem('call %s' % u(c))
            x, tx = self.expr(a, env)
            want = {'predlist': 'pred', 'zlist': 'Z'}.get(tL)
            if want != tx:
                raise Problem('%s of %s into %s' % (c.func.attr, tx, tL))
            e1, l1 = self.let(env, L, '%s ++ [%s]' % (env[L][0], x), tL)
            return l1 + nxt(e1)
        if isinstance(st, ast.If) and not st.orelse:
            test = st.test
            # if v is None: continue
            if len(st.body) == 1 and isinstance(st.body[0], ast.Continue) and isinstance(test, ast.Compare) \
                    and isinstance(test.ops[0], ast.Is) and isinstance(test.comparators[0], ast.Constant) \
                    and test.comparators[0].value is None and isinstance(test.left, ast.Name) \
                    and env.get(test.left.id, (None, None))[1] == 'optvals':
                v = test.left.id
                e1 = dict(env)
                e1[v] = ('v_' + v, 'pvals')
                return 'match %s with\n| None => %s\n| Some v_%s =>\n%s\nend' % (env[v][0], k(env), v, nxt(e1))
            # the two wrapping idioms
            if len(st.body) == 1 and isinstance(st.body[0], ast.Assign) and isinstance(test, ast.UnaryOp) \
                    and isinstance(test.op, ast.Not) and isinstance(test.operand, ast.Call):
                c, asg = test.operand, st.body[0]
                tgt = asg.targets[0]
                if isinstance(tgt, ast.Name) and len(c.args) >= 1 and isinstance(c.args[0], ast.Name) and c.args[0].id == tgt.id:
                    v = tgt.id
                    ty = env.get(v, (None, None))[1]
                    if u(c.func) == 'isinstance' and len(c.args) == 2 and u(c.args[1]) == 'predvalseq' and ty == 'pvals' \
                            and u(asg.value) == '(%s,)' % v:
                        e1, l1 = self.let(env, v, 'pvals_list %s' % env[v][0], 'pvlist')
                        return l1 + nxt(e1)
                    if u(c.func) == 'is_nonstr_iter' and len(c.args) == 1 and ty == 'phres' and u(asg.value) == '[%s]' % v:
                        e1, l1 = self.let(env, v, 'ph_list %s' % env[v][0], 'predlist')
                        return l1 + nxt(e1)
            # the leftover-keywords error
            if isinstance(test, ast.Name) and env.get(test.id, (None, None))[1] == 'kwd' and st.body \
                    and isinstance(st.body[-1], ast.Raise):
                exc = st.body[-1].exc
                if not (isinstance(exc, ast.Call) and u(exc.func) == 'ConfigurationError' and len(exc.args) == 1
                        and isinstance(exc.args[0], ast.BinOp) and isinstance(exc.args[0].left, ast.Constant)
                        and str(exc.args[0].left.value).startswith('Unknown predicate values')):
                    raise Problem('raise %s' % u(exc))
                self.plumb.append(u(st))
                return 'if nonempty %s then MkUnknown (map fst %s) else\n%s' % (env[test.id][0], env[test.id][0], nxt(env))
            # if C: x = e; y = f   (all targets exist)
            if all(isinstance(b, ast.Assign) and len(b.targets) == 1 and isinstance(b.targets[0], ast.Name)
                   and b.targets[0].id in env for b in st.body):
                c, tc = self.expr(test, env)
                if tc != 'bool':
                    raise Problem('condition of type %s: %s' % (tc, u(test)))
                keys = sorted({b.targets[0].id for b in st.body})
                e1 = dict(env)
                lets = ''
                for b in st.body:
                    t = b.targets[0].id
                    term, ty = self.expr(b.value, e1)
                    if ty != env[t][1]:
                        raise Problem('%s changes its type in a branch' % t)
                    e1, l = self.let(e1, t, term, ty)
                    lets += l
                e2 = dict(env)
                for t in keys:
                    e2[t] = ('v_' + t, env[t][1])
                return 'let %s :=\nif %s then\n%s%s\nelse %s in\n%s' % (
                    self.pat(keys, e2), c, lets, self.tup(keys, e1), self.tup(keys, env), nxt(e2))
        if isinstance(st, ast.For) and not st.orelse:
            return self.loop(st, env, nxt)
        if isinstance(st, ast.Return):
            v = st.value
            if not (isinstance(v, ast.Tuple) and len(v.elts) == 3 and u(v.elts[2]).endswith('.hexdigest()')):
                raise Problem('return %s' % u(v))
            o, to = self.expr(v.elts[0], env)
            p, tp = self.expr(v.elts[1], env)
            h, th = self.expr(v.elts[2].func.value, env)
            if (to, tp, th) != ('Z', 'predlist', 'predlist') or rest:
                raise Problem('return of %s, %s, %s' % (to, tp, th))
            return 'MkOk %s %s %s' % (o, p, h)
        raise Problem('statement outside the subset: %s' % u(st).split('\n')[0])

    def list_kind(self, name):
        """type of an empty list literal from the appends it receives anywhere in the function"""
        for n in ast.walk(self.fn):
            if isinstance(n, ast.Call) and isinstance(n.func, ast.Attribute) and n.func.attr == 'append' \
                    and isinstance(n.func.value, ast.Name) and n.func.value.id == name and len(n.args) == 1:
                a = n.args[0]
                if isinstance(a, ast.BinOp) and isinstance(a.op, ast.LShift):
                    return 'zlist'
                return 'predlist'
        return None

    def loop(self, st, env, nxt):
        it, tgt = st.iter, st.target
        e1 = dict(env)
        binds = ''
        if isinstance(it, ast.Call) and u(it.func) == 'enumerate' and len(it.args) == 1:
            L, tL = self.expr(it.args[0], env)
            if tL != 'pairs' or not (isinstance(tgt, ast.Tuple) and len(tgt.elts) == 2 and isinstance(tgt.elts[0], ast.Name)
                                     and isinstance(tgt.elts[1], ast.Tuple) and len(tgt.elts[1].elts) == 2
                                     and all(isinstance(x, ast.Name) for x in tgt.elts[1].elts)):
                raise Problem('enumerate loop %s' % u(st.target))
            n, a, b = tgt.elts[0].id, tgt.elts[1].elts[0].id, tgt.elts[1].elts[1].id
            e1[n], e1[a], e1[b] = ('v_' + n, 'nat'), ('v_' + a, 'node'), ('v_' + b, 'val')
            self.pair_of[b] = a
            binds = 'let v_%s := fst x in let v_%s := fst (snd x) in let v_%s := snd (snd x) in\n' % (n, a, b)
            seq = 'enumerate_from 0 %s' % L
        else:
            L, tL = self.expr(it, env)
            et = {'pvlist': 'pval', 'predlist': 'pred', 'zlist': 'Z'}.get(tL)
            if et is None or not isinstance(tgt, ast.Name):
                raise Problem('loop over %s' % tL)
            e1[tgt.id] = ('v_' + tgt.id, et)
            binds = 'let v_%s := x in\n' % tgt.id
            seq = L
        keys = self.carried(st.body, env)
        if not keys:
            raise Problem('a loop that changes nothing')
        for kk in keys:
            e1[kk] = ('v_' + kk, env[kk][1])
        end = lambda e: self.tup(keys, e)
        body = self.block(st.body, e1, end)
        e2 = dict(env)
        for kk in keys:
            e2[kk] = ('v_' + kk, env[kk][1])
        return 'let %s :=\nfold_left (fun st x =>\nlet %s := st in\n%s%s)\n(%s) %s in\n%s' % (
            self.pat(keys, e2), self.pat(keys, e1), binds, body, seq, self.tup(keys, env), nxt(e2))

    def translate(self):
        fn = self.fn
        a = fn.args
        if [x.arg for x in a.args][1:] != ['config'] or a.vararg or a.kwonlyargs or a.defaults or a.kwarg is None \
                or fn.decorator_list:
            raise Problem('make signature')
        kwn = a.kwarg.arg
        body = [s for s in fn.body if not (isinstance(s, ast.Expr) and isinstance(s.value, ast.Constant))]
        first = body[0]
        if not (isinstance(first, ast.Assign) and isinstance(first.targets[0], ast.Name)
                and u(first.value) == '%s.sorter.sorted()' % self.selfname):
            raise Problem('make does not start with <x> = self.sorter.sorted()')
        env = {kwn: ('v_' + kwn, 'kwd'), first.targets[0].id: ('v_' + first.targets[0].id, 'pairs')}
        self.kwn = kwn
        term = self.block(body[1:], env, lambda e: (_ for _ in ()).throw(Problem('make ends without return')))
        return ('Definition gen_pl_make (max_order : Z) (sorted0 : outcome) (v_%s : list (node * pvals)) : make_result :=\n'
                'match sorted0 with\n| Sorted v_%s =>\n%s\n| e => MkSortError e\nend.\n' % (kwn, first.targets[0].id, term))


def _find(tree, qual):
    node = tree
    for part in qual.split('.'):
        nxt = None
        for ch in (node.body if hasattr(node, 'body') else []):
            if isinstance(ch, (ast.FunctionDef, ast.ClassDef)) and ch.name == part:
                nxt = ch
        if nxt is None:
            raise Problem('%s not found' % qual)
        node = nxt
    return node


def translate_tree(src):
    problems, summary = [], {}
    max_order = 1 << 30
    try:
        with open(os.path.join(src, 'pyramid/config/predicates.py')) as f:
            tree = ast.parse(f.read())
        mo = [st for st in tree.body if isinstance(st, ast.Assign) and u(st.targets[0]) == 'MAX_ORDER']
        if len(mo) != 1 or not (isinstance(mo[0].value, ast.BinOp) and isinstance(mo[0].value.op, ast.LShift)
                                and isinstance(mo[0].value.left, ast.Constant) and isinstance(mo[0].value.right, ast.Constant)):
            raise Problem('MAX_ORDER is not <int> << <int>')
        max_order = mo[0].value.left.value << mo[0].value.right.value
        m = Make(_find(tree, 'PredicateList.make'))
        text = m.translate()
        summary['translated_make'] = ['gen_pl_make']
        summary['make_masked_pin'] = hashlib.sha1('\n'.join(m.plumb).encode()).hexdigest()[:16]
    except (Problem, OSError, SyntaxError, KeyError, IndexError, AttributeError, TypeError) as e:
        problems.append('make translator: %s: %s' % (type(e).__name__, e))
        with open(FALLBACK) as f:
            text = json.load(f)['text']
        summary['translated_make'] = 'FALLBACK (%s)' % e
    text = 'Definition pl_max_order : Z := %d%%Z.\n' % max_order + text
    try:
        with open(FALLBACK) as f:
            want = json.load(f).get('masked')
    except OSError:
        want = None
    if 'make_masked_pin' in summary and summary['make_masked_pin'] != want:
        problems.append('masked pin PredicateList.make#untranslated changed (%s -> %s)' % (want, summary['make_masked_pin']))
    return text, problems, summary


if __name__ == '__main__':
    import sys
    args = [a for a in sys.argv[1:] if not a.startswith('--')]
    t, p, s = translate_tree(args[0] if args else '/repo/src')
    if '--write-fallback' in sys.argv:
        p = [x for x in p if not x.startswith('masked pin')]
        if p:
            raise SystemExit('problems: %r' % p)
        body = t.split('\n', 1)[1]
        with open(FALLBACK, 'w') as f:
            json.dump({'text': body, 'masked': s.get('make_masked_pin')}, f)
    print(t)
    print(p, file=sys.stderr)
