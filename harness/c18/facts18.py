"""C18 facts: data-like constants the model uses, re-read from the source with ast (fail closed)."""
import ast
import os
from harness.common import facts as F

HERE = os.path.dirname(os.path.abspath(__file__))

# identity-compared Sentinel objects are put on the wire as texts no str name can equal
SENT = {'FIRST': '\x00FIRST', 'LAST': '\x00LAST'}

DEFAULTS = {
    'cfg_plain': ('\x00LAST', None, '\x00FIRST', '\x00LAST'),
    'cfg_tweens': (None, 'INGRESS', 'INGRESS', 'MAIN'),
    'cfg_derivers': (None, 'INGRESS', 'INGRESS', 'VIEW'),
    'tw_main': 'MAIN', 'tw_ingress': 'INGRESS',
    'tw_default_adds': ['pyramid.tweens.excview_tween_factory'],
    'tw_after_is_under': True, 'tw_use_reversed': True,
    'dv_view': 'VIEW', 'dv_ingress': 'INGRESS',
    'dv_default_under': 'decorated_view', 'dv_default_over': 'rendered_view', 'dv_forced_over': 'mapped_view',
    'dv_after_is_under': True, 'dv_reversed': True,
    'dv_outer': ['attr_wrapped_view', 'predicated_view'],
    'dv_default_decls': [('secured_view', 'INGRESS', 'VIEW'), ('owrapped_view', 'secured_view', 'VIEW'),
                         ('http_cached_view', 'owrapped_view', 'VIEW'), ('decorated_view', 'http_cached_view', 'VIEW'),
                         ('rendered_view', 'decorated_view', 'VIEW'), ('mapped_view', 'rendered_view', 'VIEW'),
                         ('csrf_view', 'secured_view', 'owrapped_view')],
    'pl_after_is_more_than': True,
    'pd_view_straight': True, 'pd_route_straight': True, 'pd_subscriber_straight': True, 'pd_inner_straight': True,
    'pl_default_route_predicates': ['xhr', 'request_method', 'path_info', 'request_param', 'header', 'accept',
                                    'is_authenticated', 'effective_principals', 'custom', 'traverse'],
    'pl_default_subscriber_predicates': [],
    'pl_default_view_predicates': ['xhr', 'request_method', 'path_info', 'request_param', 'header', 'accept',
                                   'containment', 'request_type', 'match_param', 'physical_path',
                                   'is_authenticated', 'effective_principals', 'custom'],
}


class Bad(Exception):
    pass


def _consts(m, names):
    out = {}
    for n in names:
        v = m.const(n)
        if not isinstance(v, str):
            raise Bad('%s is not a str literal' % n)
        out[n] = v
    return out


def _resolve(node, env):
    """expression -> None | str, through module constants / Sentinel names"""
    if isinstance(node, ast.Constant):
        if node.value is None or isinstance(node.value, str):
            return node.value
    if isinstance(node, ast.Name) and node.id in env:
        return env[node.id]
    raise Bad('unresolvable expression %s' % ast.dump(node))


def _sorter_call_cfg(fn, env, base):
    """find the single TopologicalSorter(...) call inside fn; -> cfg tuple"""
    calls = [n for n in ast.walk(fn) if isinstance(n, ast.Call) and isinstance(n.func, ast.Name)
             and n.func.id == 'TopologicalSorter']
    if len(calls) != 1:
        raise Bad('expected exactly one TopologicalSorter(...) call in %s' % fn.name)
    c = calls[0]
    if c.args:
        raise Bad('positional TopologicalSorter arguments in %s' % fn.name)
    d = dict(zip(('default_before', 'default_after', 'first', 'last'), base))
    for kw in c.keywords:
        if kw.arg not in d:
            raise Bad('unknown TopologicalSorter keyword %r' % kw.arg)
        d[kw.arg] = _resolve(kw.value, env)
    return (d['default_before'], d['default_after'], d['first'], d['last'])


def _arg_map(call, params):
    """bind a call's positional + keyword arguments to the callee's parameter names (self excluded)"""
    got = {}
    for i, a in enumerate(call.args):
        if isinstance(a, ast.Starred) or i >= len(params):
            raise Bad('cannot bind positional argument %d' % i)
        got[params[i]] = a
    for kw in call.keywords:
        if kw.arg is None or kw.arg not in params or kw.arg in got:
            raise Bad('cannot bind keyword %r' % kw.arg)
        got[kw.arg] = kw.value
    return got


def _params(fn):
    a = fn.args
    if a.vararg or a.kwarg or a.kwonlyargs or a.posonlyargs:
        raise Bad('%s: unexpected parameter kinds' % fn.name)
    return [x.arg for x in a.args][1:]


def _pair_map(call, params, targets, want):
    """which of the two names `want` reach the two parameters `targets` -> True (straight) / False (swapped)"""
    got = _arg_map(call, params)
    ids = []
    for t in targets:
        v = got.get(t)
        if not isinstance(v, ast.Name):
            raise Bad('argument for %s is not a plain name' % t)
        ids.append(v.id)
    if ids == list(want):
        return True
    if ids == list(want)[::-1]:
        return False
    raise Bad('argument mapping not recognised: %r -> %r' % (targets, ids))


SORTER_ADD = ['name', 'val', 'after', 'before']


def _kw_map(call, want):
    return _pair_map(call, SORTER_ADD, ('after', 'before'), want)


def _find_calls(fn, attr):
    return [n for n in ast.walk(fn) if isinstance(n, ast.Call) and isinstance(n.func, ast.Attribute)
            and n.func.attr == attr]


def extract(src):
    vals = dict(DEFAULTS)
    problems = []

    def guard(label, f):
        try:
            f()
        except (Bad, KeyError, OSError, SyntaxError, AttributeError, IndexError, TypeError, ValueError) as e:
            problems.append('%s: unrecognised shape (%s: %s)' % (label, type(e).__name__, e))

    # ---- util.py: Sentinels, TopologicalSorter.__init__ defaults
    def util():
        m = F.Module(src, 'pyramid/util.py')
        env = {}
        for n in ('FIRST', 'LAST'):
            e = m.const_expr(n)
            if not (isinstance(e, ast.Call) and isinstance(e.func, ast.Name) and e.func.id == 'Sentinel'
                    and len(e.args) == 1 and isinstance(e.args[0], ast.Constant) and e.args[0].value == n):
                raise Bad('%s is not Sentinel(%r)' % (n, n))
            env[n] = SENT[n]
        cls = m.find('Sentinel')
        if cls is None or any(isinstance(n, ast.FunctionDef) and n.name in ('__eq__', '__hash__') for n in cls.body):
            raise Bad('Sentinel defines __eq__/__hash__ (identity comparison assumed)')
        init = m.find('TopologicalSorter.__init__')
        a = init.args
        names = [x.arg for x in a.args][1:]
        if names != ['default_before', 'default_after', 'first', 'last'] or len(a.defaults) != 4:
            raise Bad('TopologicalSorter.__init__ signature %r' % names)
        vals['cfg_plain'] = tuple(_resolve(d, env) for d in a.defaults)
    guard('util.py TopologicalSorter.__init__/FIRST/LAST', util)

    # ---- tweens
    def tweens():
        tm = F.Module(src, 'pyramid/tweens.py')
        env = _consts(tm, ('MAIN', 'INGRESS', 'EXCVIEW'))
        vals['tw_main'], vals['tw_ingress'] = env['MAIN'], env['INGRESS']
        m = F.Module(src, 'pyramid/config/tweens.py')
        vals['cfg_tweens'] = _sorter_call_cfg(m.find('Tweens.__init__'), env, vals['cfg_plain'])
        adds = _find_calls(m.find('Tweens.add_implicit'), 'add')
        if len(adds) != 1:
            raise Bad('Tweens.add_implicit: expected one sorter.add call')
        vals['tw_after_is_under'] = _kw_map(adds[0], ('under', 'over'))
        call = m.find('Tweens.__call__')
        fors = [n for n in ast.walk(call) if isinstance(n, ast.For)]
        if len(fors) != 1:
            raise Bad('Tweens.__call__: expected one for loop')
        it = fors[0].iter
        if isinstance(it, ast.Name) and it.id == 'use':
            vals['tw_use_reversed'] = False
        elif (isinstance(it, ast.Subscript) and isinstance(it.value, ast.Name) and it.value.id == 'use'
              and isinstance(it.slice, ast.Slice) and it.slice.lower is None and it.slice.upper is None
              and isinstance(it.slice.step, ast.UnaryOp) and isinstance(it.slice.step.op, ast.USub)
              and isinstance(it.slice.step.operand, ast.Constant) and it.slice.step.operand.value == 1):
            vals['tw_use_reversed'] = True
        elif (isinstance(it, ast.Call) and isinstance(it.func, ast.Name) and it.func.id == 'reversed'
              and len(it.args) == 1 and isinstance(it.args[0], ast.Name) and it.args[0].id == 'use'):
            vals['tw_use_reversed'] = True
        else:
            raise Bad('Tweens.__call__ loop iterable %s' % ast.dump(it))
        d = m.find('TweensConfiguratorMixin.add_default_tweens')
        names = []
        for st in d.body:
            if not (isinstance(st, ast.Expr) and isinstance(st.value, ast.Call)
                    and isinstance(st.value.func, ast.Attribute) and st.value.func.attr == 'add_tween'
                    and len(st.value.args) == 1 and not st.value.keywords):
                raise Bad('add_default_tweens statement %s' % ast.dump(st))
            names.append(_resolve(st.value.args[0], env))
        vals['tw_default_adds'] = names
    guard('config/tweens.py', tweens)

    # ---- view derivers
    def derivers():
        vm = F.Module(src, 'pyramid/viewderivers.py')
        env = _consts(vm, ('VIEW', 'INGRESS'))
        vals['dv_view'], vals['dv_ingress'] = env['VIEW'], env['INGRESS']
        m = F.Module(src, 'pyramid/config/views.py')
        fn = m.find('ViewsConfiguratorMixin.add_view_deriver')
        vals['cfg_derivers'] = _sorter_call_cfg(fn, env, vals['cfg_plain'])
        # if under is None: under = '...'; if over is None: over = '...'
        dflt = {}
        for st in fn.body:
            if (isinstance(st, ast.If) and isinstance(st.test, ast.Compare) and isinstance(st.test.left, ast.Name)
                    and st.test.left.id in ('under', 'over') and len(st.test.ops) == 1
                    and isinstance(st.test.ops[0], ast.Is) and isinstance(st.test.comparators[0], ast.Constant)
                    and st.test.comparators[0].value is None and len(st.body) == 1
                    and isinstance(st.body[0], ast.Assign) and isinstance(st.body[0].value, ast.Constant)
                    and isinstance(st.body[0].value.value, str)):
                dflt[st.test.left.id] = st.body[0].value.value
        if set(dflt) != {'under', 'over'}:
            raise Bad('add_view_deriver default under/over %r' % dflt)
        vals['dv_default_under'], vals['dv_default_over'] = dflt['under'], dflt['over']
        # if VIEW in over and name != 'mapped_view': over = as_sorted_tuple(over + ('mapped_view',))
        forced = None
        # over = as_sorted_tuple(over + ('mapped_view',))  -- wherever it stands (the control flow around it is translated)
        for c in ast.walk(fn):
            if (isinstance(c, ast.Call) and isinstance(c.func, ast.Name) and c.func.id == 'as_sorted_tuple' and len(c.args) == 1
                    and isinstance(c.args[0], ast.BinOp) and isinstance(c.args[0].op, ast.Add)
                    and isinstance(c.args[0].right, ast.Tuple) and len(c.args[0].right.elts) == 1
                    and isinstance(c.args[0].right.elts[0], ast.Constant) and isinstance(c.args[0].right.elts[0].value, str)):
                if forced is not None and forced != c.args[0].right.elts[0].value:
                    raise Bad('two different forced alternatives')
                forced = c.args[0].right.elts[0].value
        if forced is None:
            raise Bad('add_view_deriver "always over mapped_view" clause')
        vals['dv_forced_over'] = forced
        adds = [c for c in _find_calls(fn, 'add') if isinstance(c.func.value, ast.Name) and c.func.value.id == 'derivers']
        if len(adds) != 1:
            raise Bad('add_view_deriver: expected one derivers.add call')
        vals['dv_after_is_under'] = _kw_map(adds[0], ('under', 'over'))
        # _apply_view_derivers
        ap = m.find('ViewsConfiguratorMixin._apply_view_derivers')
        outer = None
        for st in ap.body:
            if isinstance(st, ast.Assign) and isinstance(st.targets[0], ast.Name) and st.targets[0].id == 'outer_derivers':
                outer = [e.elts[0].value for e in st.value.elts]
        if outer is None or not all(isinstance(x, str) for x in outer):
            raise Bad('_apply_view_derivers outer_derivers')
        vals['dv_outer'] = outer
        fors = [n for n in ast.walk(ap) if isinstance(n, ast.For)]
        if len(fors) != 1:
            raise Bad('_apply_view_derivers: expected one for loop')
        it = fors[0].iter

        def is_concat(e):
            return (isinstance(e, ast.BinOp) and isinstance(e.op, ast.Add) and isinstance(e.left, ast.Name)
                    and e.left.id == 'outer_derivers' and isinstance(e.right, ast.Call)
                    and isinstance(e.right.func, ast.Attribute) and e.right.func.attr == 'sorted')
        if isinstance(it, ast.Call) and isinstance(it.func, ast.Name) and it.func.id == 'reversed' and is_concat(it.args[0]):
            vals['dv_reversed'] = True
        elif is_concat(it):
            vals['dv_reversed'] = False
        else:
            raise Bad('_apply_view_derivers loop iterable %s' % ast.dump(it))
        # add_default_view_derivers
        dd = m.find('ViewsConfiguratorMixin.add_default_view_derivers')
        names = None
        last0 = None
        decls = []
        loop_seen = False
        for st in dd.body:
            if isinstance(st, ast.Assign) and isinstance(st.targets[0], ast.Name):
                t = st.targets[0].id
                if t == 'd':
                    continue
                if t == 'derivers':
                    names = [e.elts[0].value for e in st.value.elts]
                    for e in st.value.elts:
                        if not (isinstance(e.elts[1], ast.Attribute) and e.elts[1].attr == e.elts[0].value):
                            raise Bad('default deriver %r is not paired with d.%s' % (e.elts[0].value, e.elts[0].value))
                    continue
                if t == 'last':
                    last0 = _resolve(st.value, env)
                    continue
                raise Bad('add_default_view_derivers assignment to %s' % t)
            if isinstance(st, ast.For):
                if names is None or last0 is None or loop_seen:
                    raise Bad('add_default_view_derivers loop order')
                loop_seen = True
                body = st.body
                call = body[0].value
                kws = {k.arg: k.value for k in call.keywords}
                if not (len(body) == 2 and call.func.attr == 'add_view_deriver' and isinstance(kws['name'], ast.Name)
                        and kws['name'].id == 'name' and isinstance(kws['under'], ast.Name) and kws['under'].id == 'last'
                        and isinstance(body[1], ast.Assign) and body[1].targets[0].id == 'last'
                        and isinstance(body[1].value, ast.Name) and body[1].value.id == 'name'):
                    raise Bad('add_default_view_derivers loop body')
                over = _resolve(kws['over'], env)
                prev = last0
                for n in names:
                    decls.append((n, prev, over))
                    prev = n
                continue
            if isinstance(st, ast.Expr) and isinstance(st.value, ast.Call) and st.value.func.attr == 'add_view_deriver':
                c = st.value
                kws = {k.arg: k.value for k in c.keywords}
                if len(c.args) != 2 or set(kws) - {'under', 'over'}:
                    raise Bad('extra add_view_deriver call shape')
                nm = _resolve(c.args[1], env)
                if not (isinstance(c.args[0], ast.Attribute) and c.args[0].attr == nm):
                    raise Bad('extra default deriver %r not paired with d.%s' % (nm, nm))
                decls.append((nm, _resolve(kws['under'], env) if 'under' in kws else None,
                              _resolve(kws['over'], env) if 'over' in kws else None))
                continue
            raise Bad('add_default_view_derivers statement %s' % type(st).__name__)
        if not loop_seen:
            raise Bad('add_default_view_derivers: no loop')
        vals['dv_default_decls'] = decls
    guard('config/views.py derivers', derivers)

    def preds():
        um = F.Module(src, 'pyramid/util.py')
        if _params(um.find('TopologicalSorter.add')) != SORTER_ADD:
            raise Bad('TopologicalSorter.add signature')
        m = F.Module(src, 'pyramid/config/predicates.py')
        init = m.find('PredicateList.__init__')
        cfg = _sorter_call_cfg(init, {}, vals['cfg_plain'])
        if cfg != vals['cfg_plain']:
            raise Bad('PredicateList sorter is not the default TopologicalSorter()')
        pl_add = m.find('PredicateList.add')
        pl_params = _params(pl_add)
        if pl_params != ['name', 'factory', 'weighs_more_than', 'weighs_less_than']:
            raise Bad('PredicateList.add signature %r' % pl_params)
        adds = _find_calls(pl_add, 'add')
        if len(adds) != 1:
            raise Bad('PredicateList.add: expected one sorter.add call')
        vals['pl_after_is_more_than'] = _kw_map(adds[0], ('weighs_more_than', 'weighs_less_than'))
        ap = m.find('PredicateConfiguratorMixin._add_predicate')
        ap_params = _params(ap)
        if ap_params != ['type', 'name', 'factory', 'weighs_more_than', 'weighs_less_than']:
            raise Bad('_add_predicate signature %r' % ap_params)
        inner = [c for c in _find_calls(ap, 'add') if isinstance(c.func.value, ast.Name) and c.func.value.id == 'predlist']
        if len(inner) != 1:
            raise Bad('_add_predicate: expected one predlist.add call')
        vals['pd_inner_straight'] = _pair_map(inner[0], pl_params, ('weighs_more_than', 'weighs_less_than'),
                                              ('weighs_more_than', 'weighs_less_than'))
        for kind, rel, qual, dq in (
                ('view', 'pyramid/config/views.py', 'ViewsConfiguratorMixin.add_view_predicate',
                 'ViewsConfiguratorMixin.add_default_view_predicates'),
                ('route', 'pyramid/config/routes.py', 'RoutesConfiguratorMixin.add_route_predicate',
                 'RoutesConfiguratorMixin.add_default_route_predicates'),
                ('subscriber', 'pyramid/config/adapters.py', 'AdaptersConfiguratorMixin.add_subscriber_predicate', None)):
            dm = F.Module(src, rel)
            fn = dm.find(qual)
            if _params(fn) != ['name', 'factory', 'weighs_more_than', 'weighs_less_than']:
                raise Bad('%s signature' % qual)
            calls = _find_calls(fn, '_add_predicate')
            if len(calls) != 1:
                raise Bad('%s: expected one _add_predicate call' % qual)
            got = _arg_map(calls[0], ap_params)
            t = got.get('type')
            if not (isinstance(t, ast.Constant) and t.value == kind):
                raise Bad('%s: predicate type is not %r' % (qual, kind))
            for k in ('name', 'factory'):
                if not (isinstance(got.get(k), ast.Name) and got[k].id == k):
                    raise Bad('%s: %s not passed through' % (qual, k))
            vals['pd_%s_straight' % kind] = _pair_map(calls[0], ap_params, ('weighs_more_than', 'weighs_less_than'),
                                                      ('weighs_more_than', 'weighs_less_than'))
            if dq is not None:
                dp = dm.find(dq)
                fors = [n for n in dp.body if isinstance(n, ast.For)]
                if len(fors) != 1:
                    raise Bad('%s loop' % dq)
                call = fors[0].body[0].value
                if not (len(fors[0].body) == 1 and call.func.attr == 'add_%s_predicate' % kind
                        and len(call.args) == 2 and not call.keywords):
                    raise Bad('%s body' % dq)
                vals['pl_default_%s_predicates' % kind] = [e.elts[0].value for e in fors[0].iter.elts]
        # no default subscriber predicates are registered anywhere
        cm = F.Module(src, 'pyramid/config/__init__.py')
        if 'add_default_subscriber_predicates' in cm.text or 'add_subscriber_predicate(' in cm.text:
            raise Bad('default subscriber predicates appeared')
    guard('predicate directives', preds)

    # ---- Configurator.setup_registry (config/__init__.py, outside the anchor files): the CONFIG-TIME glue between the
    # settings / the stock declarations and the three sorters.  Structural, fail-closed: each add_default_* of this
    # property is one unconditional top-level statement, and the explicit tween list is exactly
    #     tweens = aslist(registry.settings.get('pyramid.tweens', []))
    #     for factory in tweens: self._add_tween(factory, explicit=True)
    def setup():
        m = F.Module(src, 'pyramid/config/__init__.py')
        fn = m.find('Configurator.setup_registry')
        if fn is None:
            raise Bad('Configurator.setup_registry not found')
        top = [ast.unparse(st) for st in fn.body]
        for d in ('add_default_view_predicates', 'add_default_view_derivers', 'add_default_route_predicates',
                  'add_default_tweens'):
            n_top = top.count('self.%s()' % d)
            n_all = sum(1 for n in ast.walk(fn) if isinstance(n, ast.Attribute) and n.attr == d)
            if n_top != 1 or n_all != 1:
                raise Bad('setup_registry: self.%s() is not exactly one unconditional statement' % d)
        want = ["tweens = aslist(registry.settings.get('pyramid.tweens', []))",
                'for factory in tweens:\n    self._add_tween(factory, explicit=True)']
        idx = [i for i, t in enumerate(top) if t == want[0]]
        if len(idx) != 1 or idx[0] + 1 >= len(top) or top[idx[0] + 1] != want[1]:
            raise Bad('setup_registry: the explicit tween list is not read as expected')
        if sum(1 for n in ast.walk(fn) if isinstance(n, ast.Attribute) and n.attr in ('_add_tween', 'add_tween')) != 1:
            raise Bad('setup_registry: further add_tween calls')
        if sum(1 for n in ast.walk(fn) if isinstance(n, ast.Constant) and n.value == 'pyramid.tweens') != 1:
            raise Bad("setup_registry: 'pyramid.tweens' read more than once")
        # the default tweens are declared BEFORE the explicit list is read (an explicit list replaces, never merges)
        if top.index('self.add_default_tweens()') > idx[0]:
            raise Bad('setup_registry: add_default_tweens after the explicit list')
    guard('config/__init__.py setup_registry', setup)
    return vals, problems


def _hint(v):
    return 'HNone' if v is None else '(HOne %s)' % F.coq_text(v)


def _opt(v):
    return 'None' if v is None else '(Some %s)' % F.coq_text(v)


def emit(vals, gen_text=None):
    out = [F.HEADER, 'Require Import Verif.Model.C18_base.\n']
    for k in ('cfg_plain', 'cfg_tweens', 'cfg_derivers'):
        db, da, f, l = vals[k]
        out.append('Definition %s_raw : (option text * option text * text * text) := (%s, %s, %s, %s).\n'
                   % (k, _opt(db), _opt(da), F.coq_text(f), F.coq_text(l)))
    for k in ('tw_main', 'tw_ingress', 'dv_view', 'dv_ingress', 'dv_default_under', 'dv_default_over', 'dv_forced_over'):
        out.append('Definition %s : text := %s.\n' % (k, F.coq_text(vals[k])))
    for k in ('tw_after_is_under', 'tw_use_reversed', 'dv_after_is_under', 'dv_reversed', 'pl_after_is_more_than',
              'pd_view_straight', 'pd_route_straight', 'pd_subscriber_straight', 'pd_inner_straight'):
        out.append('Definition %s : bool := %s.\n' % (k, F.coq_bool(vals[k])))
    for k in ('tw_default_adds', 'dv_outer', 'pl_default_view_predicates', 'pl_default_route_predicates',
              'pl_default_subscriber_predicates'):
        out.append('Definition %s : list text := %s.\n' % (k, F.coq_texts(vals[k])))
    out.append('Definition dv_default_decls : list (text * option text * option text) := [%s].\n'
               % '; '.join('(%s, %s, %s)' % (F.coq_text(n), _opt(u), _opt(o)) for n, u, o in vals['dv_default_decls']))
    if gen_text is not None:
        out.append('\n(* ---- regenerated from src/pyramid/util.py, config/tweens.py, config/views.py by harness/c18/translate.py:\n'
                   '   control flow translated mechanically, leaves through the primitive table (see that file) ---- *)\n')
        out.append(gen_text)
    return ''.join(out)
