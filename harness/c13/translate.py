"""Python ast -> Lib/C13Bracket.stmt translator (C13 part a), fail-closed.

What is regenerated: the push/pop/try/with/if/loop/call skeleton of every
function named in PROCS, read from the current source on every run.  What is
written by hand (trusted, small): BIND -- which *definition* a call expression
inside a given function denotes (e.g. `router.invoke_request` inside
default_execution_policy is Router.invoke_request), the mark numbers and the
push-site tags.  A call that is not bound is an opaque `Call` (may return or
raise, leaves the stack alone); names that look like scope operations
(SUSPICIOUS) must be bound, otherwise the translation reports a problem.
"""
import ast

from harness.common import facts as F

# Every source function whose whole statement-level control flow (try/finally/except, with, if, loops, return,
# raise, the order of calls, pushes and pops) is regenerated into Gen/Facts_C13.v on every run.  Leaves (which
# opaque call, its arguments) are abstracted to `Call`; generators marked (inlined) are translated inline at
# their `with` sites.  Kept in sync with what translate() actually emits by facts() (problem if they differ).
TRANSLATED_A = [
    'pyramid/request.py:CallbackMethodsMixin._process_response_callbacks',
    'pyramid/request.py:CallbackMethodsMixin._process_finished_callbacks',
    'pyramid/router.py:Router.finish_request',
    'pyramid/router.py:Router.invoke_request',
    'pyramid/router.py:Router.request_context',
    'pyramid/router.py:default_execution_policy',
    'pyramid/router.py:Router.__call__',
    'pyramid/router.py:Router.invoke_subrequest',
    'pyramid/threadlocal.py:RequestContext.begin',
    'pyramid/threadlocal.py:RequestContext.__enter__',
    'pyramid/threadlocal.py:RequestContext.end',
    'pyramid/threadlocal.py:RequestContext.__exit__',
    'pyramid/threadlocal.py:RequestContext.__init__',
    'pyramid/view.py:ViewMethodsMixin.invoke_exception_view',
    'pyramid/util.py:hide_attrs',                                              # (inlined)
    'pyramid/tweens.py:_error_handler',
    'pyramid/tweens.py:excview_tween_factory.excview_tween',
    'pyramid/config/__init__.py:Configurator.__init__',
    'pyramid/config/__init__.py:Configurator.setup_registry',
    'pyramid/config/__init__.py:Configurator.begin',
    'pyramid/config/__init__.py:Configurator.end',
    'pyramid/config/__init__.py:Configurator.include',
    'pyramid/config/__init__.py:Configurator.make_wsgi_app',
    'pyramid/config/__init__.py:Configurator.__enter__',
    'pyramid/config/__init__.py:Configurator.__exit__',
    'pyramid/config/actions.py:ActionConfiguratorMixin.commit',
    'pyramid/config/actions.py:ActionConfiguratorMixin.action',
    'pyramid/config/routes.py:RoutesConfiguratorMixin.route_prefix_context',  # (inlined)
    'pyramid/scripting.py:get_root',
    'pyramid/scripting.py:get_root.closer',
    'pyramid/scripting.py:prepare',
    'pyramid/scripting.py:prepare.closer',
    'pyramid/scripting.py:AppEnvironment.__exit__',
    'pyramid/paster.py:bootstrap',
]

# what tools/coverage_map.py reads: the skeleton translations above plus the functions translated into the
# exception/state monad by translate_b.py
from harness.c13.translate_b import TRANSLATED_B as _TB     # noqa: E402
TRANSLATED = TRANSLATED_A + [t for t in _TB if t not in TRANSLATED_A]

# ---- marks (Definition mk_* in Facts) -----------------------------------
MARKS = {
    'invoke': 1,        # Router.invoke_request entered
    'handle': 2,        # handle_request(request) about to be called
    'handle_ret': 3,    # ... returned normally
    'respcb': 4,        # request._process_response_callbacks(response)
    'newresp': 5,       # notify(NewResponse(..)) about to be called
    'finish': 6,        # self.finish_request(request)
    'fincb': 7,         # request._process_finished_callbacks()
    'excview': 8,       # _call_view(.. IExceptionViewClassifier ..) inside invoke_exception_view
    'body': 9,          # the body of a synthesised `with` / the included callable / the action callable
    'rootfactory': 10,  # root factory call in scripting
}

R, T, Q, V, W, C, A, RO, S = ('pyramid/router.py', 'pyramid/threadlocal.py', 'pyramid/request.py',
                              'pyramid/view.py', 'pyramid/tweens.py', 'pyramid/config/__init__.py',
                              'pyramid/config/actions.py', 'pyramid/config/routes.py', 'pyramid/scripting.py')
U = 'pyramid/util.py'
PA = 'pyramid/paster.py'

# push sites: function containing a manager.push -> frame tag
PUSH_TAGS = {(T, 'RequestContext.begin'): 1, (V, 'ViewMethodsMixin.invoke_exception_view'): 2,
             (C, 'Configurator.begin'): 3}

RC = (T, 'RequestContext')
CFG_SCOPE = {
    'self.begin': ('proc', (C, 'Configurator.begin')),
    'self.end': ('proc', (C, 'Configurator.end')),
    'self.commit': ('proc', (A, 'ActionConfiguratorMixin.commit')),
}

# (rel, qual) -> {unparsed func expression: binding}
BIND = {
    (R, 'Router.__call__'): {'self.execution_policy': ('proc', (R, 'default_execution_policy'))},
    (R, 'default_execution_policy'): {
        'router.request_context': ('proc-cm', (R, 'Router.request_context'), RC),
        'router.invoke_request': ('proc', (R, 'Router.invoke_request'), 'invoke'),
    },
    (R, 'Router.request_context'): {'RequestContext': ('ctor', RC)},
    (R, 'Router.invoke_subrequest'): {
        'RequestContext': ('class-cm', RC),
        'self.invoke_request': ('proc', (R, 'Router.invoke_request'), 'invoke'),
    },
    (R, 'Router.invoke_request'): {
        # local aliases (`handle_request = self.handle_request`, `notify = registry.notify`) are resolved before the
        # lookup, so these keys are the aliased expressions, not the names of the locals
        'self.handle_request': ('opaque', 'handle', 'handle_ret'),
        'self.orig_handle_request': ('opaque', 'handle', 'handle_ret'),
        'request._process_response_callbacks': ('proc', (Q, 'CallbackMethodsMixin._process_response_callbacks'), 'respcb'),
        'self.registry.notify': ('opaque', 'newresp', None),
        'self.finish_request': ('proc', (R, 'Router.finish_request'), 'finish'),
    },
    (R, 'Router.finish_request'): {
        'request._process_finished_callbacks': ('proc', (Q, 'CallbackMethodsMixin._process_finished_callbacks'), 'fincb'),
    },
    (T, 'RequestContext.__enter__'): {'self.begin': ('proc', (T, 'RequestContext.begin'))},
    (T, 'RequestContext.__exit__'): {'self.end': ('proc', (T, 'RequestContext.end'))},
    (V, 'ViewMethodsMixin.invoke_exception_view'): {
        'hide_attrs': ('gen-cm', (U, 'hide_attrs')),
        '_call_view': ('opaque', 'excview', None),
    },
    (W, 'excview_tween_factory.excview_tween'): {'_error_handler': ('proc', (W, '_error_handler'))},
    (W, '_error_handler'): {
        'request.invoke_exception_view': ('proc', (V, 'ViewMethodsMixin.invoke_exception_view')),
    },
    (C, 'Configurator.__init__'): {'self.setup_registry': ('proc', (C, 'Configurator.setup_registry'))},
    (C, 'Configurator.setup_registry'): dict(CFG_SCOPE),
    (C, 'Configurator.__enter__'): dict(CFG_SCOPE),
    (C, 'Configurator.__exit__'): dict(CFG_SCOPE),
    (C, 'Configurator.make_wsgi_app'): dict(CFG_SCOPE, **{'self.registry.notify': ('opaque', 'body', None)}),
    (C, 'Configurator.include'): dict(CFG_SCOPE, **{
        'self.route_prefix_context': ('gen-cm', (RO, 'RoutesConfiguratorMixin.route_prefix_context')),
        'c': ('opaque', 'body', None),
    }),
    (A, 'ActionConfiguratorMixin.action'): dict(CFG_SCOPE, **{'callable': ('opaque', 'body', None)}),
    (A, 'ActionConfiguratorMixin.commit'): dict(
        CFG_SCOPE, **{'self.action_state.execute_actions': ('opaque', 'body', None)}),
    (RO, 'RoutesConfiguratorMixin.route_prefix_context'): dict(CFG_SCOPE),
    (S, 'get_root'): {
        'RequestContext': ('ctor', RC),
        'ctx.begin': ('proc', (T, 'RequestContext.begin')),
        'ctx.end': ('proc', (T, 'RequestContext.end')),
        'app.root_factory': ('opaque', 'rootfactory', None),
    },
    (S, 'get_root.closer'): {'ctx.end': ('proc', (T, 'RequestContext.end'))},
    (S, 'prepare'): {
        'RequestContext': ('ctor', RC),
        'ctx.begin': ('proc', (T, 'RequestContext.begin')),
        'ctx.end': ('proc', (T, 'RequestContext.end')),
        'root_factory': ('opaque', 'rootfactory', None),
    },
    (S, 'prepare.closer'): {
        'ctx.end': ('proc', (T, 'RequestContext.end')),
        'request._process_finished_callbacks': ('proc', (Q, 'CallbackMethodsMixin._process_finished_callbacks'), 'fincb'),
    },
    (S, 'AppEnvironment.__exit__'): {"self['closer']": ('proc', (S, 'prepare.closer'))},
    # pyramid.paster.bootstrap (outside the anchor files): get_app (opaque), then scripting.prepare
    (PA, 'bootstrap'): {'prepare': ('proc', (S, 'prepare'))},
}

# attribute / function names that denote scope operations: an unbound use is a problem
SUSPICIOUS = {'setup_registry', 'begin', 'end', '__enter__', '__exit__', 'commit', 'closer', 'invoke_request', 'invoke_subrequest',
              'finish_request', 'request_context', 'route_prefix_context', 'invoke_exception_view',
              '_error_handler', 'prepare', 'get_root', 'push', 'pop', 'set', 'clear', 'RequestContext',
              '_process_finished_callbacks', '_process_response_callbacks', 'hide_attrs'}
MANAGER_PUSH = {'manager.push', 'self.manager.push'}
MANAGER_POP = {'manager.pop', 'self.manager.pop'}
MANAGER_OK = {'manager.get', 'self.manager.get'}
# receivers on which .pop / .set / .clear / .end are ordinary container methods
# calls assumed never to raise (trusted, stated in NOTES): 3-argument getattr on a plain attribute,
# construction of the dict subclass AppEnvironment
PURE = {('getattr', 3), ('AppEnvironment', 0)}
BENIGN_RECV = {'request.__dict__', 'obj_vals', 'attrs', 'callbacks', 'saved_vals', 'action', 'kw', 'extra'}


# ---- statement constructors (with local simplification) ------------------
def Seq(*xs):
    xs = [x for x in xs if x != ('Skip',)]
    if not xs:
        return ('Skip',)
    r = xs[-1]
    for x in reversed(xs[:-1]):
        r = ('Seq', x, r)
    return r


def If(a, b):
    if a == b:
        return a
    return ('If', a, b)


def coq(st):
    k = st[0]
    if k in ('Skip', 'Pop', 'Call', 'Return', 'Raise'):
        return k
    if k == 'Push':
        return '(Push %d)' % st[1]
    if k == 'Mark':
        return '(Mark mk_%s)' % st[1]
    if k == 'Ref':
        return '(Scope %s)' % st[1]
    if k == 'TryExcept':
        return '(TryExcept %s %s %s)' % ('true' if st[1] else 'false', coq(st[2]), coq(st[3]))
    return '(%s %s)' % (k, ' '.join(coq(x) for x in st[1:]))


def pretty(st):
    k = st[0]
    if k in ('Skip', 'Pop', 'Call', 'Return', 'Raise'):
        return k.lower()
    if k == 'Push':
        return 'push%d' % st[1]
    if k == 'Mark':
        return '@' + st[1]
    if k == 'Ref':
        return st[1] + '()'
    if k == 'Seq':
        return pretty(st[1]) + '; ' + pretty(st[2])
    if k == 'TryFinally':
        return 'try{%s}finally{%s}' % (pretty(st[1]), pretty(st[2]))
    if k == 'TryExcept':
        return 'try{%s}except%s{%s}' % (pretty(st[2]), '*' if st[1] else '?', pretty(st[3]))
    if k == 'If':
        return 'if{%s}else{%s}' % (pretty(st[1]), pretty(st[2]))
    if k == 'Loop':
        return 'loop{%s}' % pretty(st[1])
    return repr(st)


def ident(key):
    import re
    q = re.sub('_+', '_', key[1].replace('.', '_')).strip('_')
    m = key[0].split('/')[-1].replace('.py', '')
    if m == '__init__':
        m = 'config'
    return 'p_%s_%s' % (m, q)


class Translator:
    def __init__(self, src):
        self.src = src
        self.problems = []
        self.mods = {}
        self.defs = []          # [(coq name, stmt, key)]
        self.done = {}          # key -> coq name
        self.stack = []
        self._line = None       # first line of the statement being translated
        self.opaque = {}        # key -> lines of statements that contain an opaque (may-raise) call
        self.inlined = set()    # generator context managers translated inline
        self._aliases = {}

    # -- plumbing
    def mod(self, rel):
        if rel not in self.mods:
            self.mods[rel] = F.Module(self.src, rel)
        return self.mods[rel]

    def node(self, key):
        try:
            n = self.mod(key[0]).find(key[1])
        except (OSError, SyntaxError) as e:
            self.problems.append('cannot parse %s: %s' % (key[0], e))
            return None
        if n is None:
            self.problems.append('translator: %s:%s no longer exists' % key)
        return n

    def bad(self, key, node, what):
        self.problems.append('translator: %s:%s line %s: %s' % (key[0], key[1], getattr(node, 'lineno', '?'), what))

    # -- local aliases: `x = <name/attribute chain>` (every assignment to x in the function of that form)
    def aliases(self, key):
        if key not in self._aliases:
            amap = {}
            fn = None
            try:
                fn = self.mod(key[0]).find(key[1])
            except (OSError, SyntaxError):
                pass
            if fn is not None:
                for n in self.own_nodes(fn):
                    if isinstance(n, ast.Assign) and len(n.targets) == 1 and isinstance(n.targets[0], ast.Name):
                        amap.setdefault(n.targets[0].id, []).append(n.value)
                    elif isinstance(n, (ast.For, ast.AugAssign, ast.With, ast.NamedExpr, ast.ExceptHandler)):
                        for t in ast.walk(n):
                            if isinstance(t, ast.Name) and isinstance(t.ctx, ast.Store):
                                amap.setdefault(t.id, []).append(None)
                    elif isinstance(n, ast.ExceptHandler) and n.name:
                        amap.setdefault(n.name, []).append(None)

            def chain(v):
                while isinstance(v, ast.Attribute):
                    v = v.value
                return isinstance(v, ast.Name)
            self._aliases[key] = {k: [ast.unparse(v) for v in vs] for k, vs in amap.items()
                                  if all(v is not None and chain(v) for v in vs)}
        return self._aliases[key]

    def resolve(self, key, fname, depth=0):
        """the expressions a dotted name may denote once local aliases are substituted"""
        root, dot, rest = fname.partition('.')
        al = self.aliases(key).get(root)
        if not al or depth > 6 or not root.isidentifier():
            return {fname}
        out = set()
        for exp in al:
            out |= self.resolve(key, exp + dot + rest, depth + 1)
        return out

    def binding(self, key, fname):
        tab = BIND.get(key, {})
        if fname in tab:
            return tab[fname]
        bs = {tab.get(c) for c in self.resolve(key, fname)}
        if len(bs) == 1:
            return bs.pop()
        if bs - {None}:
            self.problems.append('translator: %s:%s: %s may denote differently bound expressions' % (key[0], key[1], fname))
        return None

    # -- procedures
    def proc(self, key):
        """Translate function `key` once; returns ('Ref', coqname)."""
        if key in self.done:
            return ('Ref', self.done[key])
        if key in self.stack:
            self.problems.append('translator: recursion through %s:%s' % key)
            return ('Call',)
        fn = self.node(key)
        name = ident(key)
        if fn is None or not isinstance(fn, ast.FunctionDef):
            self.done[key] = name
            self.defs.append((name, ('Call',), key))
            return ('Ref', name)
        self.stack.append(key)
        if any(isinstance(n, (ast.Yield, ast.YieldFrom)) for n in self.own_nodes(fn)):
            self.bad(key, fn, 'generator used as a plain procedure')
        body = self.block(key, fn.body, None)
        self.stack.pop()
        self.done[key] = name
        self.defs.append((name, body, key))
        return ('Ref', name)

    @staticmethod
    def own_nodes(fn):
        """nodes of fn excluding nested function/lambda bodies"""
        out = []
        todo = list(fn.body)
        while todo:
            n = todo.pop()
            out.append(n)
            for ch in ast.iter_child_nodes(n):
                if isinstance(ch, (ast.FunctionDef, ast.AsyncFunctionDef, ast.Lambda, ast.ClassDef)):
                    continue
                todo.append(ch)
        return out

    def class_cm(self, key_cls, item_ctor_calls):
        """enter / exit skeletons of a class based context manager"""
        for m in ('__enter__', '__exit__'):
            pass
        ex_key = (key_cls[0], key_cls[1] + '.__exit__')
        exn = self.node(ex_key)
        if exn is not None:
            for n in self.own_nodes(exn):
                if isinstance(n, ast.Return) and n.value is not None and not (
                        isinstance(n.value, ast.Constant) and n.value.value in (None, False)):
                    self.bad(ex_key, n, '__exit__ returns a value (could swallow exceptions)')
        return self.proc((key_cls[0], key_cls[1] + '.__enter__')), self.proc(ex_key)

    def ctor(self, key_cls):
        init = (key_cls[0], key_cls[1] + '.__init__')
        if self.mod(key_cls[0]).find(init[1]) is None:
            return ('Skip',)
        return self.proc(init)

    # -- generator based context manager, inlined with `body` in place of the yield
    def gen_inline(self, key, body_stmt):
        if key in self.stack:
            self.problems.append('translator: recursion through %s:%s' % key)
            return ('Call',)
        fn = self.node(key)
        if fn is None:
            return ('Call',)
        decs = [ast.unparse(d) for d in fn.decorator_list]
        if not any(d in ('contextmanager', 'contextlib.contextmanager') for d in decs):
            self.bad(key, fn, 'expected a @contextmanager generator')
        own = self.own_nodes(fn)
        ys = [n for n in own if isinstance(n, (ast.Yield, ast.YieldFrom))]
        if len(ys) != 1 or not isinstance(ys[0], ast.Yield):
            self.bad(key, fn, 'expected exactly one yield')
            return ('Call',)
        if any(isinstance(n, ast.Return) for n in own):
            self.bad(key, fn, 'return inside a context manager generator')
        self.stack.append(key)
        self.inlined.add(key)
        r = self.block(key, fn.body, ('tail', body_stmt))
        self.stack.pop()
        return r

    # -- blocks and statements
    def block(self, key, stmts, gen):
        """gen: None | ('tail', body) when the single yield must be the last statement of this block
        (or of a try body that is the last statement of this block)."""
        out = []
        for i, st in enumerate(stmts):
            last = (i == len(stmts) - 1)
            g = None
            if gen is not None and self.has_yield(st):
                if not last:
                    self.bad(key, st, 'statements follow the yield of a context manager')
                g = gen
            out.append(self.stmt(key, st, g))
        return Seq(*out)

    @staticmethod
    def has_yield(st):
        todo = [st]
        while todo:
            n = todo.pop()
            if isinstance(n, (ast.Yield, ast.YieldFrom)):
                return True
            for ch in ast.iter_child_nodes(n):
                if not isinstance(ch, (ast.FunctionDef, ast.Lambda, ast.ClassDef)):
                    todo.append(ch)
        return False

    def stmt(self, key, st, gen):
        prev, self._line = self._line, st.lineno
        try:
            return self._stmt(key, st, gen)
        finally:
            self._line = prev

    def _stmt(self, key, st, gen):
        E = lambda e: self.expr(key, e)
        if isinstance(st, ast.Expr) and isinstance(st.value, ast.Yield):
            if gen is None:
                self.bad(key, st, 'unexpected yield')
                return ('Call',)
            return Seq(E(st.value.value) if st.value.value is not None else ('Skip',), gen[1])
        if gen is not None and not isinstance(st, ast.Try):
            self.bad(key, st, 'yield in an unsupported position')
            return ('Call',)
        if isinstance(st, (ast.Expr, ast.Assign, ast.AugAssign, ast.AnnAssign, ast.Delete)):
            return Seq(*[E(ch) for ch in ast.iter_child_nodes(st) if isinstance(ch, ast.expr)])
        if isinstance(st, ast.Return):
            return Seq(E(st.value) if st.value is not None else ('Skip',), ('Return',))
        if isinstance(st, ast.Raise):
            return Seq(E(st.exc) if st.exc is not None else ('Skip',),
                       E(st.cause) if st.cause is not None else ('Skip',), ('Raise',))
        if isinstance(st, ast.Assert):
            return Seq(E(st.test), If(('Skip',), Seq(E(st.msg) if st.msg is not None else ('Skip',), ('Raise',))))
        if isinstance(st, ast.If):
            return Seq(E(st.test), If(self.block(key, st.body, None), self.block(key, st.orelse, None)))
        if isinstance(st, ast.While):
            if st.orelse:
                self.bad(key, st, 'while/else')
            t = E(st.test)
            return Seq(t, ('Loop', Seq(self.block(key, st.body, None), t)))
        if isinstance(st, ast.For):
            if st.orelse:
                self.bad(key, st, 'for/else')
            # the iteration protocol itself may raise
            return Seq(E(st.iter), ('Loop', Seq(If(('Raise',), ('Skip',)), self.block(key, st.body, None))))
        if isinstance(st, ast.Try):
            if st.orelse:
                self.bad(key, st, 'try/else')
            body = self.block(key, st.body, gen)
            if st.handlers:
                allh = False
                hs = []
                for h in st.handlers:
                    if h.type is None or (isinstance(h.type, ast.Name) and h.type.id == 'BaseException'):
                        allh = True
                    hs.append(Seq(E(h.type) if h.type is not None else ('Skip',), self.block(key, h.body, None)))
                hh = hs[-1]
                for x in reversed(hs[:-1]):
                    hh = If(x, hh)
                body = ('TryExcept', allh, body, hh)
            if st.finalbody:
                body = ('TryFinally', body, self.block(key, st.finalbody, None))
            return body
        if isinstance(st, ast.With):
            return self.with_(key, st, 0)
        if isinstance(st, (ast.FunctionDef,)):
            return Seq(*[E(d) for d in st.decorator_list])
        if isinstance(st, (ast.Pass, ast.Import, ast.ImportFrom, ast.Global, ast.Nonlocal)):
            return ('Skip',)
        self.bad(key, st, 'unsupported statement %s' % type(st).__name__)
        return ('Call',)

    def with_(self, key, st, i):
        if i == len(st.items):
            return self.block(key, st.body, None)
        item = st.items[i]
        inner = self.with_(key, st, i + 1)
        ce = item.context_expr
        if not isinstance(ce, ast.Call):
            self.bad(key, st, 'with over a non-call expression %s' % ast.unparse(ce))
            return Seq(('Call',), inner)
        fname = ast.unparse(ce.func)
        b = self.binding(key, fname)
        args = Seq(*[self.expr(key, a) for a in list(ce.args) + [k.value for k in ce.keywords]])
        if b is None or b[0] not in ('class-cm', 'proc-cm', 'gen-cm'):
            self.bad(key, st, 'unknown context manager %s' % fname)
            return Seq(args, ('Call',), inner)
        if b[0] == 'gen-cm':
            return Seq(args, self.gen_inline(b[1], inner))
        if b[0] == 'class-cm':
            en, ex = self.class_cm(b[1], None)
            return Seq(args, self.ctor(b[1]), en, ('TryFinally', inner, ex))
        # proc-cm: a method whose every return is `return <Class>(...)`
        pn = self.node(b[1])
        cname = b[2][1]
        if pn is not None:
            rets = [n for n in self.own_nodes(pn) if isinstance(n, ast.Return)]
            if not rets or not all(isinstance(r.value, ast.Call) and ast.unparse(r.value.func) == cname for r in rets):
                self.bad(b[1], pn, 'expected every return to be %s(...)' % cname)
        en, ex = self.class_cm(b[2], None)
        return Seq(args, self.proc(b[1]), en, ('TryFinally', inner, ex))

    # -- expressions: the calls they make, in evaluation order
    def expr(self, key, e):
        if e is None:
            return ('Skip',)
        if isinstance(e, ast.Call):
            parts = [self.expr(key, e.func)] + [self.expr(key, a) for a in e.args] + \
                    [self.expr(key, k.value) for k in e.keywords]
            return Seq(*(parts + [self.call(key, e)]))
        if isinstance(e, ast.BoolOp):
            r = self.expr(key, e.values[-1])
            for v in reversed(e.values[:-1]):
                r = Seq(self.expr(key, v), If(r, ('Skip',)))
            return r
        if isinstance(e, ast.IfExp):
            return Seq(self.expr(key, e.test), If(self.expr(key, e.body), self.expr(key, e.orelse)))
        if isinstance(e, ast.Lambda):
            return ('Skip',)
        if isinstance(e, (ast.ListComp, ast.SetComp, ast.GeneratorExp, ast.DictComp)):
            first = self.expr(key, e.generators[0].iter)
            rest = []
            for gi, g in enumerate(e.generators):
                if gi:
                    rest.append(self.expr(key, g.iter))
                rest += [self.expr(key, c) for c in g.ifs]
            if isinstance(e, ast.DictComp):
                rest += [self.expr(key, e.key), self.expr(key, e.value)]
            else:
                rest.append(self.expr(key, e.elt))
            return Seq(first, ('Loop', Seq(*rest)))
        if isinstance(e, (ast.Yield, ast.YieldFrom, ast.Await)):
            self.bad(key, e, 'yield/await inside an expression')
            return ('Call',)
        return Seq(*[self.expr(key, ch) for ch in ast.iter_child_nodes(e) if isinstance(ch, ast.expr)])

    def call(self, key, e):
        r = self._call(key, e)
        if 'Call' in repr(r) and self._line is not None:
            self.opaque.setdefault(key, set()).add(self._line)
        return r

    def _call(self, key, e):
        fname = ast.unparse(e.func)
        if fname in MANAGER_PUSH:
            tag = PUSH_TAGS.get(key)
            if tag is None:
                self.bad(key, e, 'push at a site without a frame tag')
                tag = 99
            return ('Push', tag)
        if fname in MANAGER_POP:
            return ('Pop',)
        if fname in MANAGER_OK:
            return ('Call',)
        if (fname, len(e.args)) in PURE:
            return ('Skip',)
        b = self.binding(key, fname)
        if b is not None:
            if b[0] == 'proc':
                body = self.proc(b[1])
                return Seq(('Mark', b[2]), body) if len(b) > 2 and b[2] else body
            if b[0] == 'ctor':
                return self.ctor(b[1])
            if b[0] == 'opaque':
                if b[1] == 'newresp':
                    # only the NewResponse notification is marked
                    a0 = e.args[0] if e.args else None
                    if not (isinstance(a0, ast.Call) and ast.unparse(a0.func) == 'NewResponse'):
                        return ('Call',)
                return Seq(('Mark', b[1]), ('Call',), ('Mark', b[2]) if b[2] else ('Skip',))
            self.bad(key, e, '%s is bound as a context manager but called directly' % fname)
            return ('Call',)
        for fname in sorted({fname} | self.resolve(key, fname)):
            last = fname.split('.')[-1].split('[')[0]
            recv = fname.rsplit('.', 1)[0] if '.' in fname else ''
            if 'manager' in fname.split('.')[:-1] or fname.startswith('manager'):
                self.bad(key, e, 'unrecognised use of the thread-local manager: %s' % fname)
            elif last in SUSPICIOUS and recv not in BENIGN_RECV:
                self.bad(key, e, 'scope-like call %s is not bound to a definition' % fname)
        return ('Call',)


# ---- programs ------------------------------------------------------------
def programs(tr):
    """name -> stmt ; every program is the Scope of a translated function or a synthesised `with`."""
    P = {}
    body = Seq(('Mark', 'body'), ('Call',))
    P['prog_wsgi_call'] = tr.proc((R, 'Router.__call__'))
    P['prog_execution_policy'] = tr.proc((R, 'default_execution_policy'))
    P['prog_invoke_request'] = tr.proc((R, 'Router.invoke_request'))
    P['prog_subrequest'] = tr.proc((R, 'Router.invoke_subrequest'))
    P['prog_exception_view'] = tr.proc((V, 'ViewMethodsMixin.invoke_exception_view'))
    P['prog_excview_tween'] = tr.proc((W, 'excview_tween_factory.excview_tween'))
    # manual form documented in Router.request_context: ctx.begin(); try: ... finally: ctx.end()
    P['prog_request_context_manual'] = Seq(tr.proc((T, 'RequestContext.begin')),
                                           ('TryFinally', body, tr.proc((T, 'RequestContext.end'))))
    P['prog_cfg_init'] = tr.proc((C, 'Configurator.__init__'))
    P['prog_cfg_begin'] = tr.proc((C, 'Configurator.begin'))
    P['prog_cfg_end'] = tr.proc((C, 'Configurator.end'))
    P['prog_cfg_commit'] = tr.proc((A, 'ActionConfiguratorMixin.commit'))
    P['prog_cfg_action'] = tr.proc((A, 'ActionConfiguratorMixin.action'))
    P['prog_cfg_include'] = tr.proc((C, 'Configurator.include'))
    P['prog_cfg_make_wsgi_app'] = tr.proc((C, 'Configurator.make_wsgi_app'))
    P['prog_cfg_route_prefix'] = tr.gen_inline((RO, 'RoutesConfiguratorMixin.route_prefix_context'), body)
    en, ex = tr.class_cm((C, 'Configurator'), None)
    P['prog_cfg_with'] = Seq(en, ('TryFinally', body, ex))
    P['prog_get_root'] = tr.proc((S, 'get_root'))
    P['prog_get_root_closer'] = tr.proc((S, 'get_root.closer'))
    P['prog_prepare'] = tr.proc((S, 'prepare'))
    P['prog_prepare_closer'] = tr.proc((S, 'prepare.closer'))
    # `with prepare(..) as env: body`  (AppEnvironment.__enter__ returns self)
    P['prog_prepare_with'] = Seq(tr.proc((S, 'prepare')),
                                 ('TryFinally', body, tr.proc((S, 'AppEnvironment.__exit__'))))
    # `with bootstrap(ini) as env: body` -- what bootstrap returns is the AppEnvironment of prepare (fact
    # bootstrap_returns_env in prop.py)
    P['prog_bootstrap'] = tr.proc((PA, 'bootstrap'))
    P['prog_bootstrap_with'] = Seq(tr.proc((PA, 'bootstrap')),
                                   ('TryFinally', body, tr.proc((S, 'AppEnvironment.__exit__'))))
    return P


def translate(src):
    tr = Translator(src)
    P = programs(tr)
    lines = ['Require Import Verif.Lib.C13Bracket.', '']
    for k, v in sorted(MARKS.items(), key=lambda kv: kv[1]):
        lines.append('Definition mk_%s : N := %d%%N.' % (k, v))
    lines.append('Definition tag_request_context : N := %d%%N.' % PUSH_TAGS[(T, 'RequestContext.begin')])
    lines.append('Definition tag_exception_view : N := %d%%N.' % PUSH_TAGS[(V, 'ViewMethodsMixin.invoke_exception_view')])
    lines.append('Definition tag_configurator : N := %d%%N.' % PUSH_TAGS[(C, 'Configurator.begin')])
    lines.append('')
    lines.append('Local Open Scope N_scope.')
    skel = {}
    for name, st, key in tr.defs:
        lines.append('(* %s:%s *)' % key)
        lines.append('Definition %s : stmt := %s.' % (name, coq(st)))
        skel['%s:%s' % key] = pretty(st)
    lines.append('')
    for name in sorted(P):
        lines.append('Definition %s : stmt := %s.' % (name, coq(P[name])))
    got = set(skel) | set('%s:%s' % k for k in tr.inlined)
    if got != set(TRANSLATED_A):
        tr.problems.append('translator: TRANSLATED_A is out of date: %s' % sorted(got ^ set(TRANSLATED_A)))
    return {'coq': '\n'.join(lines) + '\n', 'skeletons': skel, 'problems': tr.problems,
            'opaque_lines': {k: sorted(v) for k, v in tr.opaque.items()},
            'programs': {n: pretty(P[n]) for n in P}}
