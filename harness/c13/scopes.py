"""Scope cases of C13: the entry points whose skeletons part (a) analyses, run for real with one
injected failure; observation = [exit kind (0 return / 1 raise), frames popped from the caller's
stack, frames pushed and left behind]."""
# name -> (index on the wire, spec class)   classes: 0 balanced, 1 acquire (+1 on return, 0 on raise), 2 release (-1)
SCOPES = {
    'get_root': (0, 1), 'prepare': (1, 1), 'get_root_closer': (2, 2), 'prepare_closer': (3, 2),
    'prepare_with': (4, 0), 'cfg_commit': (5, 0), 'cfg_action': (6, 0), 'cfg_include': (7, 0),
    'cfg_make_wsgi_app': (8, 0), 'cfg_route_prefix': (9, 0), 'cfg_with': (10, 0),
    'exception_view': (11, 0), 'exception_view_reraise': (11, 0), 'subrequest': (12, 0), 'request_context_manual': (13, 0), 'wsgi_call': (14, 0),
    'cfg_init': (15, 0),
    # pyramid.paster.bootstrap with a real PasteDeploy ini file (the scripting environment as scripts get it)
    'bootstrap': (16, 1), 'bootstrap_closer': (3, 2), 'bootstrap_with': (17, 0),
}
# RE-ENTRANT use (site 'current'): the scope is opened while the very frame it is about to push -- the same request
# object and registry -- is already the current one (the harness pushes it on top of its sentinels), e.g.
# scripting.prepare(request=<the request being served>), invoke_subrequest(<the current request>), a nested
# RequestContext for the same request, a Configurator scope for the registry that is already current.
# 'view_<n>': the same nesting done for real from inside a running view, which then looks at the current
# request once more.
REENTRANT = ['redispatch', 'prepare', 'prepare_with', 'get_root', 'request_context', 'request_context_with',
             'exception_view', 'config_begin', 'config_with']
# where the single failure is injected, per scope (0 = nowhere)
SITES = {
    'get_root': ['none', 'root_factory', 'root_factory_base', 'current'],
    'prepare': ['none', 'root_factory', 'root_factory_base', 'extensions', 'current'],
    'get_root_closer': ['none'],
    'prepare_closer': ['none', 'finished_callback'],
    'prepare_with': ['none', 'body', 'finished_callback', 'root_factory', 'current'],
    'cfg_commit': ['none', 'action', 'conflict', 'current'],
    'cfg_action': ['none', 'callable', 'introspectable', 'current'],
    'cfg_include': ['none', 'callable', 'current', 'prefix_bytes', 'prefix_int', 'prefix_strsub', 'prefix_empty'],
    'cfg_make_wsgi_app': ['none', 'subscriber', 'action', 'tween_factory', 'conflict', 'current'],
    'cfg_route_prefix': ['none', 'body', 'current', 'prefix_bytes', 'prefix_int', 'prefix_strsub', 'prefix_empty',
                         'prefix_none'],
    'cfg_with': ['none', 'body', 'action', 'conflict', 'current'],
    'exception_view': ['none', 'view', 'view_base', 'mismatch', 'noview', 'current'],
    'exception_view_reraise': ['none', 'view', 'view_base', 'mismatch', 'noview', 'current'],
    'subrequest': ['none', 'view', 'current'] + ['view_' + n for n in REENTRANT],
    'request_context_manual': ['none', 'body', 'current'],
    'wsgi_call': ['none', 'view', 'request_factory', 'tween_reraise', 'tween_reraise_mismatch']
                 + ['view_' + n for n in REENTRANT],
    'cfg_init': ['none', 'root_factory_dotted'],
    'bootstrap': ['none', 'root_factory', 'root_factory_base', 'bad_ini', 'current'],
    'bootstrap_closer': ['none', 'finished_callback'],
    'bootstrap_with': ['none', 'body', 'finished_callback', 'root_factory', 'current'],
}


class Boom(Exception):
    pass


class BaseBoom(BaseException):
    pass


_INNER = []
_INJECT = [None]      # None | -1 (record only) | k (raise at the k-th injection point)
_EVENTS = []
_TARGETS = {}


class InjectedFault(Exception):
    pass


def _targets():
    """{rel file: {qualname: set(lines)}}: first lines of the statements of the translated functions that contain
    an opaque (may-raise) call -- derived from the same translation that produces the skeletons."""
    if not _TARGETS:
        import os
        import pyramid
        from harness.c13 import translate as TR
        src = os.path.dirname(os.path.dirname(os.path.abspath(pyramid.__file__)))
        for (rel, qual), lines in TR.translate(src)['opaque_lines'].items():
            _TARGETS.setdefault(rel, {})[qual] = set(lines)
    return _TARGETS


def _make_tracer(k):
    targets = _targets()
    cache = {}
    count = [0]

    def glob(frame, event, arg):
        code = frame.f_code
        ls = cache.get(code, 0)
        if ls == 0:
            ls = None
            fn = code.co_filename
            for rel, quals in targets.items():
                if fn.endswith(rel):
                    ls = quals.get(code.co_qualname.replace('.<locals>', ''))
                    break
            cache[code] = ls
        if ls is None:
            return None
        qual = code.co_qualname

        def local(frame, event, arg):
            if event == 'line' and frame.f_lineno in ls:
                i = count[0]
                count[0] += 1
                ctx = []
                f = frame.f_back
                while f is not None:
                    if cache.get(f.f_code):
                        ctx.append(f.f_code.co_name)
                    f = f.f_back
                _EVENTS.append('%s:%d<%s' % (qual, frame.f_lineno, '<'.join(ctx)))
                if i == k:
                    raise InjectedFault()
            return local
        return local
    return glob


def injection_sites(name, base='none'):
    """the injection points of scope `name` in the scenario `base` (a hand-written site, 'none' = healthy): the
    statements with an opaque call, inside translated functions, that the run executes, in order"""
    _INJECT[0] = -1
    try:
        run_scope(name, base)
    finally:
        _INJECT[0] = None
    # one site per distinct (statement, chain of translated callers): its first occurrence
    seen, out = set(), []
    for k, lab in enumerate(_EVENTS):
        if lab not in seen:
            seen.add(lab)
            out.append((k, lab))
    return out



def _see_request(request):
    from pyramid.threadlocal import get_current_request
    _INNER.append(1 if get_current_request() is request else 0)


def _see_registry(registry):
    from pyramid.threadlocal import get_current_registry
    _INNER.append(1 if get_current_registry() is registry else 0)


def _observe(fn, top=None):
    """top: a frame pushed above the sentinels before fn runs (re-entrant use: the frame the scope itself is about
    to push is already current); it belongs to the caller's stack like the sentinels"""
    from pyramid.threadlocal import manager
    del _INNER[:]
    sentinel = [{'request': None, 'registry': None, 'c13': i} for i in range(2)]
    if top is not None:
        sentinel.append(top)
    base = len(manager.stack)
    manager.stack.extend(sentinel)
    before = list(manager.stack)
    import sys
    del _EVENTS[:]
    try:
        try:
            if _INJECT[0] is not None:
                sys.settrace(_make_tracer(_INJECT[0]))
            try:
                fn()
            finally:
                sys.settrace(None)
            kind = 0
        except BaseException:
            kind = 1
        after = list(manager.stack)
    finally:
        del manager.stack[base:]
    common = 0
    while common < len(before) and common < len(after) and before[common] is after[common]:
        common += 1
    inner = 2 if not _INNER else (1 if all(_INNER) else 0)
    return [kind, len(before) - common, len(after) - common, inner]


def _config(root_factory=None):
    from pyramid.config import Configurator
    c = Configurator()
    if root_factory is not None:
        c.set_root_factory(root_factory)
    return c


def _rf(site):
    def root_factory(request):
        _see_request(request)
        if site == 'root_factory':
            raise Boom()
        if site == 'root_factory_base':
            raise BaseBoom()
        return object()
    return root_factory


def run_scope(name, site):
    if site.startswith('inj:'):
        # a failure injected (through the interpreter's tracing hook, no source change) at the k-th executed
        # statement that contains an opaque call, in the otherwise healthy scenario
        k, _, base = site[4:].partition('@')
        _INJECT[0] = int(k)
        try:
            return run_scope(name, base or 'none')
        finally:
            _INJECT[0] = None
    from pyramid import scripting
    from pyramid.request import Request
    from pyramid.response import Response
    if name in ('get_root', 'get_root_closer'):
        c = _config(_rf(site))
        app = c.make_wsgi_app()
        if name == 'get_root' and site == 'current':
            req = Request.blank('/')
            req.registry = app.registry
            return _observe(lambda: scripting.get_root(app, request=req), top=_frame(req))
        if name == 'get_root':
            return _observe(lambda: scripting.get_root(app))
        root, closer = scripting.get_root(app)
        from pyramid.threadlocal import manager
        manager.pop()                      # undo the acquisition: the closer is observed on its own
        return _observe(closer)
    if name in ('prepare', 'prepare_closer', 'prepare_with'):
        c = _config(_rf(site))
        if site == 'extensions':
            from pyramid.interfaces import IRequestExtensions

            class Ext:
                descriptors = {}

                @property
                def methods(self):
                    raise Boom()
            c.commit()
            c.registry.registerUtility(Ext(), IRequestExtensions)
        else:
            c.commit()
        reg = c.registry

        def cb(request):
            raise Boom()
        if site == 'current':
            # the request handed to prepare() is already the current one
            req = Request.blank('/')
            req.registry = reg
            if name == 'prepare':
                return _observe(lambda: scripting.prepare(request=req), top=_frame(req))

            def fcur():
                with scripting.prepare(request=req) as env:
                    _see_request(env['request'])
            return _observe(fcur, top=_frame(req))
        if name == 'prepare':
            return _observe(lambda: scripting.prepare(registry=reg))
        if name == 'prepare_closer':
            env = scripting.prepare(registry=reg)
            from pyramid.threadlocal import manager
            manager.pop()
            if site == 'finished_callback':
                env['request'].add_finished_callback(cb)
            return _observe(env['closer'])

        def f():
            with scripting.prepare(registry=reg) as env:
                if site == 'finished_callback':
                    env['request'].add_finished_callback(cb)
                if site == 'body':
                    raise Boom()
        return _observe(f)
    if name in ('bootstrap', 'bootstrap_closer', 'bootstrap_with'):
        from pyramid import paster
        _PASTE['site'] = site
        ini = _paste_ini() if site != 'bad_ini' else _paste_ini() + '.missing'

        def cb(request):
            raise Boom()
        kw = {}
        top = None
        if site == 'current':
            # the request handed to bootstrap() is already the current one
            app0 = paster.get_app(ini)
            req = Request.blank('/')
            req.registry = app0.registry
            kw = {'request': req}
            top = _frame(req)
        if name == 'bootstrap':
            return _observe(lambda: paster.bootstrap(ini, **kw), top=top)
        if name == 'bootstrap_closer':
            env = paster.bootstrap(ini)
            from pyramid.threadlocal import manager
            manager.pop()
            if site == 'finished_callback':
                env['request'].add_finished_callback(cb)
            return _observe(env['closer'])

        def fb():
            # the documented spelling: `with bootstrap('app.ini') as env:`
            with paster.bootstrap(ini, **kw) as env:
                _see_request(env['request'])
                if env.get('app') is None:
                    raise AssertionError('no app in the environment')
                if site == 'finished_callback':
                    env['request'].add_finished_callback(cb)
                if site == 'body':
                    raise Boom()
        return _observe(fb, top=top)
    if name == 'cfg_init':
        # Configurator(...) itself: __init__ -> setup_registry -> commit()
        from pyramid.config import Configurator
        if site == 'root_factory_dotted':
            return _observe(lambda: Configurator(root_factory='harness.c13.scopes.no_such_thing'))
        return _observe(lambda: Configurator())
    if name == 'cfg_commit':
        c = _config()

        def act():
            _see_registry(c.registry)
            if site == 'action':
                raise Boom()
        c.action(('c13', 1), act)
        if site == 'conflict':
            c.action(('c13', 1), lambda: None)
        return _observe(c.commit, top=_cfg_top(c, site))
    if name == 'cfg_action':
        from pyramid.config import Configurator
        c = Configurator(autocommit=True)

        def act():
            _see_registry(c.registry)
            if site == 'callable':
                raise Boom()
        class BadIntr:
            def register(self, introspector, action_info):
                _see_registry(c.registry)
                raise Boom()
        intrs = (BadIntr(),) if site == 'introspectable' else ()
        return _observe(lambda: c.action(('c13', 2), act, introspectables=intrs), top=_cfg_top(c, site))
    if name == 'cfg_include':
        c = _config()

        _CUR['registry'] = c.registry
        if site.startswith('prefix_'):
            return _observe(lambda: c.include(_includeme_ok, route_prefix=_PREFIXES[site]))
        return _observe(lambda: c.include(_includeme_raise if site == 'callable' else _includeme_ok),
                        top=_cfg_top(c, site))
    if name == 'cfg_make_wsgi_app':
        from pyramid.events import ApplicationCreated
        c = _config()

        def sub(ev):
            _see_registry(c.registry)
            if site == 'subscriber':
                raise Boom()
        c.add_subscriber(sub, ApplicationCreated)

        def act():
            _see_registry(c.registry)
            if site == 'action':
                raise Boom()
        c.action(('c13', 3), act)
        if site == 'conflict':
            c.action(('c13', 3), lambda: None)
        if site == 'tween_factory':
            c.add_tween('harness.c13.scopes.bad_tween_factory')     # raises while Router builds the tween chain
        return _observe(c.make_wsgi_app, top=_cfg_top(c, site))
    if name == 'cfg_route_prefix':
        c = _config()

        prefix = _PREFIXES[site] if site.startswith('prefix_') else 'p'

        def f():
            with c.route_prefix_context(prefix):
                _see_registry(c.registry)
                if site == 'body':
                    raise Boom()
        return _observe(f, top=_cfg_top(c, site))
    if name == 'cfg_with':
        from pyramid.config import Configurator

        c0 = Configurator()

        def f():
            with c0 as c:
                def act():
                    _see_registry(c.registry)
                    if site == 'action':
                        raise Boom()
                c.action(('c13', 4), act)
                if site == 'conflict':
                    c.action(('c13', 4), lambda: None)
                _see_registry(c.registry)
                if site == 'body':
                    raise Boom()
        return _observe(f, top=_cfg_top(c0, site))
    if name in ('exception_view', 'exception_view_reraise'):
        # explicit request.invoke_exception_view(reraise=...): the view renders / raises an Exception /
        # raises a BaseException / is rejected by its predicate (PredicateMismatch) / does not exist
        c = _config()
        c.add_view_predicate('c13no', _NoPred)

        def ev(exc, request):
            _see_request(request)
            if site == 'view':
                raise Boom()
            if site == 'view_base':
                raise BaseBoom()
            return Response('x')
        if site == 'mismatch':
            c.add_exception_view(ev, context=Boom, c13no=True)
        elif site != 'noview':
            c.add_exception_view(ev, context=Boom)
        c.commit()
        req = Request.blank('/')
        req.registry = c.registry
        reraise = (name == 'exception_view_reraise')

        def f():
            try:
                raise Boom()
            except Boom:
                req.invoke_exception_view(reraise=reraise)
        return _observe(f, top=_frame(req) if site == 'current' else None)
    if name in ('subrequest', 'wsgi_call', 'request_context_manual'):
        c = _config()

        def v(request):
            _see_request(request)
            if site in ('view', 'tween_reraise', 'tween_reraise_mismatch'):
                raise Boom()
            if site.startswith('view_') and not request.environ.get('c13.nested'):
                request.environ['c13.nested'] = 1
                _nested(site[5:], request, app_box[0])
                _see_request(request)       # the rest of the view: its request must be the current one again
            return Response('x')
        c.add_view(v)
        app_box = [None]
        if site == 'request_factory':
            def rf(environ):
                raise Boom()
            c.set_request_factory(rf)
        if site in ('tween_reraise', 'tween_reraise_mismatch'):
            # a tween over the excview tween that renders failures itself with reraise=True, while the
            # only exception view raises (or is rejected by its predicate)
            from pyramid.tweens import EXCVIEW
            c.add_view_predicate('c13no', _NoPred)

            def ev2(exc, request):
                raise Boom()
            if site == 'tween_reraise':
                c.add_exception_view(ev2, context=Exception)
            else:
                c.add_exception_view(ev2, context=Exception, c13no=True)
            c.add_tween('harness.c13.scopes.reraise_tween_factory', over=EXCVIEW)
        app = app_box[0] = c.make_wsgi_app()
        if name == 'subrequest' and site == 'current':
            # "internal forward" of a request that is already the current one
            req = Request.blank('/')
            req.registry = app.registry
            return _observe(lambda: app.invoke_subrequest(req), top=_frame(req))
        if name == 'subrequest':
            return _observe(lambda: app.invoke_subrequest(Request.blank('/')))
        if name == 'wsgi_call':
            return _observe(lambda: app(Request.blank('/').environ, lambda *a, **k: None))

        if site == 'current':
            from pyramid.threadlocal import RequestContext
            req = Request.blank('/')
            req.registry = app.registry

            def fcur():
                ctx = RequestContext(req)
                ctx.begin()
                try:
                    _see_request(req)
                finally:
                    ctx.end()
            return _observe(fcur, top=_frame(req))

        def f():
            ctx = app.request_context(Request.blank('/').environ)
            ctx.begin()
            try:
                _see_request(ctx.request)
                if site == 'body':
                    raise Boom()
            finally:
                ctx.end()
        return _observe(f)
    raise KeyError(name)


_CUR = {}
_PASTE = {'site': 'none', 'ini': None}


def paste_app_factory(global_config, **settings):
    """PasteDeploy app factory named by the ini file of the bootstrap scopes"""
    from pyramid.response import Response
    c = _config(_rf(_PASTE['site']))
    c.add_view(lambda request: Response('x'))
    return c.make_wsgi_app()


def _paste_ini():
    if _PASTE['ini'] is None:
        import os
        import tempfile
        d = tempfile.mkdtemp(prefix='c13paste_')
        path = os.path.join(d, 'app.ini')
        with open(path, 'w') as f:
            f.write('[app:main]\nuse = call:harness.c13.scopes:paste_app_factory\n')
        _PASTE['ini'] = path
    return _PASTE['ini']


class _StrSub(str):
    pass


# route_prefix values: only str / None are documented; the others fail while the prefix is being composed
_PREFIXES = {'prefix_bytes': b'api', 'prefix_int': 7, 'prefix_strsub': _StrSub('/api/'), 'prefix_empty': '',
             'prefix_none': None}


def _frame(request):
    """the frame RequestContext(request).begin() pushes"""
    return {'registry': request.registry, 'request': request}


def _cfg_top(config, site):
    """the frame Configurator.begin() pushes when nothing else is current"""
    return {'registry': config.registry, 'request': None} if site == 'current' else None


def _nested(how, request, app):
    """from inside a running view: open (and close) a second scope for the request that is being served"""
    from pyramid import scripting
    from pyramid.threadlocal import RequestContext
    if how == 'redispatch':
        request.invoke_subrequest(request)
    elif how == 'prepare':
        env = scripting.prepare(request=request)
        _see_request(request)
        env['closer']()
    elif how == 'prepare_with':
        with scripting.prepare(request=request):
            _see_request(request)
    elif how == 'get_root':
        root, closer = scripting.get_root(app, request=request)
        _see_request(request)
        closer()
    elif how == 'request_context':
        ctx = RequestContext(request)
        ctx.begin()
        try:
            _see_request(request)
        finally:
            ctx.end()
    elif how == 'request_context_with':
        with RequestContext(request) as r:
            _see_request(r)
    elif how == 'exception_view':
        try:
            raise Boom()
        except Boom:
            try:
                request.invoke_exception_view()
            except Exception:       # HTTPNotFound: no exception view is registered
                pass
    elif how in ('config_begin', 'config_with'):
        from pyramid.config import Configurator
        c = Configurator(registry=request.registry)
        if how == 'config_begin':
            c.begin()               # no request given: the current one is kept (1.8)
            try:
                _see_request(request)
            finally:
                c.end()
        else:
            with c:
                _see_request(request)
    else:
        raise KeyError(how)


class _NoPred:
    def __init__(self, val, info):
        pass

    def text(self):
        return 'c13no'
    phash = text

    def __call__(self, context, request):
        return False


def bad_tween_factory(handler, registry):
    raise Boom()


def reraise_tween_factory(handler, registry):
    def reraise_tween(request):
        try:
            return handler(request)
        except Exception:
            return request.invoke_exception_view(reraise=True)
    return reraise_tween


def _includeme_ok(config):
    _see_registry(_CUR['registry'])


def _includeme_raise(config):
    _see_registry(_CUR['registry'])
    raise Boom()
