"""Instrumented Pyramid application for the C13 fault-injection correspondence (public seams only).

Every component (tweens over/under the excview tween, subscribers, route predicate and factory, root
factory, traverser, view predicate, security policy, view, renderer, response/finished callbacks,
exception view) looks up the scenario of the request it is handling (environ['c13.scn']), appends
[point, level, depth, current-request-is-this, aux] to the log, registers callbacks if the scenario says
so, and then returns / raises as the scenario says.
"""
# points
T_OVER_IN, T_UNDER_IN, NEWREQ, ROUTE_PRED, ROUTE_FACTORY, BEFORE_TRAV, ROOT_FACTORY, TRAVERSER, CTX_FOUND, \
    VIEW_PRED, PERMITS, VIEW, RENDERER, T_UNDER_OUT, T_OVER_OUT, RESP_CB, NEWRESP, FIN_CB, EXCVIEW, EXCVIEW_HTTP = range(1, 21)
DEFAULT_VIEW = 21      # httpexceptions.default_exceptionresponse_view: not instrumented, seen only as the outcome
POINT_NAMES = {22: 'retry-marker', 1: 'tween-over-in', 2: 'tween-under-in', 3: 'NewRequest', 4: 'route-predicate', 5: 'route-factory',
               6: 'BeforeTraversal', 7: 'root-factory', 8: 'traverser', 9: 'ContextFound', 10: 'view-predicate',
               11: 'permission', 12: 'view', 13: 'renderer', 14: 'tween-under-out', 15: 'tween-over-out',
               16: 'response-callback', 17: 'NewResponse', 18: 'finished-callback', 19: 'exception-view',
               20: 'exception-view-http', 21: 'default-exceptionresponse-view'}
PLAIN, HTTP, PM, FALSE = 1, 2, 3, 4

import threading


class _State(threading.local):      # per-thread run state (the soak runs requests on 16 threads at once)
    def __init__(self):
        self.log = []
        self.base = 0


_T = _State()
_APPS = {}


class C13Plain(Exception):
    pass


class Root:
    __parent__ = None
    __name__ = ''


def _exc(kind):
    from pyramid.httpexceptions import HTTPBadRequest
    from pyramid.exceptions import PredicateMismatch
    if kind == PLAIN:
        return C13Plain('injected')
    if kind == HTTP:
        return HTTPBadRequest('injected')
    if kind == PM:
        return PredicateMismatch('injected')
    raise AssertionError(kind)


def exc_code(e):
    from pyramid.httpexceptions import HTTPBadRequest, HTTPForbidden, HTTPNotFound
    from pyramid.exceptions import PredicateMismatch
    if isinstance(e, C13Plain):
        return 1
    if isinstance(e, PredicateMismatch):
        return 3
    if isinstance(e, HTTPBadRequest):
        return 2
    if isinstance(e, HTTPForbidden):
        return 4
    if isinstance(e, HTTPNotFound):
        return 5
    return 9


def _scn(request):
    return request.environ['c13.scn'], request.environ['c13.level']


def _fault(scn, point, n=0):
    for f in scn['faults']:
        if f[0] == point and (point not in (RESP_CB, FIN_CB) or f[2] == n):
            return f[1]
    return 0


def _log(request, point, aux=0):
    from pyramid.threadlocal import manager, get_current_request
    scn, level = _scn(request)
    _T.log.append([point, level, len(manager.stack) - _T.base,
                      1 if get_current_request() is request else 0, aux])


def _make_resp_cb(origin):
    def cb(request, response):
        scn, level = _scn(request)
        n = request.environ['c13.nresp'] = request.environ.get('c13.nresp', -1) + 1
        hit(request, RESP_CB, aux=origin, n=n)
    return cb


def _make_fin_cb(origin):
    def cb(request):
        n = request.environ['c13.nfin'] = request.environ.get('c13.nfin', -1) + 1
        hit(request, FIN_CB, aux=origin, n=n)
    return cb


def hit(request, point, aux=0, n=0, may_false=False):
    """log, register, then fault.  Returns False for a FALSE fault when may_false, else True."""
    scn, level = _scn(request)
    _log(request, point, aux)
    for r in scn['regs']:
        # a registration made by a callback belongs to the r[2]-th callback of that kind to run
        if r[0] == point and (point not in (RESP_CB, FIN_CB) or r[2] == n):
            if r[1] & 1:
                request.add_response_callback(_make_resp_cb(point))
            if r[1] & 2:
                request.add_finished_callback(_make_fin_cb(point))
    k = _fault(scn, point, n)
    if k == FALSE:
        if may_false:
            return False
        return True
    if k:
        raise _exc(k)
    return True


# ---- components
def over_tween_factory(handler, registry):
    def over_tween(request):
        hit(request, T_OVER_IN)
        response = handler(request)
        scn, level = _scn(request)
        sub = scn.get('sub')
        if sub and sub.get('place', 0) == 1:
            # a subrequest started from a TWEEN, on egress (fresh request object, one level deeper)
            sr = make_request(sub['scn'], level + 1, type(request))
            request.invoke_subrequest(sr, use_tweens=bool(sub['tweens']))
        hit(request, T_OVER_OUT)
        return response
    return over_tween


def under_tween_factory(handler, registry):
    def under_tween(request):
        hit(request, T_UNDER_IN)
        response = handler(request)
        hit(request, T_UNDER_OUT)
        return response
    return under_tween


def _subscriber(point):
    def sub(event):
        hit(event.request, point)
    return sub


class RoutePred:
    def __init__(self, val, info):
        self.val = val

    def text(self):
        return 'c13'
    phash = text

    def __call__(self, info, request):
        return hit(request, ROUTE_PRED, may_false=True)


class ViewPred:
    def __init__(self, val, info):
        self.val = val

    def text(self):
        return 'c13v'
    phash = text

    def __call__(self, context, request):
        return hit(request, VIEW_PRED, may_false=True)


def route_factory(request):
    hit(request, ROUTE_FACTORY)
    return Root()


def root_factory(request):
    hit(request, ROOT_FACTORY)
    return Root()


class Traverser:
    def __init__(self, root):
        self.root = root

    def __call__(self, request):
        hit(request, TRAVERSER)
        return {'context': self.root, 'view_name': '', 'subpath': (), 'traversed': (), 'virtual_root': self.root,
                'virtual_root_path': (), 'root': self.root}


class Policy:
    def identity(self, request):
        return None

    def authenticated_userid(self, request):
        return None

    def permits(self, request, context, permission):
        from pyramid.security import Allowed, Denied
        if not hit(request, PERMITS, may_false=True):
            return Denied('injected')
        return Allowed('ok')

    def remember(self, request, userid, **kw):
        return []

    def forget(self, request, **kw):
        return []


def view(context, request):
    scn, level = _scn(request)
    _log(request, VIEW)
    for r in scn['regs']:
        if r[0] == VIEW:
            if r[1] & 1:
                request.add_response_callback(_make_resp_cb(VIEW))
            if r[1] & 2:
                request.add_finished_callback(_make_fin_cb(VIEW))
    hook = request.environ.get('c13.hook')
    if hook is not None and level == 0:
        hook()                          # interleaving cases: another thread serves a request meanwhile
        _log(request, VIEW, aux=2)      # probe: still this request's frame, same depth
    sub = scn.get('sub')
    if sub and sub.get('place', 0) == 0:
        sr = make_request(sub['scn'], level + 1, type(request))
        request.invoke_subrequest(sr, use_tweens=bool(sub['tweens']))
        _log(request, VIEW, aux=1)      # back in the parent view
    k = _fault(scn, VIEW)
    if k and k != FALSE:
        raise _exc(k)
    return {'src': VIEW}


def renderer_factory(info):
    def render(value, system):
        request = system['request']
        hit(request, RENDERER)
        request.response.headers['X-C13-Src'] = str(value['src'])
        return 'ok'
    return render


def excview(exc, request):
    from pyramid.response import Response
    hit(request, EXCVIEW)
    r = Response('handled')
    r.headers['X-C13-Src'] = str(EXCVIEW)
    return r


def excview_http(exc, request):
    from pyramid.response import Response
    hit(request, EXCVIEW_HTTP)
    r = Response('handled-http')
    r.headers['X-C13-Src'] = str(EXCVIEW_HTTP)
    return r


def make_request(scn, level, cls=None):
    from pyramid.request import Request
    cls = cls or Request
    r = cls.blank('/r/x' if scn['route'] else '/t')
    r.environ['c13.scn'] = scn
    r.environ['c13.level'] = level
    return r


P_RETRY = 22


def retry_policy(environ, router):
    """a custom IExecutionPolicy that sends the SAME request object through router.invoke_request a second time
    inside one request context: after a failure (mode 0) or always (mode 1); the scenario of the second attempt
    is swapped in first"""
    with router.request_context(environ) as request:
        plan = environ['c13.retry']
        try:
            response = router.invoke_request(request)
            if not plan['mode']:
                return response
        except Exception:
            pass
        _log(request, P_RETRY)
        request.environ['c13.scn'] = plan['scn2']
        return router.invoke_request(request)


def build_app(mask, retry=False):
    """mask: bit 0 exception view for Exception, bit 1 exception view for HTTPException,
    bit 2 the default exceptionresponse view stays enabled, bit 3 the event subscribers are registered (and
    committed) only AFTER make_wsgi_app() built the router from a registry without any subscriber,
    bit 4 HISTORY on the long-lived registry before any request is served: a temporary probe handler and a
    temporary subscription adapter are registered and removed again through the registry's own API
    (registerHandler / unregisterHandler, registerSubscriptionAdapter / unregisterSubscriptionAdapter), a handler
    that was never registered is unregistered, and a subscriber added through the Configurator is removed --
    the permanent subscribers must keep firing"""
    from pyramid.config import Configurator
    from pyramid.httpexceptions import HTTPException
    from pyramid.events import NewRequest, BeforeTraversal, ContextFound, NewResponse
    from pyramid.tweens import EXCVIEW as EXCVIEW_TWEEN
    config = Configurator() if mask & 4 else Configurator(exceptionresponse_view=None)
    config.set_security_policy(Policy())
    if retry:
        config.set_execution_policy(retry_policy)
    config.add_route_predicate('c13', RoutePred)
    config.add_view_predicate('c13v', ViewPred)
    config.add_route('r', '/r/*rest', factory=route_factory, c13=True, use_global_views=True)
    config.set_root_factory(root_factory)
    config.add_traverser(Traverser, Root)
    config.add_renderer('c13r', renderer_factory)
    config.add_view(view, context=Root, renderer='c13r', permission='p', c13v=True)
    def subscribe():
        config.add_subscriber(_subscriber(NEWREQ), NewRequest)
        config.add_subscriber(_subscriber(BEFORE_TRAV), BeforeTraversal)
        config.add_subscriber(_subscriber(CTX_FOUND), ContextFound)
        config.add_subscriber(_subscriber(NEWRESP), NewResponse)
    if not mask & 8:
        subscribe()
    config.add_tween('harness.c13.app.over_tween_factory', over=EXCVIEW_TWEEN)
    config.add_tween('harness.c13.app.under_tween_factory', under=EXCVIEW_TWEEN)
    if mask & 1:
        config.add_exception_view(excview, context=Exception)
    if mask & 2:
        config.add_exception_view(excview_http, context=HTTPException)
    app = config.make_wsgi_app()
    if mask & 8:
        subscribe()
        config.commit()
    if mask & 16:
        from zope.interface import Interface
        from pyramid.interfaces import INewRequest, INewResponse, IApplicationCreated
        reg = app.registry

        def probe(event):
            raise AssertionError('removed probe called')

        def never(event):
            raise AssertionError('never registered')

        class _IProbe(Interface):
            pass
        reg.registerHandler(probe, (INewRequest,))
        assert reg.unregisterHandler(probe, (INewRequest,)) is True
        assert reg.unregisterHandler(never, (INewResponse,)) is False
        reg.registerSubscriptionAdapter(lambda ev: None, (IApplicationCreated,), _IProbe)
        reg.unregisterSubscriptionAdapter(required=(IApplicationCreated,), provided=_IProbe)
        before = set(id(h.handler) for h in reg.registeredHandlers())
        config.add_subscriber(probe, INewResponse)
        config.commit()
        added = [h for h in reg.registeredHandlers() if id(h.handler) not in before]
        assert len(added) == 1
        assert reg.unregisterHandler(added[0].handler, added[0].required) is True
    return app


def get_app(mask, retry=False):
    k = (int(mask) & 31, bool(retry))
    if k not in _APPS:
        _APPS[k] = build_app(k[0], retry)
    return _APPS[k]


def run_request(case, hook=None):
    """-> [outcome, final depth (relative), log]"""
    from pyramid.threadlocal import manager
    retry = case.get('t') == 'retry'
    app = get_app(case['excview'], retry)
    base = len(manager.stack)
    _T.log = []
    _T.base = base
    req = make_request(case['scn'], 0)
    if hook is not None:
        req.environ['c13.hook'] = hook
    if retry:
        req.environ['c13.retry'] = {'mode': case['mode'], 'scn2': case['scn2']}
    status = []
    try:
        try:
            body = app(req.environ, lambda s, h, exc_info=None: status.append((s, dict(h))))
            list(body)
            src = int(status[0][1].get('X-C13-Src', str(DEFAULT_VIEW)))
            outcome = ['resp', src]
        except Exception as e:
            outcome = ['exc', exc_code(e)]
        depth = len(manager.stack) - base
    finally:
        del manager.stack[base:]
    return [outcome, depth, _T.log]
