"""Python ast -> exception/state monad (coq/Lib/C13Monad.v) translator for the router functions the pipeline
interpreter of C13 part (b) follows.  Fail-closed: an unsupported statement form, an unknown leaf, a `return`
that is not in tail position, a name bound in a way the tables do not foresee => Problem (the run then uses
the stored reference translation gen_fallback_b.v, reports the tie as broken and searches for a failing input).

Regenerated on every run (control flow): sequencing, if/else (on a boolean parameter or on the truth of a
primitive), `a and f()`, try/finally, try/except (typed handlers, `as` names), `with` over the class based
context manager RequestContext (enter; try body finally exit), while loops over a deque (fuelled), tail
returns, local aliases (`notify = registry.notify`), value flow of call results (`response`).
Hand-written and trusted (small): PRIM -- which source expression is which field of Lib/C13Monad.prims (leaves).
"""
import ast

from harness.common import facts as F

R, T, Q, W = 'pyramid/router.py', 'pyramid/threadlocal.py', 'pyramid/request.py', 'pyramid/tweens.py'
V, U = 'pyramid/view.py', 'pyramid/util.py'
RC = 'RequestContext'

# order = emission order (callees first)
FUNCS = [
    (Q, 'CallbackMethodsMixin._process_response_callbacks'),
    (Q, 'CallbackMethodsMixin._process_finished_callbacks'),
    (R, 'Router.finish_request'),
    (R, 'Router.invoke_request'),
    (T, 'RequestContext.begin'),
    (T, 'RequestContext.end'),
    (T, 'RequestContext.__enter__'),
    (T, 'RequestContext.__exit__'),
    (R, 'Router.request_context'),
    (R, 'default_execution_policy'),
    (R, 'Router.invoke_subrequest'),
    (R, 'Router.handle_request'),
    (V, 'ViewMethodsMixin.invoke_exception_view'),
    (W, '_error_handler'),
    (W, 'excview_tween_factory.excview_tween'),
]
INLINED = [(U, 'hide_attrs')]          # generator context manager, translated inline at its `with`
TRANSLATED_B = ['%s:%s' % k for k in FUNCS + INLINED]

NAMES = {
    (Q, 'CallbackMethodsMixin._process_response_callbacks'): 'gen_process_response_callbacks',
    (Q, 'CallbackMethodsMixin._process_finished_callbacks'): 'gen_process_finished_callbacks',
    (R, 'Router.finish_request'): 'gen_finish_request',
    (R, 'Router.invoke_request'): 'gen_invoke_request',
    (T, 'RequestContext.begin'): 'gen_rc_begin',
    (T, 'RequestContext.end'): 'gen_rc_end',
    (T, 'RequestContext.__enter__'): 'gen_rc_enter',
    (T, 'RequestContext.__exit__'): 'gen_rc_exit',
    (R, 'Router.request_context'): 'gen_request_context',
    (R, 'default_execution_policy'): 'gen_default_execution_policy',
    (R, 'Router.invoke_subrequest'): 'gen_invoke_subrequest',
    (R, 'Router.handle_request'): 'gen_handle_request',
    (V, 'ViewMethodsMixin.invoke_exception_view'): 'gen_invoke_exception_view',
    (W, '_error_handler'): 'gen_error_handler',
    (W, 'excview_tween_factory.excview_tween'): 'gen_excview_tween',
}

# Coq parameters of a generated function besides P: python parameter -> ('bool'|'val', coq name)
PARAMS = {
    (R, 'Router.invoke_request'): [('_use_tweens', 'bool', 'tw')],
    (R, 'Router.invoke_subrequest'): [('use_tweens', 'bool', 'tw')],
    (W, '_error_handler'): [('exc', 'val', 'exc')],
    (V, 'ViewMethodsMixin.invoke_exception_view'): [('exc_info', 'val', 'exc'), ('reraise', 'bool', 'reraise')],
}

SETUP = ('prim', 'p_setup P')
ROUTER_GLUE = {'truth': {'self.request_extensions is not None': 'p_has_extensions P'},
               'calls': {'apply_request_extensions': SETUP, 'self.request_factory': SETUP,
                         'RequestContext': ('pure',)}}
# per function: canonical source expression -> leaf
PRIM = {
    (Q, 'CallbackMethodsMixin._process_response_callbacks'): {
        'truth': {'self.response_callbacks': 'p_resp_pending P'},
        'fuel': {'self.response_callbacks': 'p_resp_fuel P'},
        'calls': {'self.response_callbacks.popleft': ('prim', 'p_resp_popleft P')},
        'callvar': {'p_resp_popleft P': 'p_resp_call P'},
    },
    (Q, 'CallbackMethodsMixin._process_finished_callbacks'): {
        'truth': {'self.finished_callbacks': 'p_fin_pending P'},
        'fuel': {'self.finished_callbacks': 'p_fin_fuel P'},
        'calls': {'self.finished_callbacks.popleft': ('prim', 'p_fin_popleft P')},
        'callvar': {'p_fin_popleft P': 'p_fin_call P'},
    },
    (R, 'Router.finish_request'): {
        'truth': {'request.finished_callbacks': 'p_fin_pending P'},
        'calls': {'request._process_finished_callbacks': ('proc', (Q, 'CallbackMethodsMixin._process_finished_callbacks')),
                  'request.__dict__.pop': ('pure',)},
    },
    (R, 'Router.invoke_request'): {
        'truth': {'request.response_callbacks': 'p_resp_pending P',
                  'self.registry.has_listeners': 'p_has_listeners P'},
        'calls': {'self.handle_request': ('prim', 'p_handle_tweens P'),
                  'self.orig_handle_request': ('prim', 'p_handle_orig P'),
                  'request._process_response_callbacks':
                      ('proc', (Q, 'CallbackMethodsMixin._process_response_callbacks')),
                  'self.registry.notify': ('notify', 'NewResponse', 'p_notify_newresponse P'),
                  'NewResponse': ('pure',),
                  'self.finish_request': ('proc', (R, 'Router.finish_request'))},
    },
    (T, 'RequestContext.begin'): {'calls': {'manager.push': ('prim', 'p_push P')}},
    (T, 'RequestContext.end'): {'calls': {'manager.pop': ('prim', 'p_pop P')}},
    (T, 'RequestContext.__enter__'): {'calls': {'self.begin': ('proc', (T, 'RequestContext.begin')),
                                                'manager.push': ('prim', 'p_push P')}},
    (T, 'RequestContext.__exit__'): {'calls': {'self.end': ('proc', (T, 'RequestContext.end')),
                                               'manager.pop': ('prim', 'p_pop P')}},
    (R, 'Router.request_context'): ROUTER_GLUE,
    (R, 'default_execution_policy'): {
        'calls': {'router.request_context': ('cm-proc', (R, 'Router.request_context')),
                  'router.invoke_request': ('proc', (R, 'Router.invoke_request'))},
    },
    (R, 'Router.invoke_subrequest'): {
        'truth': ROUTER_GLUE['truth'],
        'calls': dict(ROUTER_GLUE['calls'], **{
            'RequestContext': ('cm-class',),
            'self.invoke_request': ('proc', (R, 'Router.invoke_request'))}),
    },
    (W, '_error_handler'): {
        'calls': {'sys.exc_info': ('pure',),
                  'request.invoke_exception_view': ('proc', (V, 'ViewMethodsMixin.invoke_exception_view')),
                  'reraise': ('raise', 'exc')},
        # the exc_info triple obtained in the handler stands for the exception being handled (parameter exc)
        'as_val': {'exc_info': 'exc'},
        'exc_types': {'HTTPNotFound': 'p_is_notfound P'},
    },
    (R, 'Router.handle_request'): {
        'truth': {'self.registry.has_listeners': 'p_has_listeners P', "request.__dict__['registry'].has_listeners":
                  'p_has_listeners P', 'self.routes_mapper is not None': 'p_has_mapper P'},
        'calls': {"request.__dict__['registry'].notify": ('notify', {'NewRequest': 'p_notify_newrequest P',
                                                                    'BeforeTraversal': 'p_notify_beforetraversal P',
                                                                    'ContextFound': 'p_notify_contextfound P'}),
                  'NewRequest': ('pure',), 'BeforeTraversal': ('pure',), 'ContextFound': ('pure',),
                  'self.routes_mapper': ('prim', 'p_routes_mapper P'),
                  'self.root_factory': ('prim', 'p_root_factory P'),
                  '<p_routes_mapper P>.factory or self.root_factory': ('prim', 'p_route_factory P'),
                  'traverser': ('prim', 'p_traverser P'),
                  '_call_view': ('prim', 'p_call_view P'),
                  "request.__dict__['registry'].adapters.queryAdapter": ('pure',), 'ResourceTreeTraverser': ('pure',),
                  "request.__dict__['registry'].queryUtility": ('pure',), 'providedBy': ('pure',),
                  'request.__dict__.update': ('pure',)},
        # info['route'] is what the mapper's answer is tracked as (None = no route matched)
        'fields': {('p_routes_mapper P', 'route'): 'same'},
        'pure_methods': {'join', 'text', 'debug'},
        'raises': {'HTTPNotFound': 'p_exc_notfound P'},
    },
    (V, 'ViewMethodsMixin.invoke_exception_view'): {
        'calls': {'getattr': ('pure',), 'get_current_registry': ('pure',), 'sys.exc_info': ('pure',),
                  'providedBy': ('pure',), 'RuntimeError': ('pure',),
                  'hide_attrs': ('cm-gen', (U, 'hide_attrs')),
                  'manager.push': ('prim', 'p_push P'), 'manager.pop': ('prim', 'p_pop P'),
                  '_call_view': ('prim1', 'p_call_exception_view P', 'exc'),
                  'reraise_': ('raise', 'exc')},
        'pure_methods': {'get'},
        # which attributes are hidden while the exception view runs matters (the callback deques must NOT be)
        'cm_args': {'hide_attrs': ["request", "'response'", "'exc_info'", "'exception'"]},
        'exc_types': {'Exception': None},
        'raises': {'HTTPNotFound': 'p_exc_notfound P'},
        # a request handled by the router always carries its registry (both `registry is None` tests)
        'assume_false': {'registry is None'},
    },
    (U, 'hide_attrs'): {'calls': {}, 'pure_methods': {'pop'}},
    (W, 'excview_tween_factory.excview_tween'): {
        'calls': {'handler': ('prim', 'p_handler P'),
                  '_error_handler': ('proc', (W, '_error_handler'))},
        'exc_types': {'Exception': None},
    },
}
CATCH_ALL = {'Exception', 'BaseException'}      # the model's exception kinds are all Exceptions


class Problem(Exception):
    pass


class Fn:
    def __init__(self, tr, key, node):
        self.tr, self.key, self.node = tr, key, node
        self.prim = PRIM[key]
        self.n = 0

    def bad(self, node, what):
        raise Problem('translator(b): %s:%s line %s: %s' % (self.key[0], self.key[1], getattr(node, 'lineno', '?'), what))

    def fresh(self, base):
        self.n += 1
        return '%s_%d' % (''.join(c if c.isalnum() else '_' for c in base), self.n)

    # ---- canonical form of a pure expression (aliases substituted)
    def canon(self, e, env):
        if isinstance(e, ast.Name):
            b = env.get(e.id)
            if b is None:
                return e.id
            if b[0] == 'alias':
                return b[1]
            if b[0] == 'val':
                return '<%s>' % b[2]            # a tracked call result, named by the leaf it came from
            if b[0] == 'opaque':
                return e.id
            return None
        if isinstance(e, ast.Attribute):
            v = self.canon(e.value, env)
            return None if v is None else v + '.' + e.attr
        if isinstance(e, ast.Subscript) and isinstance(e.slice, ast.Constant):
            v = self.canon(e.value, env)
            return None if v is None else '%s[%r]' % (v, e.slice.value)
        if isinstance(e, ast.BoolOp) and isinstance(e.op, ast.Or):
            vs = [self.canon(v, env) for v in e.values]
            return None if any(v is None for v in vs) else ' or '.join(vs)
        if isinstance(e, ast.Compare) and len(e.ops) == 1 and isinstance(e.ops[0], (ast.Is, ast.IsNot)) \
                and isinstance(e.comparators[0], ast.Constant) and e.comparators[0].value is None:
            v = self.canon(e.left, env)
            return None if v is None else v + (' is None' if isinstance(e.ops[0], ast.Is) else ' is not None')
        return None

    def is_pure(self, e, env):
        """no call that is not declared pure"""
        for n in ast.walk(e):
            if isinstance(n, ast.Call):
                if isinstance(n.func, ast.Attribute) and n.func.attr in self.prim.get('pure_methods', ()):
                    continue
                c = self.canon(n.func, env)
                if c is None or self.prim.get('calls', {}).get(c) != ('pure',):
                    return False
            if isinstance(n, (ast.Yield, ast.YieldFrom, ast.Await, ast.Lambda, ast.NamedExpr)):
                return False
        return True

    def value(self, e, env):
        """Coq term (N) of a pure expression: a tracked call result, otherwise 0"""
        if isinstance(e, ast.Name) and env.get(e.id, ('',))[0] == 'val':
            return env[e.id][1]
        return '0'

    # ---- a call -> M term
    def call(self, e, env):
        for a in list(e.args) + [k.value for k in e.keywords]:
            inner = a.value if isinstance(a, ast.Starred) else a
            if not self.is_pure(inner, env):
                self.bad(e, 'argument with an effect: %s' % ast.unparse(a))
        if isinstance(e.func, ast.Name) and env.get(e.func.id, ('',))[0] == 'val':
            origin = env[e.func.id][2]
            cv = self.prim.get('callvar', {}).get(origin)
            if cv is None:
                self.bad(e, 'call of a computed value %s' % e.func.id)
            return '(%s %s)' % (cv, env[e.func.id][1])
        c = self.canon(e.func, env)
        b = self.prim.get('calls', {}).get(c) if c is not None else None
        if b is None:
            self.bad(e, 'unknown leaf call %s' % ast.unparse(e.func))
        if b[0] == 'pure':
            return '(ret 0)'
        if b[0] == 'prim':
            return '(%s)' % b[1]
        if b[0] == 'prim1':
            return '(%s %s)' % (b[1], b[2])
        if b[0] == 'raise':
            return '(raise %s)' % b[1]
        if b[0] == 'notify':
            a0 = e.args[0] if e.args else None
            table = b[1] if isinstance(b[1], dict) else {b[1]: b[2]}
            cls = ast.unparse(a0.func) if isinstance(a0, ast.Call) else None
            if cls not in table:
                self.bad(e, 'notify of something else than %s' % sorted(table))
            return '(%s)' % table[cls]
        if b[0] == 'proc':
            return self.proc_call(b[1], e, env)
        self.bad(e, '%s is a context manager, called directly' % c)

    def proc_call(self, key, e, env):
        callee = self.tr.fn_node(key)
        args = []
        pos = [a.arg for a in callee.args.args]
        if pos and pos[0] == 'self':
            pos = pos[1:]
        defaults = dict(zip(reversed([a.arg for a in callee.args.args]), reversed(callee.args.defaults)))
        given = {}
        for i, a in enumerate(e.args):
            if isinstance(a, ast.Starred) or i >= len(pos):
                self.bad(e, 'unsupported argument form')
            given[pos[i]] = a
        for k in e.keywords:
            if k.arg is None:
                self.bad(e, '**kwargs')
            given[k.arg] = k.value
        for pname, kind, _coq in PARAMS.get(key, []):
            a = given.get(pname, defaults.get(pname))
            if a is None:
                self.bad(e, 'argument %s of %s not given' % (pname, key[1]))
            if kind == 'bool':
                if isinstance(a, ast.Constant) and isinstance(a.value, bool):
                    args.append('true' if a.value else 'false')
                elif isinstance(a, ast.Name) and env.get(a.id, ('',))[0] == 'bool':
                    args.append(env[a.id][1])
                else:
                    self.bad(e, 'boolean argument %s is not a tracked boolean' % pname)
            else:
                if isinstance(a, ast.Name) and env.get(a.id, ('',))[0] == 'val':
                    args.append(env[a.id][1])
                elif isinstance(a, ast.Name) and a.id in self.prim.get('as_val', {}) \
                        and env.get(a.id, ('',))[0] in ('opaque', 'alias'):
                    args.append(self.prim['as_val'][a.id])
                else:
                    self.bad(e, 'argument %s is not a tracked value' % pname)
        return '(%s)' % ' '.join([NAMES[key], 'P'] + args)

    def truth(self, e, env):
        """('bool', coq bool) | ('m', M term giving the truth value) | ('not', inner) | None (unknown)"""
        if isinstance(e, ast.UnaryOp) and isinstance(e.op, ast.Not):
            t = self.truth(e.operand, env)
            return None if t is None else ('not', t)
        if isinstance(e, ast.Name) and env.get(e.id, ('',))[0] == 'bool':
            return ('bool', env[e.id][1])
        # `x is None` / `x is not None` on a tracked call result: None is the value 0
        if isinstance(e, ast.Compare) and len(e.ops) == 1 and isinstance(e.ops[0], (ast.Is, ast.IsNot)) \
                and isinstance(e.comparators[0], ast.Constant) and e.comparators[0].value is None \
                and isinstance(e.left, ast.Name) and env.get(e.left.id, ('',))[0] == 'val':
            t = ('bool', '(N.eqb %s 0)' % env[e.left.id][1])
            return t if isinstance(e.ops[0], ast.Is) else ('not', t)
        c = self.canon(e, env)
        t = self.prim.get('truth', {}).get(c) if c is not None else None
        if t is None:
            return None
        return ('m', '(%s)' % t)

    def cond(self, t, a, b):
        if a == b:
            return a
        if t[0] == 'not':
            return self.cond(t[1], b, a)
        if t[0] == 'bool':
            return '(if %s then %s else %s)' % (t[1], a, b)
        v = self.fresh('b')
        return '(bind %s (fun %s => if truthy %s then %s else %s))' % (t[1], v, v, a, b)

    def effect(self, e, env):
        if isinstance(e, ast.Call):
            return self.call(e, env)
        if isinstance(e, ast.BoolOp) and isinstance(e.op, ast.And) and len(e.values) == 2:
            t = self.truth(e.values[0], env)
            if t is None:
                self.bad(e, 'unknown test %s' % ast.unparse(e.values[0]))
            rhs = self.effect(e.values[1], env) if not self.is_pure(e.values[1], env) else '(ret 0)'
            b = self.fresh('b')
            if t[0] == 'bool':
                return '(if %s then %s else (ret 0))' % (t[1], rhs)
            if t[0] == 'not':
                self.bad(e, 'negated test in `and`')
            return '(bind %s (fun %s => if truthy %s then %s else ret %s))' % (t[1], b, b, rhs, b)
        self.bad(e, 'unsupported expression with an effect: %s' % ast.unparse(e))

    def stmt_pure(self, st, env):
        """a statement (possibly compound) that makes no call other than declared-pure ones, binds no tracked
        name, and neither returns, raises nor yields: it leaves the world of the model alone"""
        for n in ast.walk(st):
            if isinstance(n, (ast.Return, ast.Raise, ast.Yield, ast.YieldFrom, ast.Try, ast.With, ast.While,
                              ast.FunctionDef, ast.ClassDef, ast.Lambda, ast.Await, ast.Global, ast.Nonlocal)):
                return False
        for n in ast.walk(st):
            if isinstance(n, ast.expr) and not isinstance(n, (ast.Name, ast.Constant)):
                pass
        exprs = [n for n in ast.iter_child_nodes(st)]
        return all(self.is_pure(n, env) for n in ast.walk(st) if isinstance(n, ast.Call)) and \
            not any(isinstance(n, ast.Call) and not self.is_pure(n, env) for n in ast.walk(st))

    def assign_pure(self, tg, value, env):
        """env after the pure assignment  tg = value"""
        env2 = dict(env)
        if isinstance(tg, ast.Name):
            if isinstance(value, ast.Name) and env.get(value.id, ('',))[0] in ('val', 'bool'):
                env2[tg.id] = env[value.id]
            elif isinstance(value, ast.Subscript) and isinstance(value.slice, ast.Constant) \
                    and isinstance(value.value, ast.Name) and env.get(value.value.id, ('',))[0] == 'val' \
                    and self.prim.get('fields', {}).get((env[value.value.id][2], value.slice.value)) == 'same':
                env2[tg.id] = env[value.value.id]
            else:
                c = self.canon(value, env)
                env2[tg.id] = ('alias', c) if c is not None and not isinstance(value, ast.Compare) else ('opaque',)
            return env2
        if isinstance(tg, (ast.Attribute, ast.Subscript)) and self.is_pure(tg, env):
            return env2                 # attribute / item glue on the request object
        self.bad(tg, 'unsupported assignment target')

    # ---- statements, continuation passing.  k(env) -> term for "what follows"; tail: what follows is the end
    # of the function (a `return` is only allowed then); after: names read later, outside this block
    def block(self, stmts, env, k, tail, after=frozenset()):
        if not stmts:
            return k(env)
        st, rest = stmts[0], stmts[1:]
        nxt = lambda env2: self.block(rest, env2, k, tail, after)
        tail_here = tail and not rest
        later = frozenset(self.read(rest)) | after
        if isinstance(st, ast.Pass):
            return nxt(env)
        if isinstance(st, ast.Expr) and isinstance(st.value, ast.Yield):
            if getattr(self, 'yield_term', None) is None or st.value.value is not None:
                self.bad(st, 'unexpected yield')
            v = self.fresh('yielded')
            env2 = dict(env)
            env2['$yield'] = ('val', v, 'yield')
            return '(bind %s (fun %s => %s))' % (self.yield_term, v, nxt(env2))
        if isinstance(st, ast.Expr):
            if isinstance(st.value, ast.Constant):
                return nxt(env)
            if self.is_pure(st.value, env):
                return nxt(env)
            if isinstance(st.value, ast.Call):
                c = self.canon(st.value.func, env)
                if c is not None and self.prim.get('calls', {}).get(c, ('',))[0] == 'raise':
                    return self.call(st.value, env)          # never returns: what follows is dead
            return '(seq %s %s)' % (self.effect(st.value, env), nxt(env))
        if isinstance(st, ast.Assign):
            if len(st.targets) != 1:
                self.bad(st, 'chained assignment')
            tg = st.targets[0]
            if isinstance(tg, ast.Tuple) and isinstance(st.value, ast.Tuple) and len(tg.elts) == len(st.value.elts) \
                    and self.is_pure(st.value, env):
                env2 = env
                for t1, v1 in zip(tg.elts, st.value.elts):
                    env2 = self.assign_pure(t1, v1, dict(env2, **{}))
                return nxt(env2)
            if self.is_pure(st.value, env):
                return nxt(self.assign_pure(tg, st.value, env))
            if isinstance(tg, ast.Name):
                v = self.fresh(tg.id)
                term = self.effect(st.value, env)
                origin = term.strip('()')
                env2 = dict(env)
                env2[tg.id] = ('val', v, origin)
                return '(bind %s (fun %s => %s))' % (term, v, nxt(env2))
            self.bad(st, 'unsupported assignment target')
        if isinstance(st, ast.Return):
            # a return ignores the continuation; that is only right when no enclosing try/with/loop of this
            # function still has something to run after it (`tail`; if-branches inherit it)
            if not tail:
                self.bad(st, 'return that is not in tail position')
            if st.value is None or self.is_pure(st.value, env):
                return '(ret %s)' % (self.value(st.value, env) if st.value is not None else '0')
            return self.effect(st.value, env)
        if isinstance(st, ast.Raise):
            if st.exc is None:
                cur = env.get('$exc')
                if cur is None:
                    self.bad(st, 'bare raise outside a handler')
                return '(raise %s)' % cur[1]
            cls = st.exc.func if isinstance(st.exc, ast.Call) else st.exc
            code = self.prim.get('raises', {}).get(ast.unparse(cls))
            if code is None or not self.is_pure(st.exc, dict(env, **{})) and not all(
                    self.is_pure(a, env) for a in getattr(st.exc, 'args', [])):
                self.bad(st, 'raise of an unknown exception %s' % ast.unparse(cls))
            return '(raise (%s))' % code
        if isinstance(st, ast.If):
            c = self.canon(st.test, env)
            if c is not None and c in self.prim.get('assume_false', ()):
                return self.block(list(st.orelse) + rest, env, k, tail, after)
            t = self.truth(st.test, env)
            if t is None and not self.is_pure(st.test, env):
                self.bad(st, 'unknown test %s' % ast.unparse(st.test))
            n0 = self.n
            a = self.block(st.body, env, nxt, tail, later)
            n1, self.n = self.n, n0
            b = self.block(st.orelse, env, nxt, tail, later)
            self.n = max(self.n, n1)
            if t is None:
                # a test the model does not follow (pure, untracked): both branches must come to the same thing
                if a != b:
                    self.bad(st, 'unknown test %s with branches that differ' % ast.unparse(st.test))
                return a
            return self.cond(t, a, b)
        if isinstance(st, (ast.For, ast.Delete, ast.AugAssign)) and self.stmt_pure(st, env):
            return nxt(env)
        if isinstance(st, ast.While):
            if st.orelse:
                self.bad(st, 'while/else')
            for n in ast.walk(st):
                if isinstance(n, (ast.Break, ast.Continue, ast.Return)):
                    self.bad(n, 'break/continue/return inside a loop')
            c = self.canon(st.test, env)
            fuel = self.prim.get('fuel', {}).get(c)
            t = self.truth(st.test, env)
            if fuel is None or t is None or t[0] != 'm':
                self.bad(st, 'loop over something else than a callback deque')
            body = self.block(st.body, env, lambda e2: '(ret 0)', False)
            return '(seq (while_fuelled (%s) %s %s) %s)' % (fuel, t[1], body, nxt(env))
        if isinstance(st, ast.Try):
            return self.try_(st, rest, env, k, tail, nxt, tail_here, later)
        if isinstance(st, ast.With):
            return self.with_(st, env, nxt, tail_here, later)
        self.bad(st, 'unsupported statement %s' % type(st).__name__)

    @staticmethod
    def assigned(stmts):
        out = set()
        for s in stmts:
            for n in ast.walk(s):
                if isinstance(n, ast.Name) and isinstance(n.ctx, ast.Store):
                    out.add(n.id)
        return out

    @staticmethod
    def read(stmts):
        out = set()
        for s in stmts:
            for n in ast.walk(s):
                if isinstance(n, ast.Name) and isinstance(n.ctx, ast.Load):
                    out.add(n.id)
        return out

    def out_var(self, st, stmts, later, has_ret):
        """the one tracked variable a compound statement hands to what follows"""
        live = sorted(v for v in self.assigned(stmts) & later)
        return live

    def try_(self, st, rest, env, k, tail, nxt, tail_here, later):
        if st.orelse:
            self.bad(st, 'try/else')
        inner = st.body + [x for h in st.handlers for x in h.body]
        has_ret = any(isinstance(n, ast.Return) for s in inner for n in ast.walk(s))
        if has_ret and not tail_here:
            self.bad(st, 'return inside a try that is not the last statement')

        def kend_for(out):
            def kend(e2):
                if out is None:
                    y = e2.get('$yield')
                    return '(ret %s)' % (y[1] if y else '0')
                b = e2.get(out)
                if b is None or b[0] != 'val':
                    self.bad(st, 'variable %s is not bound on every path out of the try statement' % out)
                return '(ret %s)' % b[1]
            return kend
        # which variable flows out: one assigned by a CALL inside and read later
        cand = sorted(self.assigned(inner) & later)
        out = None
        body = None
        for c in [None] + cand:
            pass
        # try the candidates that end up tracked
        n0 = self.n
        tracked = []
        for c in cand:
            try:
                self.n = n0
                self.block(st.body, env, kend_for(c), tail_here, later)
                tracked.append(c)
            except Problem:
                pass
        self.n = n0
        if len(tracked) > 1:
            self.bad(st, 'more than one variable flows out of a try statement')
        if tracked and has_ret:
            self.bad(st, 'try statement both returns and assigns')
        out = tracked[0] if tracked else None
        kend = kend_for(out)
        body = self.block(st.body, env, kend, tail_here, later)
        if st.handlers:
            ev = self.fresh('e')
            hterm = '(raise %s)' % ev
            for h in reversed(st.handlers):
                env2 = dict(env)
                env2['$exc'] = ('val', ev, 'exception')
                if h.name:
                    env2[h.name] = ('val', ev, 'exception')
                hb = self.block(h.body, env2, kend, tail_here, later)
                if h.type is None:
                    hterm = hb
                    continue
                tn = ast.unparse(h.type)
                types = self.prim.get('exc_types', {})
                if tn not in types:
                    self.bad(h, 'unknown exception type %s' % tn)
                if tn in CATCH_ALL and types[tn] is None:
                    hterm = hb
                else:
                    hterm = '(if %s %s then %s else %s)' % (types[tn], ev, hb, hterm)
            body = '(catch %s (fun %s => %s))' % (body, ev, hterm)
        if st.finalbody:
            for n in ast.walk(ast.Module(body=st.finalbody, type_ignores=[])):
                if isinstance(n, ast.Return):
                    self.bad(n, 'return inside finally')
            fin = self.block(st.finalbody, {kk: vv for kk, vv in env.items()}, lambda e2: '(ret 0)', False)
            body = '(finally %s %s)' % (body, fin)
        if tail_here:
            if has_ret:
                return body
            if out is None and '$yield' not in env and not any(True for _ in ()):
                return '(seq %s %s)' % (body, k(env))
        if out is None:
            if self.yields(st):
                # the try statement of an inlined generator: its value is the value of the `with` body
                v = self.fresh('yielded')
                env3 = dict(env)
                env3['$yield'] = ('val', v, 'yield')
                return '(bind %s (fun %s => %s))' % (body, v, nxt(env3))
            return '(seq %s %s)' % (body, nxt(env))
        v = self.fresh(out)
        env3 = dict(env)
        env3[out] = ('val', v, 'try')
        return '(bind %s (fun %s => %s))' % (body, v, nxt(env3))

    @staticmethod
    def yields(st):
        return any(isinstance(n, (ast.Yield, ast.YieldFrom)) for n in ast.walk(st))

    def with_(self, st, env, nxt, tail_here, later):
        if len(st.items) != 1:
            self.bad(st, 'with over several items')
        item = st.items[0]
        ce = item.context_expr
        if not isinstance(ce, ast.Call):
            self.bad(st, 'with over a non-call')
        c = self.canon(ce.func, env)
        b = self.prim.get('calls', {}).get(c) if c is not None else None
        for a in list(ce.args) + [kw.value for kw in ce.keywords]:
            if not self.is_pure(a, env):
                self.bad(st, 'context manager argument with an effect')
        if b is None or b[0] not in ('cm-class', 'cm-proc', 'cm-gen'):
            self.bad(st, 'unknown context manager %s' % ast.unparse(ce.func))
        want = self.prim.get('cm_args', {}).get(c)
        if want is not None and ([ast.unparse(a) for a in ce.args] != want or ce.keywords):
            self.bad(st, 'arguments of %s changed: %s' % (c, [ast.unparse(a) for a in ce.args]))
        env2 = dict(env)
        if item.optional_vars is not None:
            if not isinstance(item.optional_vars, ast.Name):
                self.bad(st, 'with ... as <pattern>')
            env2[item.optional_vars.id] = ('opaque',)
        has_ret = any(isinstance(n, ast.Return) for s in st.body for n in ast.walk(s))
        if has_ret and not tail_here:
            self.bad(st, 'return inside a with that is not the last statement')
        # the one tracked variable the body hands to what follows the with statement
        n0 = self.n
        tracked = []
        for cnd in sorted(self.assigned(st.body) & later):
            def kc(e2, cnd=cnd):
                bb = e2.get(cnd)
                if bb is None or bb[0] != 'val':
                    raise Problem('not tracked')
                return '(ret %s)' % bb[1]
            try:
                self.n = n0
                self.block(st.body, env2, kc, tail_here, later)
                tracked.append(cnd)
            except Problem:
                pass
        self.n = n0
        if len(tracked) > 1 or (tracked and has_ret):
            self.bad(st, 'more than one value flows out of a with statement')
        out = tracked[0] if tracked else None

        def kbody(e2):
            return '(ret %s)' % (e2[out][1] if out else '0')
        body = self.block(st.body, env2, kbody, tail_here, later)
        if b[0] == 'cm-gen':
            term = self.tr.inline_generator(b[1], body)
        else:
            if b[0] == 'cm-proc':
                # a method whose every return is RequestContext(...)
                pn = self.tr.fn_node(b[1])
                rets = [n for n in ast.walk(pn) if isinstance(n, ast.Return)]
                if not rets or not all(isinstance(r.value, ast.Call) and ast.unparse(r.value.func) == RC for r in rets):
                    self.bad(st, 'expected every return of %s to be %s(...)' % (b[1][1], RC))
                make = '(%s P)' % NAMES[b[1]]
            else:
                if c != RC:
                    self.bad(st, 'class based context manager other than %s' % RC)
                make = '(ret 0)'
            self.tr.check_rc_class()
            v = self.fresh('entered')
            term = '(seq %s (bind (%s P) (fun %s => finally %s (%s P))))' % (
                make, NAMES[(T, 'RequestContext.__enter__')], v, body, NAMES[(T, 'RequestContext.__exit__')])
        if tail_here and has_ret:
            return term
        if out is None:
            return '(seq %s %s)' % (term, nxt(env))
        v = self.fresh(out)
        env3 = dict(env)
        env3[out] = ('val', v, 'with')
        return '(bind %s (fun %s => %s))' % (term, v, nxt(env3))


class TranslatorB:
    def __init__(self, src):
        self.src = src
        self.mods = {}
        self._rc_checked = False

    def mod(self, rel):
        if rel not in self.mods:
            self.mods[rel] = F.Module(self.src, rel)
        return self.mods[rel]

    def fn_node(self, key):
        n = self.mod(key[0]).find(key[1])
        if n is None or not isinstance(n, ast.FunctionDef):
            raise Problem('translator(b): %s:%s no longer exists' % key)
        return n

    def check_rc_class(self):
        """RequestContext.__exit__ must not be able to swallow an exception; __init__ only stores its argument"""
        if self._rc_checked:
            return
        ex = self.fn_node((T, 'RequestContext.__exit__'))
        for n in ast.walk(ex):
            if isinstance(n, ast.Return) and n.value is not None and not (
                    isinstance(n.value, ast.Constant) and n.value.value in (None, False)):
                raise Problem('translator(b): RequestContext.__exit__ returns a value (could swallow exceptions)')
        init = self.fn_node((T, 'RequestContext.__init__'))
        if ast.unparse(ast.Module(body=init.body, type_ignores=[])).strip() != 'self.request = request':
            raise Problem('translator(b): RequestContext.__init__ does more than store the request')
        self._rc_checked = True

    def inline_generator(self, key, body_term):
        """a @contextmanager generator with a single bare `yield`, translated with the with-body in its place;
        the value of the whole is the value of the with-body"""
        node = self.fn_node(key)
        decs = [ast.unparse(d) for d in node.decorator_list]
        if decs not in (['contextmanager'], ['contextlib.contextmanager']):
            raise Problem('translator(b): %s:%s is not a plain @contextmanager' % key)
        ys = [n for n in ast.walk(node) if isinstance(n, (ast.Yield, ast.YieldFrom))]
        if len(ys) != 1 or not isinstance(ys[0], ast.Yield) or any(isinstance(n, ast.Return) for n in ast.walk(node)):
            raise Problem('translator(b): %s:%s: expected exactly one yield and no return' % key)
        fn = Fn(self, key, node)
        fn.n = 1000
        fn.yield_term = body_term
        body = [s for s in node.body if not (isinstance(s, ast.Expr) and isinstance(s.value, ast.Constant)
                                             and isinstance(s.value.value, str))]

        def kend(e2):
            y = e2.get('$yield')
            if y is None:
                raise Problem('translator(b): %s:%s: an exit path does not pass the yield' % key)
            return '(ret %s)' % y[1]
        return fn.block(body, {}, kend, False)

    def function(self, key):
        node = self.fn_node(key)
        if node.decorator_list:
            raise Problem('translator(b): %s:%s is decorated' % key)
        if any(isinstance(n, (ast.Yield, ast.YieldFrom)) for n in ast.walk(node)):
            raise Problem('translator(b): %s:%s is a generator' % key)
        fn = Fn(self, key, node)
        env = {}
        coq_params = []
        pnames = [a.arg for a in node.args.args]
        for pname, kind, coq in PARAMS.get(key, []):
            if pname not in pnames:
                raise Problem('translator(b): %s:%s lost its parameter %s' % (key[0], key[1], pname))
            env[pname] = (kind, coq, 'param')
            coq_params.append('(%s : %s)' % (coq, 'bool' if kind == 'bool' else 'N'))
        body = [s for s in node.body if not (isinstance(s, ast.Expr) and isinstance(s.value, ast.Constant)
                                             and isinstance(s.value.value, str))]
        term = fn.block(body, env, lambda e2: '(ret 0)', True)
        return 'Definition %s (P : prims) %s: M :=\n  %s.' % (NAMES[key], ''.join(p + ' ' for p in coq_params), term)


def translate(src):
    """-> {'coq': text, 'problems': [...]}; raises nothing"""
    tr = TranslatorB(src)
    out, problems = [], []
    for key in FUNCS:
        try:
            out.append('(* %s:%s *)' % key)
            out.append(tr.function(key))
        except Problem as e:
            problems.append(str(e))
        except Exception as e:                                  # fail closed
            problems.append('translator(b) failed on %s:%s: %r' % (key[0], key[1], e))
    text = '\n'.join(out) + '\n'
    text += '\n'.join('#[global] Hint Unfold %s : c13gen.' % NAMES[k] for k in FUNCS) + '\n'
    return {'coq': text, 'problems': problems}
