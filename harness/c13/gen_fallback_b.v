(* pyramid/request.py:CallbackMethodsMixin._process_response_callbacks *)
Definition gen_process_response_callbacks (P : prims) : M :=
  (seq (while_fuelled (p_resp_fuel P) (p_resp_pending P) (bind (p_resp_popleft P) (fun callback_1 => (seq (p_resp_call P callback_1) (ret 0))))) (ret 0)).
(* pyramid/request.py:CallbackMethodsMixin._process_finished_callbacks *)
Definition gen_process_finished_callbacks (P : prims) : M :=
  (seq (while_fuelled (p_fin_fuel P) (p_fin_pending P) (bind (p_fin_popleft P) (fun callback_1 => (seq (p_fin_call P callback_1) (ret 0))))) (ret 0)).
(* pyramid/router.py:Router.finish_request *)
Definition gen_finish_request (P : prims) : M :=
  (bind (p_fin_pending P) (fun b_1 => if truthy b_1 then (seq (gen_process_finished_callbacks P) (ret 0)) else (ret 0))).
(* pyramid/router.py:Router.invoke_request *)
Definition gen_invoke_request (P : prims) (tw : bool) : M :=
  (if tw then (finally (bind (p_handle_tweens P) (fun response_1 => (bind (p_resp_pending P) (fun b_3 => if truthy b_3 then (seq (gen_process_response_callbacks P) (seq (bind (p_has_listeners P) (fun b_2 => if truthy b_2 then (p_notify_newresponse P) else ret b_2)) (ret response_1))) else (seq (bind (p_has_listeners P) (fun b_2 => if truthy b_2 then (p_notify_newresponse P) else ret b_2)) (ret response_1)))))) (seq (gen_finish_request P) (ret 0))) else (finally (bind (p_handle_orig P) (fun response_1 => (bind (p_resp_pending P) (fun b_3 => if truthy b_3 then (seq (gen_process_response_callbacks P) (seq (bind (p_has_listeners P) (fun b_2 => if truthy b_2 then (p_notify_newresponse P) else ret b_2)) (ret response_1))) else (seq (bind (p_has_listeners P) (fun b_2 => if truthy b_2 then (p_notify_newresponse P) else ret b_2)) (ret response_1)))))) (seq (gen_finish_request P) (ret 0)))).
(* pyramid/threadlocal.py:RequestContext.begin *)
Definition gen_rc_begin (P : prims) : M :=
  (seq (p_push P) (ret 0)).
(* pyramid/threadlocal.py:RequestContext.end *)
Definition gen_rc_end (P : prims) : M :=
  (seq (p_pop P) (ret 0)).
(* pyramid/threadlocal.py:RequestContext.__enter__ *)
Definition gen_rc_enter (P : prims) : M :=
  (gen_rc_begin P).
(* pyramid/threadlocal.py:RequestContext.__exit__ *)
Definition gen_rc_exit (P : prims) : M :=
  (seq (gen_rc_end P) (ret 0)).
(* pyramid/router.py:Router.request_context *)
Definition gen_request_context (P : prims) : M :=
  (bind (p_setup P) (fun request_1 => (bind (p_has_extensions P) (fun b_2 => if truthy b_2 then (seq (p_setup P) (ret 0)) else (ret 0))))).
(* pyramid/router.py:default_execution_policy *)
Definition gen_default_execution_policy (P : prims) : M :=
  (seq (gen_request_context P) (bind (gen_rc_enter P) (fun entered_1 => finally (gen_invoke_request P true) (gen_rc_exit P)))).
(* pyramid/router.py:Router.invoke_subrequest *)
Definition gen_invoke_subrequest (P : prims) (tw : bool) : M :=
  (bind (p_has_extensions P) (fun b_2 => if truthy b_2 then (seq (p_setup P) (seq (ret 0) (bind (gen_rc_enter P) (fun entered_1 => finally (gen_invoke_request P tw) (gen_rc_exit P))))) else (seq (ret 0) (bind (gen_rc_enter P) (fun entered_1 => finally (gen_invoke_request P tw) (gen_rc_exit P)))))).
(* pyramid/router.py:Router.handle_request *)
Definition gen_handle_request (P : prims) : M :=
  (seq (bind (p_has_listeners P) (fun b_1 => if truthy b_1 then (p_notify_newrequest P) else ret b_1)) (bind (p_has_mapper P) (fun b_8 => if truthy b_8 then (bind (p_routes_mapper P) (fun info_2 => (if (N.eqb info_2 0) then (seq (bind (p_has_listeners P) (fun b_3 => if truthy b_3 then (p_notify_beforetraversal P) else ret b_3)) (bind (p_root_factory P) (fun root_4 => (bind (p_traverser P) (fun tdict_5 => (seq (bind (p_has_listeners P) (fun b_6 => if truthy b_6 then (p_notify_contextfound P) else ret b_6)) (bind (p_call_view P) (fun response_7 => (if (N.eqb response_7 0) then (raise (p_exc_notfound P)) else (ret response_7)))))))))) else (seq (bind (p_has_listeners P) (fun b_3 => if truthy b_3 then (p_notify_beforetraversal P) else ret b_3)) (bind (p_route_factory P) (fun root_4 => (bind (p_traverser P) (fun tdict_5 => (seq (bind (p_has_listeners P) (fun b_6 => if truthy b_6 then (p_notify_contextfound P) else ret b_6)) (bind (p_call_view P) (fun response_7 => (if (N.eqb response_7 0) then (raise (p_exc_notfound P)) else (ret response_7))))))))))))) else (seq (bind (p_has_listeners P) (fun b_2 => if truthy b_2 then (p_notify_beforetraversal P) else ret b_2)) (bind (p_root_factory P) (fun root_3 => (bind (p_traverser P) (fun tdict_4 => (seq (bind (p_has_listeners P) (fun b_5 => if truthy b_5 then (p_notify_contextfound P) else ret b_5)) (bind (p_call_view P) (fun response_6 => (if (N.eqb response_6 0) then (raise (p_exc_notfound P)) else (ret response_6))))))))))))).
(* pyramid/view.py:ViewMethodsMixin.invoke_exception_view *)
Definition gen_invoke_exception_view (P : prims) (exc : N) (reraise : bool) : M :=
  (bind (bind (finally (bind (seq (p_push P) (bind (finally (catch (bind (p_call_exception_view P exc) (fun response_1 => (ret response_1))) (fun e_2 => (if reraise then (raise exc) else (raise e_2)))) (seq (p_pop P) (ret 0))) (fun response_3 => (ret response_3)))) (fun yielded_1001 => (ret yielded_1001))) (ret 0)) (fun yielded_1002 => (ret yielded_1002))) (fun response_4 => (if (N.eqb response_4 0) then (if reraise then (raise exc) else (raise (p_exc_notfound P))) else (ret response_4)))).
(* pyramid/tweens.py:_error_handler *)
Definition gen_error_handler (P : prims) (exc : N) : M :=
  (bind (catch (bind (gen_invoke_exception_view P exc false) (fun response_1 => (ret response_1))) (fun e_2 => (if p_is_notfound P e_2 then (raise exc) else (raise e_2)))) (fun response_3 => (ret response_3))).
(* pyramid/tweens.py:excview_tween_factory.excview_tween *)
Definition gen_excview_tween (P : prims) : M :=
  (bind (catch (bind (p_handler P) (fun response_1 => (ret response_1))) (fun e_2 => (bind (gen_error_handler P e_2) (fun response_3 => (ret response_3))))) (fun response_4 => (ret response_4))).
#[global] Hint Unfold gen_process_response_callbacks : c13gen.
#[global] Hint Unfold gen_process_finished_callbacks : c13gen.
#[global] Hint Unfold gen_finish_request : c13gen.
#[global] Hint Unfold gen_invoke_request : c13gen.
#[global] Hint Unfold gen_rc_begin : c13gen.
#[global] Hint Unfold gen_rc_end : c13gen.
#[global] Hint Unfold gen_rc_enter : c13gen.
#[global] Hint Unfold gen_rc_exit : c13gen.
#[global] Hint Unfold gen_request_context : c13gen.
#[global] Hint Unfold gen_default_execution_policy : c13gen.
#[global] Hint Unfold gen_invoke_subrequest : c13gen.
#[global] Hint Unfold gen_handle_request : c13gen.
#[global] Hint Unfold gen_invoke_exception_view : c13gen.
#[global] Hint Unfold gen_error_handler : c13gen.
#[global] Hint Unfold gen_excview_tween : c13gen.
