"""C13 -- thread-local state restored and callbacks run on every path."""
import json
import os

from harness.common import facts as F
from harness.c13 import translate as TR
from harness.c13 import translate_b as TB

ID = 'C13'
HERE = os.path.dirname(os.path.abspath(__file__))
CASES = {'quick': 20000, 'thorough': 180000}
PARALLEL = True
PROOF_TIMEOUT = 900
ALLOWED_AXIOMS = ()
RULE = ('request cases: every single injection point (20) x exception kind (plain / HTTP exception response / '
        'PredicateMismatch, plus "predicate false / permission denied") x exception-view configuration (mask of: view for '
        'Exception, view for HTTPException, default exceptionresponse view; each user view rendering or raising each kind) '
        'x route or traversal x callback-registration pattern, enumerated; single faults inside a subrequest; random '
        'scenario trees (subrequests to depth 3, with and without tweens, up to 3 faults, random registrations); the same '
        'single-fault sweep on apps whose event subscribers are registered only AFTER the router was built, and on apps '
        'whose registry has a HISTORY (handlers / subscription adapters registered and removed again through the '
        'registry API before the request); RETRY cases: one request object sent through Router.invoke_request twice by a '
        'custom execution policy (after a failure / always), single fault in either attempt x mask, callbacks registered '
        'in both attempts (judge_retry); 36 two-thread '
        'interleavings (a fresh thread serves a request while another is inside its view; a test). thorough '
        'adds every PAIR of faults in one request and every (parent, subrequest) fault pair x use_tweens, and a 16-thread '
        'soak (a test: per-thread stacks independent, observations equal to the single-threaded ones). scope cases '
        '(also pyramid.paster.bootstrap with a real PasteDeploy ini: plain, closer, with-form): the 18 '
        'analysed entry points x failure site (hand-written sites + an exception injected at every executed statement with '
        'an opaque call), each also RE-ENTRANT: opened while the frame it is about to push -- same request object, same '
        'registry -- is already current (prepare(request=current), invoke_subrequest(current request), nested '
        'RequestContext / Configurator scopes, and the same nesting done from inside a running view), and '
        'route_prefix_context / include(route_prefix=) with bytes / int / str-subclass / empty / None prefixes. non-trivial = a request case in which a fault fires or a callback runs, or '
        'a scope case with an injected failure, or the soak; distinct by full case')
ASSUMPTIONS = [
    'part (a): only calls raise (attribute access, arithmetic, truth tests do not); an opaque call leaves the thread-local '
    'stack as it found it (for nested router calls this is the statement being proved); 3-argument getattr and the '
    'AppEnvironment constructor do not raise; the name->definition bindings in harness/c13/translate.py BIND are right',
    'part (a): a for loop may raise at each iteration; `except X` (X not BaseException) may or may not catch',
    'part (b): the default execution policy; exception views: any subset of {view for Exception, view for HTTPException, '
    'default exceptionresponse view}, without predicates; at most one subrequest per request, started from the view body '
    'or from the tween over the excview tween on egress (not from exception views: a PredicateMismatch escaping such a '
    'subrequest would make _call_view try the next exception view, which starts another one); '
    'components are the instrumented ones of harness/c13/app.py; thread independence is tested (two-thread '
    'interleavings in quick, 16-thread soak in thorough), not proved',
    'a finished callback that itself raises stops the remaining finished callbacks (documented behaviour); the judge then '
    'demands what the code guarantees: the callbacks that ran are a prefix of the registered ones (once, in order, after '
    'everything else) and the run stops short only at a callback that raises',
    'the event gate registry.has_listeners is never switched off: checked structurally on every run (exact list of the '
    'places in src/pyramid that store the flag, exact list of names the Registry class defines), not proved',
    'callbacks may register callbacks of their own kind; each registration entry of a callback fires once (it names the '
    'running number of the callback that makes it), so chains are bounded',
]
TRUSTED = ['Python-ast -> stmt translator harness/c13/translate.py (fail-closed; bindings table written by hand)',
           'Python-ast -> exception/state-monad translator harness/c13/translate_b.py (fail-closed; leaf table PRIM '
           'written by hand) for _process_response_callbacks, _process_finished_callbacks, Router.finish_request, '
           'invoke_request, request_context, invoke_subrequest, default_execution_policy, RequestContext.begin/end/'
           '__enter__/__exit__, _error_handler, excview_tween',
           'hand-written pipeline model coq/Model/C13.v part (b): the functions above, Router.handle_request and '
           'ViewMethodsMixin.invoke_exception_view (hide_attrs inlined) are regenerated and proved equal to it; _call_view, '
           '_find_views, the view derivers stay shape-pinned (differential correspondence)',
           'WebOb request/response, zope.interface adapter lookup, view derivers (exercised for real, not modelled)']
TECHNIQUE = ('Coq: verified path-summary analysis (analyse_sound) run by vm_compute on push/pop skeletons regenerated from '
             'the source on every run; the router/tween/callback functions translated on every run into an '
             'exception/state monad, parametric in their leaves, and proved equal to reference programs for every value '
             'of the leaves (symbolic execution, scripts that do not mention the generated text) and, with the '
             "interpreter's leaves, to the hand-written pipeline model at every level of the scenario tree; induction "
             'over scenario trees for the pipeline interpreter; the extracted runner executes the interpreter assembled '
             'from the generated programs; fault-injection correspondence through a real Router')
LEVEL_TEXT = ('Machine-checked: (a) for the regenerated skeletons of Router.__call__/default_execution_policy, '
              'invoke_subrequest, invoke_request, invoke_exception_view, the excview tween, Configurator '
              'commit/include/action/route_prefix_context/with/make_wsgi_app/begin/end and scripting prepare/get_root/closers, '
              'on EVERY path (any opaque call returning or raising, any number of loop iterations) the thread-local stack is '
              'restored (resp. +1/-1 for acquire/release), marked moments happen under the right frame, finish_request '
              'happens exactly once and last, response callbacks/NewResponse only after handle_request returned and in that '
              'order; (b) for the pipeline interpreter, for every scenario tree, exception-view configuration and initial '
              'stack: the stack is restored and every event happens with its own request current; and for every valid '
              'scenario tree the run satisfies the declarative judge of the property (finished callbacks exactly the '
              'registered ones, once, in order, after everything else; response callbacks then NewResponse exactly when a '
              'response came out of the tween chain; also when callbacks raise); (c) the programs regenerated from the '
              'current source of invoke_request, finish_request, the two callback loops, RequestContext, '
              'default_execution_policy, invoke_subrequest, _error_handler and excview_tween equal the reference programs '
              'for every behaviour of their leaves, the interpreter assembled from them equals the pipeline interpreter '
              '(C13_gen_run_is_model), and the statements of (b) hold of it (C13_gen_pipeline_depth, '
              'C13_gen_satisfies_judge); (d) for one request object sent through invoke_request twice inside one request '
              'context: stack restored and every event under its own request (C13_retry_depth), the first attempt '
              'satisfies the judge, the finished callbacks of each attempt run once, in order, last, and the second attempt '
              'starts with an empty deque (C13_retry_finished_callbacks), and the whole run satisfies judge_retry '
              '(C13_retry_judged, via C13_pass_judged: one pass from any carried-over state). Router.handle_request and '
              'invoke_exception_view are translated too (generated = reference = model). When a finished callback raises, '
              'the callbacks that ran are a prefix ending at the raising one (C13_finished_callbacks_prefix_when_one_raises; '
              'the judge demands it). Balance is closed under all statement constructors and under acquire/release '
              'bracketing, so arbitrary nestings of the analysed scope programs are balanced '
              '(C13_scope_nesting_balanced); any number of subrequests run one after the other leave the parent state '
              'alone and add judged segments (C13_star_composition, C13_two_subrequests_in_a_row, '
              'C13_subrequests_in_a_row for any list).')
LEVEL_NOTE = ('Trusted: Coq kernel; the two translators with their binding / leaf tables; the hand-written parts of the pipeline '
              'model (handle_request, view lookup, exception-view selection: shape-pinned, validated by the fault-injection '
              'correspondence); what a leaf means (prims_of in Model/C13.v); Python harness. The judge proved of the model is the same '
              'extracted judge that is evaluated on every observation of the implementation.')

PINS_SPEC = {
    'pyramid/router.py': ['Router.__call__', 'Router.__init__'],
    'pyramid/threadlocal.py': ['ThreadLocalManager', 'get_current_request', 'get_current_registry', 'defaults'],
    'pyramid/request.py': ['add_global_response_headers', 'RequestLocalCache.set'],
    'pyramid/view.py': ['_call_view', '_find_views', 'render_view_to_response'],
    'pyramid/scripting.py': ['AppEnvironment.__enter__', '_make_request'],
    'pyramid/registry.py': ['Registry.notify', 'Registry.registerHandler', 'Registry.registerSubscriptionAdapter'],
    'pyramid/config/__init__.py': ['Configurator._fix_registry'],
    'pyramid/viewderivers.py': ['_secured_view', 'rendered_view'],
    'pyramid/config/views.py': ['predicated_view', 'ViewsConfiguratorMixin.add_default_view_derivers',
                                'ViewsConfiguratorMixin._apply_view_derivers'],
}


# masked pins (pins_masked.json): the shape of the whole definition with the bodies of the named inner functions
# blanked -- those bodies are translated (translate_b.py, generated = model theorems), the rest (class-level
# statements, bases, decorators, the other methods, the factory shell that returns the tween) stays pinned
PINS_MASKED_SPEC = {
    'pyramid/tweens.py': {'excview_tween_factory': ['excview_tween']},
    'pyramid/request.py': {'CallbackMethodsMixin': ['_process_response_callbacks', '_process_finished_callbacks']},
    'pyramid/threadlocal.py': {'RequestContext': ['begin', 'end', '__enter__', '__exit__']},
}


def masked_shape(src, rel, qual, blanks):
    import ast
    import hashlib
    node = F.Module(src, rel).find(qual)
    if node is None:
        return None
    node = F.strip_doc(node)
    for n in ast.walk(node):
        if isinstance(n, ast.FunctionDef) and n.name in blanks:
            n.body = [ast.Pass()]
    return hashlib.sha1(ast.dump(node).encode()).hexdigest()[:16]


def check_masked(src, problems):
    with open(os.path.join(HERE, 'pins_masked.json')) as f:
        pins = json.load(f)
    out = {}
    for rel, quals in PINS_MASKED_SPEC.items():
        for q, blanks in quals.items():
            try:
                got = masked_shape(src, rel, q, blanks)
            except (OSError, SyntaxError) as e:
                problems.append('cannot parse %s: %s' % (rel, e))
                continue
            want = pins.get(rel, {}).get(q)
            out['%s:%s (masked)' % (rel, q)] = got
            if got is None:
                problems.append('masked pin %s:%s -- definition no longer exists' % (rel, q))
            elif got != want:
                problems.append('masked pin %s:%s changed (%s -> %s): something outside the translated bodies %s '
                                'changed' % (rel, q, want, got, blanks))
    return out


ANCHOR_FILES = ['pyramid/router.py', 'pyramid/threadlocal.py', 'pyramid/request.py', 'pyramid/view.py',
                'pyramid/tweens.py', 'pyramid/config/__init__.py', 'pyramid/config/actions.py',
                'pyramid/config/routes.py', 'pyramid/scripting.py']
# identifiers through which a function could touch the thread-local stack, a scope, or the callback deques
STACK_IDS = {'manager', 'RequestContext', 'begin', 'end', 'request_context', 'invoke_subrequest', 'invoke_request',
             'prepare', 'get_root', 'closer', 'commit', '__enter__', '__exit__', 'finished_callbacks',
             'response_callbacks', 'add_finished_callback', 'add_response_callback', '_process_finished_callbacks',
             '_process_response_callbacks', 'finish_request', 'get_current_request', 'get_current_registry',
             'invoke_exception_view', 'route_prefix_context', 'make_wsgi_app', 'setup_registry', 'threadlocal'}


def anchor_functions(src, rel):
    import ast
    out = []

    def walk(node, prefix):
        for n in ast.iter_child_nodes(node):
            if isinstance(n, (ast.FunctionDef, ast.AsyncFunctionDef, ast.ClassDef)):
                q = prefix + n.name
                if not isinstance(n, ast.ClassDef):
                    out.append((q, n))
                walk(n, q + '.')
    with open(os.path.join(src, rel)) as f:
        walk(ast.parse(f.read()), '')
    return out


def no_stack_reference(src, problems):
    """Fail-closed fact behind the assumption "an opaque call leaves the thread-local stack and the callback
    deques alone", for the callees that live in the anchor files: every function there that is neither
    translated nor shape-pinned must not mention any identifier of STACK_IDS.  New functions are covered too."""
    import ast
    with open(os.path.join(HERE, 'pins.json')) as f:
        pins = json.load(f)
    with open(os.path.join(HERE, 'pins_masked.json')) as f:
        for rel, qs in json.load(f).items():
            pins.setdefault(rel, {}).update(qs)
    tied = set(TR.TRANSLATED) | set(TB.TRANSLATED_B)
    n = 0
    for rel in ANCHOR_FILES:
        pinned = list(pins.get(rel, {}))
        try:
            fns = anchor_functions(src, rel)
        except (OSError, SyntaxError) as e:
            problems.append('no_stack_reference: cannot parse %s: %s' % (rel, e))
            continue
        for q, node in fns:
            if '%s:%s' % (rel, q) in tied or any(q == pq or q.startswith(pq + '.') for pq in pinned):
                continue
            if any(t.startswith('%s:%s.' % (rel, q)) for t in tied):
                pass        # a translated closure lives inside: the outer function is still scanned below
            ids = set()
            for x in ast.walk(node):
                if isinstance(x, (ast.FunctionDef, ast.AsyncFunctionDef)) and x is not node and \
                        '%s:%s.%s' % (rel, q, x.name) in tied:
                    continue
                if isinstance(x, ast.Name):
                    ids.add(x.id)
                elif isinstance(x, ast.Attribute):
                    ids.add(x.attr)
            hit = sorted(ids & STACK_IDS)
            n += 1
            if hit:
                problems.append('no_stack_reference: %s:%s (neither translated nor pinned) now mentions %s'
                                % (rel, q, ', '.join(hit)))
    return n


def binding_facts(src, problems):
    """module-level / class-level bindings the translation relies on: which object `manager` and
    `RequestContext` denote in each translated module"""
    import ast

    def imports(rel, module, name):
        m = F.Module(src, rel)
        ok = any(isinstance(st, ast.ImportFrom) and st.module == module and st.level == 0
                 and any(a.name == name and a.asname is None for a in st.names) for st in m.tree.body)
        rebound = [st for st in m.tree.body if isinstance(st, (ast.Assign, ast.FunctionDef, ast.ClassDef)) and (
            getattr(st, 'name', None) == name or any(isinstance(t, ast.Name) and t.id == name
                                                     for t in getattr(st, 'targets', [])))]
        if not ok or rebound:
            problems.append('binding: %s no longer takes `%s` (only) from %s' % (rel, name, module))
    try:
        imports('pyramid/view.py', 'pyramid.threadlocal', 'manager')
        imports('pyramid/config/__init__.py', 'pyramid.threadlocal', 'manager')
        imports('pyramid/router.py', 'pyramid.threadlocal', 'RequestContext')
        imports('pyramid/scripting.py', 'pyramid.threadlocal', 'RequestContext')
        t = F.Module(src, 'pyramid/threadlocal.py')
        if ast.unparse(t.const_expr('manager')) != 'ThreadLocalManager(default=defaults)':
            problems.append('binding: threadlocal.manager is no longer ThreadLocalManager(default=defaults)')
        c = F.Module(src, 'pyramid/config/__init__.py')
        cls = [n for n in c.tree.body if isinstance(n, ast.ClassDef) and n.name == 'Configurator'][0]
        attrs = [ast.unparse(st.value) for st in cls.body if isinstance(st, ast.Assign)
                 and any(isinstance(tg, ast.Name) and tg.id == 'manager' for tg in st.targets)]
        if attrs != ['manager']:
            problems.append('binding: Configurator.manager class attribute is no longer the thread-local manager: %r' % attrs)
        bases = [ast.unparse(b) for b in cls.bases]
        for need in ('ActionConfiguratorMixin', 'RoutesConfiguratorMixin'):
            if need not in bases:
                problems.append('binding: Configurator no longer inherits %s' % need)
    except Exception as e:
        problems.append('binding facts unrecognised: %r' % e)


# ---- the event gate `has_listeners` (code OUTSIDE the anchor files the property's NewResponse clause passes
# through: pyramid/registry.py, Configurator._fix_registry).  The router only notifies when the flag is set, so
# the model's "the NewResponse subscriber runs" rests on: the flag is never switched off again.  Fail-closed:
# the exact list of places in src/pyramid that store to / delete / name-as-a-string `has_listeners`, and the
# exact list of names the Registry class body defines (a new override such as unregisterHandler is a problem).
HAS_LISTENERS_SITES = sorted([
    ('pyramid/registry.py', 'Registry', 'has_listeners = False'),
    ('pyramid/registry.py', 'Registry.registerSubscriptionAdapter', 'self.has_listeners = True'),
    ('pyramid/registry.py', 'Registry.registerHandler', 'self.has_listeners = True'),
    ('pyramid/config/__init__.py', 'Configurator._fix_registry', '_registry.has_listeners = True'),
    ('pyramid/config/__init__.py', 'Configurator._fix_registry', "'has_listeners'"),
    ('pyramid/router.py', 'Router.handle_request', 'has_listeners = registry.has_listeners'),
    ('pyramid/router.py', 'Router.invoke_request', 'has_listeners = registry.has_listeners'),
])
REGISTRY_CLASS_NAMES = ['has_listeners', '_settings', '__init__', '_clear_view_lookup_cache', '__bool__',
                        'package_name', 'registerSubscriptionAdapter', 'registerSelfAdapter', 'queryAdapterOrSelf',
                        'registerHandler', 'notify', '_get_settings', '_set_settings', 'settings']


def has_listeners_facts(src, problems):
    import ast
    found = []
    root = os.path.join(src, 'pyramid')
    for dirpath, dirs, files in os.walk(root):
        dirs[:] = [d for d in dirs if d not in ('scaffolds', '__pycache__')]
        for fn in sorted(files):
            if not fn.endswith('.py'):
                continue
            path = os.path.join(dirpath, fn)
            rel = os.path.relpath(path, src)
            try:
                with open(path) as f:
                    text = f.read()
                if 'has_listeners' not in text:
                    continue
                tree = ast.parse(text)
            except (OSError, SyntaxError, UnicodeDecodeError) as e:
                problems.append('has_listeners: cannot parse %s: %s' % (rel, e))
                continue

            def walk(node, qual):
                for ch in ast.iter_child_nodes(node):
                    q = qual
                    if isinstance(ch, (ast.FunctionDef, ast.AsyncFunctionDef, ast.ClassDef)):
                        q = (qual + '.' if qual else '') + ch.name
                        doc = ast.get_docstring(ch, clean=False)
                    if isinstance(ch, (ast.Assign, ast.AugAssign, ast.AnnAssign, ast.Delete)):
                        tgs = getattr(ch, 'targets', None) or [getattr(ch, 'target', None)]
                        for t in tgs:
                            for x in ast.walk(t) if t is not None else []:
                                if (isinstance(x, ast.Attribute) and x.attr == 'has_listeners') or \
                                        (isinstance(x, ast.Name) and x.id == 'has_listeners'):
                                    found.append((rel, qual, ast.unparse(ch)))
                    if isinstance(ch, ast.Constant) and isinstance(ch.value, str) and ch.value == 'has_listeners':
                        found.append((rel, qual, repr(ch.value)))
                    if isinstance(ch, (ast.For, ast.With, ast.NamedExpr, ast.comprehension)):
                        for x in ast.walk(getattr(ch, 'target', None) or ast.Pass()):
                            if isinstance(x, ast.Name) and x.id == 'has_listeners':
                                found.append((rel, qual, 'bound by %s' % type(ch).__name__))
                    walk(ch, q)
            walk(tree, '')
    found.sort()
    if found != HAS_LISTENERS_SITES:
        extra = [x for x in found if x not in HAS_LISTENERS_SITES]
        gone = [x for x in HAS_LISTENERS_SITES if x not in found]
        problems.append('has_listeners gate: the places that set the flag changed (the router skips every event, '
                        'NewResponse included, when it is off): new %r, gone %r' % (extra, gone))
    try:
        m = F.Module(src, 'pyramid/registry.py')
        cls = m.find('Registry')
        names = []
        for st in cls.body:
            if isinstance(st, (ast.FunctionDef, ast.AsyncFunctionDef, ast.ClassDef)):
                names.append(st.name)
            elif isinstance(st, ast.Assign):
                names += [t.id for t in st.targets if isinstance(t, ast.Name)]
            elif isinstance(st, ast.AnnAssign) and isinstance(st.target, ast.Name):
                names.append(st.target.id)
        if names != REGISTRY_CLASS_NAMES:
            problems.append('Registry class body: names defined changed: new %r, gone %r'
                            % ([n for n in names if n not in REGISTRY_CLASS_NAMES],
                               [n for n in REGISTRY_CLASS_NAMES if n not in names]))
        if [ast.unparse(b) for b in cls.bases] != ['Components', 'dict']:
            problems.append('Registry bases changed: %r' % [ast.unparse(b) for b in cls.bases])
    except Exception as e:
        problems.append('Registry class facts unrecognised: %r' % e)
    return len(found)


# ---- wrappers of the scope API OUTSIDE the anchor files (pyramid.paster.bootstrap hands out the scripting
# environment of scripting.prepare; the p* scripts and testing.py use it / the manager).  Fail-closed: the exact list
# of functions outside the anchor files that mention prepare / get_root / bootstrap / RequestContext / a `manager` /
# env['closer'] -- a new wrapper is a Problem until it is tied -- and, for bootstrap, that the object it returns IS the
# one prepare() returned (an AppEnvironment: the documented `with bootstrap(..) as env:` needs its __enter__/__exit__).
SCOPE_API_USERS = sorted([
    ('pyramid/paster.py', 'bootstrap', ('prepare',)),                     # translated (skeleton) + returns_env fact
    ('pyramid/testing.py', 'setUp', ('manager',)),                        # test support, not modelled
    ('pyramid/testing.py', 'tearDown', ('manager',)),
    ('pyramid/config/assets.py', 'OverrideProvider.get_resource_filename', ('manager',)),   # pkg_resources' manager
    ('pyramid/config/assets.py', 'OverrideProvider.get_resource_stream', ('manager',)),
    ('pyramid/config/assets.py', 'OverrideProvider.get_resource_string', ('manager',)),
    ('pyramid/scripts/ptweens.py', 'PTweensCommand.run', ('bootstrap',)),  # one-shot command line scripts
    ('pyramid/scripts/pviews.py', 'PViewsCommand.run', ('bootstrap', 'closer')),
    ('pyramid/scripts/proutes.py', 'PRoutesCommand.run', ('bootstrap',)),
    ('pyramid/scripts/pshell.py', 'PShellCommand.run', ('bootstrap',)),
])


def scope_api_facts(src, problems):
    import ast
    found = []
    for dirpath, dirs, files in os.walk(os.path.join(src, 'pyramid')):
        dirs[:] = [d for d in dirs if d not in ('scaffolds', '__pycache__', 'tests')]
        for fn in sorted(files):
            if not fn.endswith('.py'):
                continue
            rel = os.path.relpath(os.path.join(dirpath, fn), src)
            if rel in ANCHOR_FILES:
                continue
            try:
                fns = anchor_functions(src, rel)
            except (OSError, SyntaxError, UnicodeDecodeError) as e:
                problems.append('scope api users: cannot parse %s: %s' % (rel, e))
                continue
            for q, node in fns:
                ids = set()
                for x in ast.walk(node):
                    if isinstance(x, ast.Name) and x.id in ('prepare', 'manager', 'bootstrap', 'get_root', 'RequestContext'):
                        ids.add(x.id)
                    if isinstance(x, ast.Attribute) and x.attr in ('bootstrap', 'get_root', 'RequestContext', 'manager'):
                        ids.add(x.attr)
                    if isinstance(x, ast.Subscript) and isinstance(x.slice, ast.Constant) and x.slice.value == 'closer':
                        ids.add('closer')
                if ids:
                    found.append((rel, q, tuple(sorted(ids))))
    found.sort()
    if found != SCOPE_API_USERS:
        problems.append('scope API users outside the anchor files changed: new %r, gone %r'
                        % ([x for x in found if x not in SCOPE_API_USERS], [x for x in SCOPE_API_USERS if x not in found]))
    # bootstrap returns the very object prepare() returned
    try:
        node = F.Module(src, 'pyramid/paster.py').find('bootstrap')
        body = [s for s in node.body if not (isinstance(s, ast.Expr) and isinstance(s.value, ast.Constant))]
        var = None
        ok = True
        for st in body:
            if isinstance(st, ast.Assign) and len(st.targets) == 1 and isinstance(st.targets[0], ast.Name) \
                    and isinstance(st.value, ast.Call) and ast.unparse(st.value.func) == 'prepare':
                if var is not None:
                    ok = False
                var = st.targets[0].id
            elif var is not None:
                for x in ast.walk(st):
                    if isinstance(x, ast.Name) and x.id == var and isinstance(x.ctx, (ast.Store, ast.Del)):
                        ok = False
        rets = [x for x in ast.walk(node) if isinstance(x, ast.Return)]
        if var is None or not ok or len(rets) != 1 or not (isinstance(rets[0].value, ast.Name) and rets[0].value.id == var) \
                or body[-1] is not rets[0]:
            problems.append('paster.bootstrap no longer returns the object scripting.prepare() returned (the documented '
                            '`with bootstrap(..) as env:` relies on AppEnvironment.__enter__/__exit__)')
        m = F.Module(src, 'pyramid/paster.py')
        imp = any(isinstance(st, ast.ImportFrom) and st.module == 'pyramid.scripting'
                  and any(a.name == 'prepare' and a.asname is None for a in st.names) for st in m.tree.body)
        if not imp:
            problems.append('binding: pyramid/paster.py no longer takes `prepare` from pyramid.scripting')
    except Exception as e:
        problems.append('paster.bootstrap facts unrecognised: %r' % e)
    return len(found)


def facts(src):
    problems = []
    summary = F.check_shapes(src, os.path.join(HERE, 'pins.json'), problems)
    summary.update(check_masked(src, problems))
    summary['no_stack_reference_functions'] = no_stack_reference(src, problems)
    binding_facts(src, problems)
    summary['has_listeners_sites'] = has_listeners_facts(src, problems)
    summary['scope_api_users_outside_anchor_files'] = scope_api_facts(src, problems)
    try:
        t = TR.translate(src)
        problems += t['problems']
        coq = F.HEADER + t['coq']
        summary['skeletons'] = t['skeletons']
    except Exception as e:  # fail closed: without skeletons nothing type-checks
        problems.append('translator failed: %r' % e)
        coq = F.HEADER
    # part (b): the router functions translated into the exception/state monad (generated = reference theorems)
    tb = TB.translate(src)
    problems += tb['problems']
    gen = tb['coq']
    if tb['problems']:
        with open(os.path.join(HERE, 'gen_fallback_b.v')) as f:     # stored translation of the modelled text
            gen = f.read()
    summary['translated_b'] = TB.TRANSLATED_B
    coq += '\nRequire Import Verif.Lib.C13Monad.\n' + gen
    return {'coq': coq, 'summary': summary, 'problems': problems}


# ------------------------------------------------------------ cases
from harness.c13 import scopes as SC   # noqa: E402  (no pyramid import at module level there)

POINTS = list(range(1, 21))
MAY_FALSE = (4, 10, 11)
# [point, which (1 response / 2 finished / 3 both), n]: n only matters at the callback points 16/18 -- the
# registration is made by the n-th callback of that kind to run, so chains of callbacks registering
# callbacks of their own kind are possible and bounded
REG_PATTERNS = [[],
                [[1, 3, 0], [12, 3, 0], [18, 2, 0], [16, 1, 0]],
                [[3, 3, 0], [19, 3, 0], [20, 3, 0], [16, 2, 0], [12, 1, 0], [18, 2, 1], [18, 2, 2], [16, 3, 1]]]


def scn(route=0, faults=(), regs=(), sub=None):
    return {'route': int(route), 'faults': [list(f) for f in faults], 'regs': [list(r) for r in regs], 'sub': sub}


def single_faults():
    out = []
    for p in POINTS:
        for k in (1, 2, 3, 4):
            if k == 4 and p not in MAY_FALSE:
                continue
            for n in ((0, 1) if p in (16, 18) else (0,)):
                out.append([p, k, n])
    return out


def enumerate_single():
    """every single injection point x kind x exception-view configuration x route x registration pattern.
    configuration = mask (bit 0 view for Exception, bit 1 view for HTTPException, bit 2 default
    exceptionresponse view) and, when a view exists, whether it renders or raises each kind."""
    out = []
    for regs in REG_PATTERNS:
        for route in (0, 1):
            for mask in range(8):
                modes = [[]]
                if mask & 1:
                    modes += [[[19, k, 0]] for k in (1, 2, 3)]
                if mask & 2:
                    modes += [[[20, k, 0]] for k in (1, 2, 3)]
                if mask & 3 == 3:
                    modes += [[[20, 3, 0], [19, k, 0]] for k in (1, 3)]
                for extra in modes:
                    out.append({'t': 'req', 'excview': mask, 'scn': scn(route, extra, regs)})
                    if regs is REG_PATTERNS[0] and (extra or mask in (2, 4, 6)) and route:
                        continue            # keep the quick tier small: full sweep on the other slices
                    for f in single_faults():
                        if any(f[0] == e[0] for e in extra):
                            continue
                        out.append({'t': 'req', 'excview': mask, 'scn': scn(route, [f] + extra, regs)})
    return out


def enumerate_late_subscribers():
    """the router was built from a registry without any subscriber; the subscribers are added afterwards
    (excview mask + 8): every single fault again, so NewResponse / the other events must still occur"""
    out = []
    for mask in (8, 9, 15):
        for route in (0, 1):
            out.append({'t': 'req', 'excview': mask, 'scn': scn(route, [], REG_PATTERNS[1])})
            for f in single_faults():
                out.append({'t': 'req', 'excview': mask, 'scn': scn(route, [f], REG_PATTERNS[1])})
    return out


def enumerate_registry_history():
    """excview mask + 16: handlers / subscription adapters were registered on the app's registry and removed again
    before the request (history on one long-lived registry): every single fault again"""
    out = []
    for mask in (16, 17, 23, 24):
        for route in (0, 1):
            out.append({'t': 'req', 'excview': mask, 'scn': scn(route, [], REG_PATTERNS[1])})
            for f in single_faults():
                out.append({'t': 'req', 'excview': mask, 'scn': scn(route, [f], REG_PATTERNS[1])})
    return out


def enumerate_retry():
    """the same request object through Router.invoke_request twice (custom execution policy retrying inside one
    request context): first attempt x single fault, second attempt healthy, and the other way round; both
    attempts register callbacks of both kinds, also from callbacks"""
    out = []
    regs = REG_PATTERNS[1]
    for mode in (0, 1):
        for mask in (0, 1, 7):
            for route in ((0, 1) if mask == 1 else (0,)):
                out.append({'t': 'retry', 'excview': mask, 'mode': mode, 'scn': scn(route, [], regs),
                            'scn2': scn(route, [], regs)})
                for f in single_faults():
                    out.append({'t': 'retry', 'excview': mask, 'mode': mode, 'scn': scn(route, [f], regs),
                                'scn2': scn(route, [], regs)})
                    out.append({'t': 'retry', 'excview': mask, 'mode': mode, 'scn': scn(route, [[12, 1, 0]], regs),
                                'scn2': scn(route, [f], REG_PATTERNS[2])})
    return out


def enumerate_interleavings():
    """two fresh threads: A is inside its view while B (touching the thread-local manager for the first time)
    serves a complete request; then A's view probes its frame again"""
    out = []
    a_scns = [scn(0), scn(1, [[12, 1, 0]], REG_PATTERNS[1]), scn(0, [[13, 2, 0]], REG_PATTERNS[1]),
              scn(1, [], REG_PATTERNS[2])]
    b_scns = [scn(0), scn(1, [[7, 1, 0]]), scn(0, [[12, 2, 0]], REG_PATTERNS[1])]
    for mask in (0, 1, 7):
        for a in a_scns:
            for b in b_scns:
                out.append({'t': 'interleave', 'a': {'t': 'req', 'excview': mask, 'scn': a},
                            'b': {'t': 'req', 'excview': mask, 'scn': b}})
    return out


def enumerate_pairs():
    """thorough tier: every unordered pair of faults in one request x mask in {0,1,7} x route, and every
    (parent fault, subrequest fault) pair x use_tweens"""
    fs = single_faults()
    for mask in (0, 1, 7):
        for route in (0, 1):
            for i in range(len(fs)):
                for j in range(i + 1, len(fs)):
                    if fs[i][0] == fs[j][0] and fs[i][2] == fs[j][2]:
                        continue
                    yield {'t': 'req', 'excview': mask, 'scn': scn(route, [fs[i], fs[j]], REG_PATTERNS[1])}
    for mask in (0, 3):
        for tw in (0, 1):
            for a in fs:
                for b in fs:
                    yield {'t': 'req', 'excview': mask,
                           'scn': scn(1, [a], [[1, 3, 0], [12, 2, 0], [18, 2, 0]],
                                      {'tweens': tw, 'scn': scn(0, [b], [[3, 3, 0], [12, 3, 0], [16, 1, 0]])})}


_INJ_SITES = {}


def enumerate_scopes():
    """hand-written failure sites + one case per statement with an opaque call that the healthy run of the scope
    executes inside a translated function (derived from the translation, see scopes.injection_sites)"""
    out = [{'t': 'scope', 'name': n, 'site': s} for n in SC.SCOPES for s in SC.SITES[n]]
    for n in SC.SCOPES:
        for base in SC.SITES[n]:
            if n.startswith('bootstrap') and base not in ('none', 'current'):
                continue        # each case loads the PasteDeploy ini: injected sites on the healthy bases only
            if (n, base) not in _INJ_SITES:
                try:
                    _INJ_SITES[(n, base)] = SC.injection_sites(n, base)
                except Exception:
                    _INJ_SITES[(n, base)] = []
            suffix = '' if base == 'none' else '@' + base
            out += [{'t': 'scope', 'name': n, 'site': 'inj:%d%s' % (k, suffix)} for k, _lab in _INJ_SITES[(n, base)]]
    return out


def rand_scn(rng, depth):
    nf = rng.choice([0, 1, 1, 1, 2, 2, 3])
    faults = []
    for _ in range(nf):
        p = rng.choice(POINTS)
        k = rng.choice([1, 2, 3, 4] if p in MAY_FALSE else [1, 2, 3])
        faults.append([p, k, rng.choice([0, 0, 1, 2]) if p in (16, 18) else 0])
    regs = []
    for _ in range(rng.choice([0, 1, 2, 3, 4, 5])):
        p = rng.choice(POINTS + [16, 18, 18])
        regs.append([p, rng.choice([1, 2, 3]), rng.choice([0, 0, 1, 2]) if p in (16, 18) else 0])
    sub = None
    if depth > 0 and rng.random() < 0.55:
        sub = {'tweens': rng.choice([0, 1]), 'place': rng.choice([0, 0, 1]), 'scn': rand_scn(rng, depth - 1)}
    return scn(rng.choice([0, 1]), faults, regs, sub)


def generate(rng, tier, n):
    fixed = enumerate_scopes() + enumerate_interleavings() + enumerate_single() + enumerate_late_subscribers() \
        + enumerate_registry_history() + enumerate_retry()
    if tier == 'thorough':
        fixed.append({'t': 'soak', 'threads': 16, 'per_thread': 400, 'seed': 13})
    for c in fixed:
        yield c
    if tier == 'thorough':
        for c in enumerate_pairs():
            yield c
    # single fault inside a subrequest, parent healthy
    k = 0
    for tw in (0, 1):
        for ev in (0, 1, 6):
            for p in POINTS:
                for kind in (1, 2, 3):
                    yield {'t': 'req', 'excview': ev,
                           'scn': scn(1, [], [[1, 3, 0], [12, 2, 0], [18, 2, 0]],
                                      {'tweens': tw, 'scn': scn(0, [[p, kind, 0]], [[3, 3, 0], [12, 3, 0], [16, 1, 0]])})}
                    k += 1
    # the subrequest started from the TWEEN over the excview tween (on egress) instead of from the view
    for tw in (0, 1):
        for ev in (0, 1, 7):
            for p in POINTS:
                for kind in (1, 2, 3):
                    yield {'t': 'req', 'excview': ev,
                           'scn': scn(1, [], [[1, 3, 0], [12, 2, 0], [18, 2, 0]],
                                      {'tweens': tw, 'place': 1,
                                       'scn': scn(0, [[p, kind, 0]], [[3, 3, 0], [12, 3, 0], [16, 1, 0]])})}
                    yield {'t': 'req', 'excview': ev,
                           'scn': scn(0, [[p, kind, 0]], [[1, 3, 0], [12, 2, 0], [18, 2, 0]],
                                      {'tweens': tw, 'place': 1, 'scn': scn(1, [], [[3, 3, 0], [12, 3, 0]])})}
                    k += 2
    m = max(0, n - len(fixed) - k)
    for i in range(m):
        if i % 8 == 7:
            s1, s2 = rand_scn(rng, 0), rand_scn(rng, 0)
            s2['route'] = s1['route']       # one request object: the URL (route or traversal) is the first attempt's
            yield {'t': 'retry', 'excview': rng.choice(range(8)), 'mode': rng.choice([0, 1]), 'scn': s1, 'scn2': s2}
            continue
        yield {'t': 'req', 'excview': rng.choice([0, 1, 1, 2, 3, 4, 5, 6, 7, 7]) + rng.choice([0, 0, 8]) + rng.choice([0, 0, 0, 16]), 'scn': rand_scn(rng, rng.choice([0, 1, 1, 2, 3]))}


def _valid_scn(s, depth):
    if depth > 6 or not isinstance(s, dict) or set(s) != {'route', 'faults', 'regs', 'sub'}:
        return False
    if s['route'] not in (0, 1):
        return False
    for f in s['faults']:
        if not (isinstance(f, list) and len(f) == 3 and f[0] in POINTS and f[1] in (1, 2, 3, 4) and 0 <= f[2] < 8):
            return False
        if f[1] == 4 and f[0] not in MAY_FALSE:
            return False
    for r in s['regs']:
        if not (isinstance(r, list) and len(r) == 3 and r[0] in POINTS and r[1] in (1, 2, 3) and 0 <= r[2] < 8):
            return False
    if len(s['regs']) > 12 or len(s['faults']) > 8:
        return False
    if s['sub'] is not None:
        if not (isinstance(s['sub'], dict) and set(s['sub']) in ({'tweens', 'scn'}, {'tweens', 'scn', 'place'})
                and s['sub']['tweens'] in (0, 1) and s['sub'].get('place', 0) in (0, 1)):
            return False
        return _valid_scn(s['sub']['scn'], depth + 1)
    return True


def valid(case):
    try:
        if case.get('t') == 'scope':
            if case['name'] not in SC.SCOPES:
                return False
            if case['site'] in SC.SITES[case['name']]:
                return True
            if not case['site'].startswith('inj:'):
                return False
            k, _, base = case['site'][4:].partition('@')
            return k.isdigit() and int(k) < 2000 and (base == '' or base in SC.SITES[case['name']])
        if case.get('t') == 'soak':
            return case['threads'] == 16 and 0 < case['per_thread'] <= 2000
        if case.get('t') == 'interleave':
            return valid(case['a']) and valid(case['b']) and case['a']['t'] == 'req' and case['b']['t'] == 'req'
        if case.get('t') == 'retry':
            return case['excview'] in range(8) and case['mode'] in (0, 1) and _valid_scn(case['scn'], 0) \
                and _valid_scn(case['scn2'], 0) and case['scn']['sub'] is None and case['scn2']['sub'] is None \
                and case['scn']['route'] == case['scn2']['route'] \
                and set(case) == {'t', 'excview', 'mode', 'scn', 'scn2'}
        return case.get('t') == 'req' and case['excview'] in range(32) and _valid_scn(case['scn'], 0)
    except Exception:
        return False


def shrinks(case):
    if case.get('t') not in ('req', 'retry'):
        return

    def sub_variants(s):
        if s['sub'] is not None:
            yield dict(s, sub=None)
            yield s['sub']['scn']
        for i in range(len(s['faults'])):
            yield dict(s, faults=s['faults'][:i] + s['faults'][i + 1:])
        for i in range(len(s['regs'])):
            yield dict(s, regs=s['regs'][:i] + s['regs'][i + 1:])
        for i, r in enumerate(s['regs']):
            if r[2]:
                yield dict(s, regs=s['regs'][:i] + [[r[0], r[1], 0]] + s['regs'][i + 1:])
            if r[1] == 3:
                yield dict(s, regs=s['regs'][:i] + [[r[0], 2, r[2]]] + s['regs'][i + 1:])
        for i, f in enumerate(s['faults']):
            if f[1] != 1 and f[1] != 4:
                yield dict(s, faults=s['faults'][:i] + [[f[0], 1, f[2]]] + s['faults'][i + 1:])
            if f[2]:
                yield dict(s, faults=s['faults'][:i] + [[f[0], f[1], 0]] + s['faults'][i + 1:])
        if s['route']:
            yield dict(s, route=0)
        if s['sub'] is not None:
            for v in sub_variants(s['sub']['scn']):
                yield dict(s, sub=dict(s['sub'], scn=v))
            if s['sub']['tweens']:
                yield dict(s, sub=dict(s['sub'], tweens=0))
            if s['sub'].get('place', 0):
                yield dict(s, sub=dict(s['sub'], place=0))
    for v in sub_variants(case['scn']):
        yield dict(case, scn=v)
    if case['t'] == 'retry':
        for v in sub_variants(case['scn2']):
            yield dict(case, scn2=v)
        if case['mode']:
            yield dict(case, mode=0)
    for bit in (16, 8, 4, 2, 1):
        if case['excview'] & bit:
            yield dict(case, excview=case['excview'] & ~bit)


# ------------------------------------------------------------ implementation
_cache = {}


def setup(tier):
    from harness.c13 import app as A
    for m in range(32):
        A.get_app(m)


def _key(case):
    return json.dumps(case, sort_keys=True)


def soak(case):
    """16 threads run the same request scenarios at once, each on its own thread-local stack under its own
    sentinel frame; every observation must equal the single-threaded one and every thread must end with
    exactly its sentinel.  A test (reported in evidence), not part of the proof."""
    import random
    import threading
    from pyramid.threadlocal import manager
    from harness.c13 import app as A
    rng = random.Random(case['seed'])
    cases = [{'t': 'req', 'excview': rng.choice(range(8)), 'scn': rand_scn(rng, rng.choice([0, 1, 2]))}
             for _ in range(case['per_thread'])]
    expected = [A.run_request(c) for c in cases]
    nthreads = case['threads']
    barrier = threading.Barrier(nthreads)
    res = [None] * nthreads

    def worker(i):
        order = list(range(len(cases)))
        random.Random(case['seed'] * 1000 + i).shuffle(order)
        sentinel = {'request': None, 'registry': None, 'c13-thread': i}
        manager.push(sentinel)
        bad = 0
        barrier.wait()
        for j in order:
            if A.run_request(cases[j]) != expected[j]:
                bad += 1
        stray = 0 if (len(manager.stack) == 1 and manager.stack[0] is sentinel) else 1
        manager.pop()
        res[i] = (bad, stray)
    ts = [threading.Thread(target=worker, args=(i,)) for i in range(nthreads)]
    for t in ts:
        t.start()
    for t in ts:
        t.join()
    done = [r for r in res if r is not None]
    return [sum(r[0] for r in done), sum(r[1] for r in done), len(done)]


def interleave(case):
    """thread A enters its view, thread B (a fresh thread: first use of the manager) serves a whole request, A's view
    then probes again; both observations must equal the single-threaded ones and both threads must end with an
    empty stack.  -> [mismatches, stray frames, threads done]"""
    import threading
    from pyramid.threadlocal import manager
    from harness.c13 import app as A
    exp_a = A.run_request(case['a'], hook=lambda: None)
    exp_b = A.run_request(case['b'])
    a_in_view, b_done = threading.Event(), threading.Event()
    res = {}

    def hook():
        a_in_view.set()
        b_done.wait(10)

    def run_a():
        try:
            got = A.run_request(case['a'], hook=hook)
            res['a'] = (0 if got == exp_a else 1, 0 if len(manager.stack) == 0 else 1)
        except BaseException:
            res['a'] = (1, 1)
        finally:
            a_in_view.set()

    def run_b():
        try:
            a_in_view.wait(10)
            got = A.run_request(case['b'])
            res['b'] = (0 if got == exp_b else 1, 0 if len(manager.stack) == 0 else 1)
        except BaseException:
            res['b'] = (1, 1)
        finally:
            b_done.set()
    ta, tb = threading.Thread(target=run_a), threading.Thread(target=run_b)
    ta.start()
    tb.start()
    ta.join(30)
    tb.join(30)
    return [sum(v[0] for v in res.values()), sum(v[1] for v in res.values()), len(res)]


def _run(case):
    if case['t'] == 'interleave':
        return interleave(case)
    if case['t'] == 'scope':
        return SC.run_scope(case['name'], case['site'])
    if case['t'] == 'soak':
        return soak(case)
    from harness.c13 import app as A
    return A.run_request(case)


def run_impl(case):
    k = _key(case)
    if k not in _cache:
        if len(_cache) > 400000:
            _cache.clear()
        _cache[k] = _run(case)
    return _cache[k]


# ------------------------------------------------------------ wire
def _scn_wire(s):
    return [s['route'], [list(f) for f in s['faults']], [list(r) for r in s['regs']],
            [] if s['sub'] is None else [s['sub']['tweens'], s['sub'].get('place', 0), _scn_wire(s['sub']['scn'])]]


def to_wire(case):
    try:
        obs = run_impl(case)
    except Exception:
        obs = None
    if case['t'] == 'scope':
        return [SC.SCOPES[case['name']][0], [] if obs is None else list(obs)]
    if case['t'] == 'soak':
        return [case['threads']]
    if case['t'] == 'interleave':
        return [2]
    ob = []
    if obs is not None and obs[1] >= 0:
        ob = [obs[1], [list(e) for e in obs[2]]]
    if case['t'] == 'retry':
        return [case['excview'] & 7, case['mode'], _scn_wire(case['scn']), _scn_wire(case['scn2']), ob]
    return [case['excview'] & 7, _scn_wire(case['scn']), ob]


def from_wire(case, raw):
    if raw == [['bad']]:
        return {'model': ['MODEL-BAD'], 'spec': None}
    if case['t'] in ('soak', 'interleave'):
        return {'model': raw, 'spec': [1, 1]}
    if case['t'] == 'scope':
        paths, cls, jo = raw
        return {'model': sorted(set(tuple(p) for p in paths)), 'spec': [cls, jo[0] if jo else -1]}
    outcome, depth, log, jm, jo = raw
    oc = ['resp', outcome[1]] if outcome[0] == 0 else ['exc', outcome[1]]
    return {'model': [oc, depth, log], 'spec': [jm, jo[0] if jo else -1]}


def equiv(case, obs, model):
    if case['t'] == 'scope':
        # inner == 2: the inner moment was not reached / not observable in this run
        return any(list(p[:3]) == obs[:3] and (obs[3] == 2 or obs[3] == p[3]) for p in model)
    return False


def spec_holds(case, obs, spec):
    """the extracted judge (Model/C13.v judge / scope_spec), evaluated on the IMPLEMENTATION's observation"""
    if case['t'] == 'soak':
        return obs == [0, 0, case['threads']]
    if case['t'] == 'interleave':
        return obs == [0, 0, 2]
    if spec is None or not isinstance(spec, list) or len(spec) != 2:
        return None
    if spec[1] == -1:
        return None
    return bool(spec[1])


def classify(case, obs, spec):
    if case['t'] == 'scope' and case['name'] in ('get_root', 'prepare', 'prepare_with') \
            and case['site'] in ('root_factory', 'root_factory_base', 'extensions') and obs[:3] == [1, 0, 1] and obs[3] != 0:
        return 'C13-scripting-acquire-leak'
    if case['t'] == 'scope' and case['name'] in ('prepare_closer', 'prepare_with') \
            and case['site'] == 'finished_callback' and obs[:3] in ([1, 0, 0], [1, 0, 1]) and obs[3] != 0:
        return 'C13-scripting-closer-skips-end'
    return None


def _fired(case, obs):
    """faults whose point appears in the log"""
    pts = set((e[0], e[1]) for e in obs[2])
    out = []
    if case['t'] == 'retry':
        return [f for f in case['scn']['faults'] + case['scn2']['faults'] if (f[0], 0) in pts]
    s, lvl = case['scn'], 0
    while s is not None:
        out += [f for f in s['faults'] if (f[0], lvl) in pts]
        s = s['sub']['scn'] if s['sub'] else None
        lvl += 1
    return out


def nontrivial(case, obs):
    if not isinstance(obs, list) or (obs and obs[0] == 'HARNESS-EXC'):
        return False
    if case['t'] == 'scope':
        return case['site'] != 'none'
    if case['t'] in ('soak', 'interleave'):
        return True
    return bool(_fired(case, obs)) or any(e[0] in (16, 18) for e in obs[2])


def kinds(case, obs):
    if not isinstance(obs, list) or (obs and obs[0] == 'HARNESS-EXC'):
        return ['harness-exc']
    if case['t'] == 'scope':
        return ['scope:%s' % case['name'], 'scope-exit:%s' % ('raise' if obs[0] else 'return'),
                'scope-path:%s:%s' % (case['name'], ''.join(str(x) for x in obs[:3])),
                'scope-site:%s' % ('injected-at-opaque-call' if case['site'].startswith('inj:') else 'hand-written')]
    if case['t'] == 'interleave':
        return ['interleave:two-threads', 'interleave:%s' % ('ok' if obs == [0, 0, 2] else 'differs')]
    if case['t'] == 'soak':
        return ['soak:%d-threads-x-%d-requests mismatches=%s stray-frames=%s threads-done=%s'
                % (case['threads'], case['per_thread'], obs[0], obs[1], obs[2])]
    from harness.c13.app import POINT_NAMES
    k = ['outcome:%s' % ('response-from-%s' % POINT_NAMES.get(obs[0][1], obs[0][1]) if obs[0][0] == 'resp'
                         else 'exception-kind-%s' % obs[0][1])]
    k.append('excview-mask:%d' % (case['excview'] & 7))
    if case['t'] == 'retry':
        k.append('retry:same-request-through-invoke_request-twice' if any(e[0] == 22 for e in obs[2])
                 else 'retry:first-attempt-returned')
        k.append('retry-mode:%s' % ('always' if case['mode'] else 'after-failure'))
        n1 = [e[0] for e in obs[2]].index(22) if any(e[0] == 22 for e in obs[2]) else len(obs[2])
        if any(e[0] == 18 for e in obs[2][n1:]):
            k.append('retry:finished-callback-ran-in-second-attempt')
        if any(e[0] == 16 for e in obs[2][n1:]):
            k.append('retry:response-callback-ran-in-second-attempt')
        k.append('faults-fired:%d' % len(_fired(case, obs)))
        return k
    k.append('subscribers:%s' % ('added-after-the-app-was-built' if case['excview'] & 8 else 'before'))
    k.append('registry-history:%s' % ('handlers-registered-and-removed-before-the-request' if case['excview'] & 16
                                      else 'none'))
    depth, s = 0, case['scn']
    while s['sub']:
        depth, s = depth + 1, s['sub']['scn']
    k.append('subrequest-depth:%d' % depth)
    fired = _fired(case, obs)
    k.append('faults-fired:%d' % len(fired))
    for f in fired:
        k.append('fault@%s' % POINT_NAMES[f[0]])
        k.append('fault-kind:%s' % {1: 'plain', 2: 'http', 3: 'predicate-mismatch', 4: 'false/denied'}[f[1]])
    if any(e[0] in (19, 20) for e in obs[2]):
        k.append('exception-view-ran')
    if sum(1 for e in obs[2] if e[0] in (19, 20) and e[1] == 0) > 1:
        k.append('second-exception-view-tried')
    if any(e[0] == 16 for e in obs[2]):
        k.append('response-callback-ran')
    if any(e[0] == 18 for e in obs[2]):
        k.append('finished-callback-ran')
    if any(e[1] > 0 for e in obs[2]):
        k.append('subrequest-ran')
        s0 = case['scn']
        if s0.get('sub') and s0['sub'].get('place', 0) == 1:
            k.append('subrequest-started-from-the-over-tween')
    if any(e[0] == 18 and e[4] == 18 for e in obs[2]):
        k.append('finished-callback-registered-by-finished-callback-ran')
    if any(e[0] == 16 and e[4] == 16 for e in obs[2]):
        k.append('response-callback-registered-by-response-callback-ran')
    return k


def describe(case):
    return case


def explain(item):
    c = item['case']
    if c.get('t') == 'interleave':
        return ('two fresh threads, A pauses inside its view while B serves a whole request: [observations differing from the '
                'single-threaded run, threads ending with a non-empty stack, threads done]')
    if c.get('t') == 'soak':
        return 'soak: [observations differing from the single-threaded run, threads ending with a stray frame, threads done]'
    if c.get('t') == 'scope' and c['site'].startswith('inj:'):
        try:
            k, _, base = c['site'][4:].partition('@')
            lab = dict(SC.injection_sites(c['name'], base or 'none')).get(int(k), '?')
        except Exception:
            lab = '?'
        return ('scope %s, healthy scenario, with an exception injected (interpreter trace hook) at executed statement #%s '
                'with an opaque call (base scenario after @, healthy if none): %s (function:line<translated callers); observed [exit 0=return/1=raise, frames '
                "popped from the caller's stack, frames left pushed, inner moment] = %r"
                % (c['name'], c['site'][4:], lab, item['impl']))
    if c.get('t') == 'scope':
        return ('scope %s with a failure injected at %s: observed [exit 0=return/1=raise, frames popped from the '
                "caller's stack, frames left pushed] = %r" % (c['name'], c['site'], item['impl']))
    if c.get('t') == 'retry':
        return ('one request object sent through Router.invoke_request twice by a retrying execution policy (marker = '
                'point 22 between the attempts); observed [outcome, final depth, log of [point, level, depth, '
                'current-is-this, aux]]')
    return 'request scenario; observed [outcome, final depth, log of [point, level, depth, current-is-this, aux]]'


def targeted(broken, disagreements, rng):
    """a broken skeleton theorem / pin: replay every scope with every failure site, then the single-fault sweep"""
    return enumerate_scopes() + enumerate_single() + enumerate_late_subscribers() + enumerate_registry_history()
