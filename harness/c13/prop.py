"""C13 -- thread-local state restored and callbacks run on every path."""
import os
from harness.common import facts as F
from harness.c13 import translate as TR

ID = 'C13'
HERE = os.path.dirname(os.path.abspath(__file__))


def facts(src):
    problems = []
    summary = {}
    if os.path.exists(os.path.join(HERE, 'pins.json')):
        summary = F.check_shapes(src, os.path.join(HERE, 'pins.json'), problems)
    try:
        t = TR.translate(src)
        problems += t['problems']
        coq = F.HEADER + t['coq']
        summary['skeletons'] = t['skeletons']
    except Exception as e:  # fail closed: no skeletons -> nothing type-checks
        problems.append('translator failed: %r' % e)
        coq = F.HEADER
    return {'coq': coq, 'summary': summary, 'problems': problems}
