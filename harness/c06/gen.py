"""Case generator for C06: routes (mostly separable patterns), keyword values drawn from each placeholder's
language over a nasty alphabet (str / bytes / int / float / sequences), remainder values (sequences and
'/'-joined strings, normal and not), extra elements, SCRIPT_NAME variants, query / anchor."""
import json
from harness.c17 import prop as P17

ASTRAL = '\U0001d11e'
PLAIN = list('abcxyzABZ0189')
NASTY = ['%', '?', '#', ';', '+', ' ', '"', '<', '>', '[', ']', '{', '}', '|', '\\', '^', '`', '\t', '\x00', '\x7f',
         '\xe9', '\xfc', '€', ASTRAL, '-', '.', '_', '~', ':', '@', '!', '$', '&', "'", '(', ')', '*', ',', '=',
         '\n', '\r', '\xa0', '١', '%41', '%2F', '%25', '%', '�', 'ı', '\xc9'] + \
    ['e\u0301', 'A\u030a', '\u212b', '\u2126', '\u1100\u1161', '\ufb01', '\uff0f', '\u0130', '\xdf', '\u1e9b\u0323',
     '\u0301', '\u03a3', '\u03c2']
# the second list: text that a Unicode normalisation (NFC / NFD / NFKC), a case mapping or a case folding would change --
# a base letter followed by a combining mark, singletons (ANGSTROM SIGN, OHM SIGN), conjoining Hangul jamo, a ligature,
# a full-width solidus, dotted capital I, sharp s, a sequence whose canonical order differs, a lone combining mark,
# capital / final sigma: producer and consumer must treat them alike
DIGITS = list('0123456789') * 2 + ['١']
WORD = list('abcXY09_') * 2 + ['\xe9', '١']


def _any(excl):
    def pool(rng):
        while True:
            c = rng.choice(NASTY) if rng.random() < 0.45 else rng.choice(PLAIN)
            if not any(x in c for x in excl):
                return c
    return pool


def _from(chars):
    return lambda rng: rng.choice(chars)


# (regex text | None = default, sampler of one character (may be multi-char escapes), lo, hi, excluded characters)
HOLES = [
    (None, _any('/'), 1, None, '/'), (None, _any('/'), 1, None, '/'), (None, _any('/'), 1, None, '/'),
    (None, _any('/'), 1, None, '/'),
    ('\\d+', _from(DIGITS), 1, None, None),
    ('[a-z]+', _from(list('abcxyz')), 1, None, None),
    ('[^/.]+', _any('/.'), 1, None, '/.'),
    ('[^/-]+', _any('/-'), 1, None, '/-'),
    ('.+', _any('\n'), 1, None, '\n'),
    ('.*', _any('\n'), 0, None, '\n'),
    ('\\w+', _from(WORD), 1, None, None),
    ('[^/]*', _any('/'), 0, None, '/'),
    ('\\d{4}', _from(DIGITS), 4, 4, None),
    ('[a-c0-9]{1,3}', _from(list('abc0123456789')), 1, 3, None),
    ('[^/]+', _any('/'), 1, None, '/'),
    ('[^/%]+', _any('/%'), 1, None, '/%'),
]
SEPS = ['/', '/', '/', '/x/', '-', '.', '.html', '_', '%', ' ', '~', '/\xe9/', ',', ';', '=', '/%/', '/a b/', '.€', '@', '+',
        '/(x)/', '/[', '$', '^', '?', '#x', '\\']
LITS = ['', '', 'a', 'app', 'x y', '100%', 'caf\xe9', '€', 'v1.0', 'a+b', '(x)', '[z]', 'q?', '#h', 'a&b=c', "it's", '~u',
        ASTRAL, 'A;p', 'a,b', '%41', '%%', '^$', '\\d', 'x|y', 'Jose\u0301', '\u212bm', 'Stra\xdfe', ' pad ',
        ':8080', '12:30', '{8080}']
# literal text that LOOKS like a marker to a slightly different module regex (old_route_re / route_re / star_at_end): a colon
# followed by a digit, a non-ASCII letter or digit, punctuation or nothing; braces around a non-name.  In an old-style
# pattern (':name' markers, no '{..}') they must stay literal text
OLD_COLON_LITS = [':8080', '12:30', 'v:2', ':\xe9', 'a:', '::', ':-', ':1x', 'at:\u0661', 'localhost:8080', ':\u0301']
NAMES = ['id', 'name', 'x', 'y', 'n0', 'n1', '_v', 'slug']
STARS = ['rest', 'traverse', 'subpath', 'tail']


def gen_struct(rng, separable=True):
    elems = [('lit', '/' + rng.choice(LITS) + ('/' if rng.random() < 0.5 else ''))]
    if elems[0][1].endswith('//'):
        elems[0] = ('lit', elems[0][1][:-1])
    nh = rng.choice([0, 1, 1, 1, 2, 2, 3])
    names = rng.sample(NAMES, nh)
    for i, nm in enumerate(names):
        elems.append(('hole', nm, rng.choice(HOLES)))
        if i + 1 < nh:
            if separable or rng.random() < 0.8:
                elems.append(('lit', rng.choice(SEPS) + (rng.choice(LITS) + '/' if rng.random() < 0.2 else '')))
        elif rng.random() < 0.5:
            elems.append(('lit', rng.choice(SEPS) + (rng.choice(LITS) if rng.random() < 0.3 else '')))
    star = None
    if rng.random() < 0.35:
        star = rng.choice(STARS)
        last = elems[-1]
        if separable or rng.random() < 0.7:
            if last[0] == 'hole':
                elems.append(('lit', '/'))
            elif not last[1].endswith('/') and rng.random() < 0.8:
                elems[-1] = ('lit', last[1] + '/')
    return elems, star


def render(elems, star, old=False):
    out = ''
    for e in elems:
        if e[0] == 'lit':
            out += e[1]
        elif old:
            out += ':' + e[1]
        else:
            out += '{%s}' % e[1] if e[2][0] is None else '{%s:%s}' % (e[1], e[2][0])
    if star is not None:
        out += '*' + star
    return out


def gen_pattern(rng, separable=True):
    """-> (pattern text, elems, star)"""
    for _ in range(50):
        elems, star = gen_struct(rng, separable)
        old = rng.random() < 0.10 and all(e[0] == 'lit' or e[2][0] is None for e in elems) \
            and not any(e[0] == 'lit' and ('{' in e[1] or ':' in e[1]) for e in elems)
        if old:
            # old-style names end at the first non-word character: keep the literal after a name non-word
            ok = True
            for i, e in enumerate(elems):
                if e[0] == 'hole' and i + 1 < len(elems) and elems[i + 1][0] == 'lit' and elems[i + 1][1][:1].isalnum():
                    ok = False
                if e[0] == 'hole' and i + 1 < len(elems) and elems[i + 1][0] == 'lit' and elems[i + 1][1][:1] == '_':
                    ok = False
            if not ok:
                old = False
        if old and rng.random() < 0.5:
            # a literal colon that is not a marker, in front of the first marker (kept apart from it by '/')
            elems = [('lit', elems[0][1].rstrip('/') + '/' + rng.choice(OLD_COLON_LITS) + '/')] + list(elems[1:])
        p = render(elems, star, old)
        if '*' in p[:-1 - len(star or '')] and star is None:
            continue
        if P17._external(p):
            continue
        pp = P17.parse_pattern(p)
        if pp is None:
            continue
        # the harness-side reading must agree with the structure the values are generated for
        if [h[0] for h in pp['holes']] != [e[1] for e in elems if e[0] == 'hole'] or (pp['star'] or None) != star:
            continue
        return p, elems, star
    return '/', [('lit', '/')], None


def sample_value(rng, spec, avoid=''):
    _rx, pool, lo, hi, _excl = spec
    n = rng.randint(lo, min(hi, lo + 3) if hi is not None else lo + rng.choice([0, 0, 1, 2, 3]))
    out = []
    for _ in range(n):
        for _try in range(20):
            c = pool(rng)
            if not avoid or not any(a in c for a in avoid):
                break
        else:
            c = 'a'
        out.append(c)
    return ''.join(out)


def typed(rng, text):
    """a Python value that stands for [text] (str mostly; bytes; int / float when the text allows)"""
    r = rng.random()
    try:
        if r < 0.10 and not any(0xd800 <= ord(c) <= 0xdfff for c in text):
            return ['v', ['b', list(text.encode('utf-8'))]]
        if r < 0.22 and text.isascii() and text.isdigit() and (text == '0' or not text.startswith('0')) and len(text) < 15:
            return ['v', ['i', int(text)]]
    except Exception:
        pass
    return ['v', ['s', text]]


def gen_hole_kw(rng, spec, next_lit):
    r = rng.random()
    first = next_lit[:1] if next_lit else ''
    if r < 0.80:
        return typed(rng, sample_value(rng, spec, first))
    if r < 0.86:
        return typed(rng, sample_value(rng, spec))
    if r < 0.89:
        return ['v', ['s', rng.choice(['', 'a/b', '/', 'x\ny', 'A', '-', '.', 'a.b', '1-2', ' ', '0'])]]
    if r < 0.92:
        # the same text as a literal piece of some pattern: quoted there under safe='/' (history of _segment_cache)
        return ['v', ['s', rng.choice([x for x in LITS if x])]]
    if r < 0.945:
        return ['v', ['i', rng.choice([0, 7, 42, -3, 2026, 10 ** 12 + 1])]]
    if r < 0.955:
        k = rng.choice([0, 1, 2, 7])
        return ['v', ['n', k, rng.choice(['%d.0' % k] + ([{0: 'False', 1: 'True'}[k]] if k in (0, 1) else []))]]
    if r < 0.97:
        return ['q', [P17.gen_pval(rng, 0.0) for _ in range(rng.choice([0, 1, 2]))], rng.choice(['list', 'tuple'])]
    return ['v', P17.gen_pval(rng, 0.5)]


SEG_POOL = _any('/')


def gen_segment(rng):
    n = rng.choice([1, 1, 2, 2, 3, 4])
    s = ''.join(SEG_POOL(rng) for _ in range(n))
    return 'x' if s in ('.', '..') else s


def gen_star_kw(rng):
    r = rng.random()
    if r < 0.55:
        segs = [gen_segment(rng) for _ in range(rng.choice([0, 1, 1, 2, 2, 3]))]
        items = []
        for s in segs:
            t = typed(rng, s)[1]
            items.append(t)
        # one-shot iterators (iter(...), a generator expression): consumed by whoever iterates first
        return ['q', items, rng.choice(['list', 'tuple', 'list', 'tuple', 'list', 'tuple', 'iter', 'gen'])]
    if r < 0.70:
        segs = [rng.choice(['', '.', '..', 'a/b', '/x', 'x/', 'a', gen_segment(rng), '...', ' ', '\n', 'a\nb'])
                for _ in range(rng.choice([1, 2, 3]))]
        return ['q', [['s', s] for s in segs], rng.choice(['list', 'tuple'])]
    if r < 0.92:
        s = rng.choice(['a/b', '/a/b/', 'a//b', 'x%y/\xe9', '', 'a/../b', '/', '../x', 'a/./b', 'a\nb', '\n', 'a/b\n',
                        '/'.join(gen_segment(rng) for _ in range(rng.choice([1, 2, 3])))])
        return typed(rng, s)
    if r < 0.96:
        return ['v', ['i', rng.choice([0, 5, 2026])]]
    return ['v', P17.gen_pval(rng, 0.5)]


HOSTS = [None, None, 'localhost', 'localhost:80', 'localhost:8080', 'example.com:443', 'example.com']


def gen_env(rng):
    return {'scheme': rng.choice(['http', 'http', 'https']), 'http_host': rng.choice(HOSTS),
            'server_name': rng.choice(['srv', 'localhost']), 'server_port': rng.choice(['80', '443', '8080', '6543']),
            'script_name': rng.choice(P17.SCRIPTS) if rng.random() < 0.55 else ''}


def gen_case(rng, separable=None):
    if separable is None:
        separable = rng.random() < 0.85
    pattern, elems, star = gen_pattern(rng, separable)
    kw = []
    holes = [(i, e) for i, e in enumerate(elems) if e[0] == 'hole']
    for i, e in holes:
        nxt = elems[i + 1][1] if i + 1 < len(elems) and elems[i + 1][0] == 'lit' else ''
        kw.append([e[1], gen_hole_kw(rng, e[2], nxt)])
    if star is not None:
        kw.append([star, gen_star_kw(rng)])
    meta = {'separable_gen': int(separable)}
    r = rng.random()
    if kw and r < 0.05:
        kw.pop(rng.randrange(len(kw)))
        meta['dropped'] = 1
    if rng.random() < 0.08:
        kw.append([rng.choice(['extra', 'other', 'zz']), rng.choice([['v', ['s', 'e x']], ['v', ['i', 3]],
                                                                     ['q', [['s', 'a']], 'tuple'], ['v', P17.gen_pval(rng)]])])
    rng.shuffle(kw)
    routes = [['target', pattern]]
    n_other = rng.choice([0, 0, 0, 1, 1, 2])
    for j in range(n_other):
        op = gen_pattern(rng, True)[0]
        if rng.random() < 0.5:
            routes.insert(0, ['other%d' % j, op])
        else:
            routes.append(['other%d' % j, op])
    if rng.random() < 0.5:
        routes.append(['catchall', rng.choice(['/*all', '/*all', '*everything'])])
    target = 'target' if rng.random() < 0.98 else rng.choice(['nosuch', 'catchall'])
    if target == 'catchall' and not any(n == 'catchall' for n, _ in routes):
        target = 'nosuch'
    if target != 'target':
        meta['other_target'] = 1
    els = []
    if rng.random() < 0.25:
        els = [P17.gen_pval(rng, 0.04) for _ in range(rng.choice([1, 1, 2, 3]))]
        if rng.random() < 0.3:
            els[-1] = ['s', rng.choice([x for x in LITS if x] + ['a/b', 'x/', '/'])]
        if rng.random() < 0.4 and kw:
            # the same text as a keyword value: quoted under another safe set (history of _segment_cache)
            v = kw[0][1]
            if v[0] == 'v' and v[1][0] == 's':
                els[0] = ['s', v[1][1]]
    ov = {'app_url': None, 'scheme': None, 'host': None, 'port': None, 'query': None, 'anchor': None}
    if rng.random() < 0.3:
        ov['query'] = P17.gen_query(rng)
    if rng.random() < 0.25:
        ov['anchor'] = P17.gen_pval(rng, 0.04)
    return {'routes': routes, 'target': target, 'env': gen_env(rng), 'elements': els, 'ov': ov, 'kw': kw, 'meta': meta}


# ---- histories: several generations in one process; remainder sequences hold non-string elements that are equal as
# dictionary keys (1 == True == 1.0 == Decimal('1.00')) but print differently, in both orders
def num_forms(k):
    forms = [['i', k], ['n', k, '%d.0' % k], ['d', k, '%d' % k], ['d', k, '%d.0' % k], ['d', k, '%d.00' % k], ['s', '%d' % k]]
    if k in (0, 1):
        forms.append(['n', k, 'True' if k else 'False'])
    return forms


def gen_hist_case(rng):
    for _ in range(30):
        pattern, elems, star = gen_pattern(rng, True)
        if star is not None:
            break
    else:
        pattern, elems, star = '/s/*rest', [('lit', '/s/')], 'rest'
    if rng.random() < 0.3:
        pattern, elems, star = '/s/*rest', [('lit', '/s/')], 'rest'
    holes = [(i, e) for i, e in enumerate(elems) if e[0] == 'hole']
    k = rng.choice([0, 1, 1, 1, 2, 7])
    forms = num_forms(k)
    tail = [['s', rng.choice(['a', 'x y', '\xe9'])]] if rng.random() < 0.5 else []
    calls = []
    for _ in range(rng.choice([2, 2, 3, 4])):
        kw = []
        for i, e in holes:
            nxt = elems[i + 1][1] if i + 1 < len(elems) and elems[i + 1][0] == 'lit' else ''
            kw.append([e[1], typed(rng, sample_value(rng, e[2], nxt[:1]))])
        r = rng.random()
        if r < 0.8:
            seq = [rng.choice(forms)] + tail
            if rng.random() < 0.25:
                seq = [rng.choice(forms)] + seq        # two equal keys inside one call
        elif r < 0.9:
            seq = [rng.choice(num_forms(rng.choice([0, 1, 2])))] + tail
        else:
            seq = [['s', gen_segment(rng)]]
        kw.append([star, ['q', seq, rng.choice(['list', 'tuple'])]])
        rng.shuffle(kw)
        calls.append(kw)
    # a later call without a value an earlier call supplied (KeyError is due, whatever was generated before), and the
    # same call once more (the same path is then requested and matched a second time)
    if rng.random() < 0.4:
        i = rng.randrange(1, len(calls) + 1)
        short = [kv for kv in calls[i - 1]]
        short.pop(rng.randrange(len(short)))
        calls.insert(i, short)
    if rng.random() < 0.4:
        calls.append([kv for kv in calls[rng.randrange(len(calls))]])
    return {'kind': 'hist', 'route': ['r', pattern], 'calls': calls, 'meta': {'hist': 1}}


def hist_pairs():
    """every ordered pair of forms of 0, 1, 2 on the plainest route"""
    out = []
    for k in (0, 1, 2):
        fs = num_forms(k)
        for a in fs:
            for b in fs:
                if a != b:
                    out.append({'kind': 'hist', 'route': ['r', '/s/*rest'],
                                'calls': [[['rest', ['q', [a, ['s', 'a']], 'tuple']]], [['rest', ['q', [b, ['s', 'a']], 'tuple']]]],
                                'meta': {'hist': 1, 'targeted': 1}})
    return out


# ---- histories on ONE request object: SCRIPT_NAME changes between generations (request.script_name = ...,
# environ['SCRIPT_NAME'] = ..., path_info_pop()), every generation judged against the environ it was made under
POP_PATHS = ['/sub/x', '/a b/c', '//x/\xe9', '/~u', '/a%b/c', '', '/', '/x?y/z', '/app/v1/items']


def G_text(rng):
    return ''.join(SEG_POOL(rng) for _ in range(rng.choice([1, 2, 3])))


ECHO_TEXTS = ['x/', 'a/b/', '/', 'p q/', 'a+b', "it's", '(x)', 'a,b/', '~u/', '%41/', '\xe9/', 'e\u0301/', '\u212b']


def gen_echo_case(rng):
    """one text quoted under different safe sets within one history: as an extra element (PATH_SEGMENT_SAFE), as an
    element of a remainder sequence and as a {name} value (PATH_SAFE), as a literal of the pattern (safe='/')"""
    t = rng.choice(ECHO_TEXTS)
    lit = t.strip('/') or 'l'
    pattern = rng.choice(['/e/*rest', '/e/{v:.+}/*rest', '/' + lit.replace('{', '').replace('}', '').replace('*', '') + '/*rest'])
    kw_with = [['rest', ['q', [['s', 'k'], ['s', t]], rng.choice(['list', 'tuple'])]]]
    kw_plain = [['rest', ['q', [['s', 'k']], 'tuple']]]
    if '{v' in pattern:
        kw_with.append(['v', ['v', ['s', t]]])
        kw_plain.append(['v', ['v', ['s', 'w']]])
    ov = {'app_url': None, 'scheme': None, 'host': None, 'port': None, 'query': None, 'anchor': None}
    a = ['gen', [['s', t]], ov, kw_plain]                 # the text as an extra element
    b = ['gen', [['s', 'e']], ov, kw_with]                # the text as a value, followed by another element
    steps = [a, b] if rng.random() < 0.5 else [b, a]
    if rng.random() < 0.3:
        steps.append(rng.choice([a, b]))
    return {'kind': 'req', 'routes': [['target', pattern]], 'target': 'target',
            'env': {'scheme': 'http', 'http_host': None, 'server_name': 'srv', 'server_port': '80',
                    'script_name': rng.choice(['', '/app'])},
            'path_info': '', 'steps': steps, 'meta': {'req': 1, 'echo': 1}}


def gen_req_case(rng):
    if rng.random() < 0.15:
        return gen_echo_case(rng)
    base = gen_case(rng, True)
    base['target'] = 'target'
    env = base['env']
    env['script_name'] = rng.choice(P17.SCRIPTS) if rng.random() < 0.7 else ''
    steps = []

    k = rng.choice([0, 1, 1, 2])
    eqforms = [['i', k], ['n', k, '%d.0' % k]] + ([['n', k, 'True' if k else 'False']] if k in (0, 1) else [])
    eqtail = [['s', rng.choice(['rev', 'a b', 'x'])]] if rng.random() < 0.5 else []
    mode = rng.choice(['base', 'base', 'equal', 'equal', 'none'])

    def gen_step():
        if mode == 'equal':
            els = eqtail + [rng.choice(eqforms)]
        elif mode == 'base':
            els = base['elements'] if rng.random() < 0.5 else []
        else:
            els = []
        kw = base['kw']
        if kw and steps and rng.random() < 0.2:
            kw = [kv for kv in kw]
            kw.pop(rng.randrange(len(kw)))        # a value an earlier generation supplied is left out now
        return ['gen', els, base['ov'], kw]
    if rng.random() < 0.85:
        steps.append(gen_step())
    for _ in range(rng.choice([1, 1, 2, 3])):
        r = rng.random()
        if r < 0.45:
            steps.append(['set', rng.choice(P17.SCRIPTS), rng.choice(['attr', 'environ'])])
        elif r < 0.6:
            steps.append(['set', '/' + G_text(rng), rng.choice(['attr', 'environ'])])
        else:
            steps.append(['pop'])
        if rng.random() < 0.9:
            steps.append(gen_step())
    return {'kind': 'req', 'routes': base['routes'], 'target': base['target'], 'env': env,
            'path_info': rng.choice(POP_PATHS), 'steps': steps, 'meta': {'req': 1}}


# ---- placeholders whose regular expression is outside C01's sublanguage: capturing and non-capturing groups,
# alternation, lazy quantifiers, several groups in one placeholder (no named inner groups, no back-references, no
# look-around: see ASSUMPTIONS).  (regex, the pieces a value is made of, lo, hi)
OPEN_HOLES = [
    ('(en|fr)', ['en', 'fr'], 1, 1), ('(19|20)\\d\\d', ['1999', '2024', '2000'], 1, 1),
    ('(\\d{2}|\\d{4})', ['12', '2024', '07'], 1, 1), ('(small|large)', ['small', 'large'], 1, 1),
    ('(?:a|b)+', ['a', 'b'], 1, 3), ('([a-z]+)', list('abcxyz'), 1, 3), ('(a)(b)?', ['a', 'ab'], 1, 1),
    ('((x)y)+', ['xy'], 1, 2), ('\\d+?', list('0123456789'), 1, 3), ('a|bc', ['a', 'bc'], 1, 1),
    ('(\\w+)-(\\w+)', ['a-b', 'x1-y2', '\xe9-z'], 1, 1), ('([^/]+)', ['a', 'b c', '%', '\xe9', 'e\u0301'], 1, 2),
    ('(?:(v)(\\d))?z', ['z', 'v1z', 'v7z'], 1, 1), ('()\\d', list('0123456789'), 1, 1), ('(a*)(a*)b', ['b', 'ab', 'aab'], 1, 1),
]
OPEN_SEPS = ['/', '/', '/', '/docs/', '-', '.', '_', '/x/', '~', ',', '/e\u0301/']
OPEN_WRONG = ['de', 'x', '', '1', 'A', 'a/b', 'zz', ' ']


def gen_open_case(rng):
    """a target pattern with at least one such placeholder, FOLLOWED by another placeholder or a remainder (so that the
    groups inside the regex sit in front of a later named group); short texts: the specification enumerates every way of
    cutting the path along the pattern, the harness ships re.fullmatch for every substring"""
    for _ in range(30):
        elems = [('lit', '/' + rng.choice(['', '', 'a/', 'thumb/', 'caf\xe9/', 'x y/']))]
        nh = rng.choice([1, 2, 2, 2, 3])
        names = rng.sample(NAMES, nh)
        k_open = rng.randrange(nh) if rng.random() < 0.7 else 0
        specs = []
        for i, nm in enumerate(names):
            if i == k_open or rng.random() < 0.3:
                rx, pieces, lo, hi = rng.choice(OPEN_HOLES)
                spec = (rx, _from(pieces), lo, hi, None)
            else:
                spec = rng.choice(HOLES[:8])
            specs.append(spec)
            elems.append(('hole', nm, spec))
            if i + 1 < nh or rng.random() < 0.4:
                elems.append(('lit', rng.choice(OPEN_SEPS)))
        star = None
        if rng.random() < (0.7 if nh == 1 else 0.3):
            star = rng.choice(STARS)
            if elems[-1][0] == 'hole':
                elems.append(('lit', '/'))
        p = render(elems, star)
        if P17._external(p):
            continue
        pp = P17.parse_pattern(p)
        if pp is None or [h[0] for h in pp['holes']] != names or (pp['star'] or None) != star:
            continue
        kw = []
        for i, e in enumerate(elems):
            if e[0] != 'hole':
                continue
            nxt = elems[i + 1][1] if i + 1 < len(elems) and elems[i + 1][0] == 'lit' else ''
            if rng.random() < 0.9:
                text = sample_value(rng, (e[2][0], e[2][1], e[2][2], min(e[2][3] or 2, 2), None), nxt[:1] if e[2][4] else '')
            else:
                text = rng.choice(OPEN_WRONG)
            kw.append([e[1], typed(rng, text)])
        if star is not None:
            segs = [rng.choice(['a', 'b c', 'docs', '7', '\xe9', 'x.y']) for _ in range(rng.choice([0, 1, 2, 2]))]
            kw.append([star, ['q', [typed(rng, s)[1] for s in segs], rng.choice(['list', 'tuple'])]
                       if rng.random() < 0.8 else ['v', ['s', '/'.join(segs)]]])
        if rng.random() < 0.05 and kw:
            kw.pop(rng.randrange(len(kw)))
        rng.shuffle(kw)
        routes = [['target', p]]
        if rng.random() < 0.3:
            routes.append(['catchall', '/*all'])
        els = [['s', rng.choice(['e', 'x y', '7'])]] if rng.random() < 0.1 else []
        return {'routes': routes, 'target': 'target',
                'env': {'scheme': 'http', 'http_host': None, 'server_name': 'srv', 'server_port': '80',
                        'script_name': rng.choice(['', '', '/app', '/a b'])},
                'elements': els,
                'ov': {'app_url': None, 'scheme': None, 'host': None, 'port': None, 'query': None, 'anchor': None},
                'kw': kw, 'meta': {'open': 1}}
    return gen_case(rng, True)


def generate(rng, tier, n):
    for _ in range(n):
        r = rng.random()
        yield gen_hist_case(rng) if r < 0.12 else gen_req_case(rng) if r < 0.24 else gen_open_case(rng) if r < 0.30 \
            else gen_case(rng)


def simple_case(pattern, kw, script='', els=(), routes_after=(('catchall', '/*all'),)):
    return {'routes': [['target', pattern]] + [list(r) for r in routes_after], 'target': 'target',
            'env': {'scheme': 'http', 'http_host': None, 'server_name': 'srv', 'server_port': '80', 'script_name': script},
            'elements': list(els),
            'ov': {'app_url': None, 'scheme': None, 'host': None, 'port': None, 'query': None, 'anchor': None},
            'kw': kw, 'meta': {'targeted': 1}}


def targeted(rng):
    out = []
    chars = [chr(i) for i in range(128)] + ['\xe9', '\xfc', '€', ASTRAL, '\xa0', '١', '\xff']
    for ch in chars:
        if ch != '/':
            out.append(simple_case('/p/{x}/q', [['x', ['v', ['s', 'a' + ch + 'b']]]]))
            out.append(simple_case('/p/{x}', [['x', ['v', ['s', ch]]]]))
            out.append(simple_case('/s/*rest', [['rest', ['q', [['s', 'a' + ch], ['s', ch + 'b']], 'tuple']]]))
            out.append(simple_case('/p/{x}', [['x', ['v', ['s', 'v']]]], els=[['s', ch + 'e']]))
        out.append(simple_case('/s/*rest', [['rest', ['v', ['s', 'a' + ch + '/' + ch + 'b']]]]))
        if ch not in '{}*:':
            out.append(simple_case('/l' + ch + 'm/{x}' + (ch if ch != '/' else '-') + 'z', [['x', ['v', ['s', 'v']]]]))
            out.append(simple_case('/l' + ch + ch + '/{x}', [['x', ['v', ['s', ch + 'v']]]], script='/m' + (ch if ch != '/' else 'n')))
    for s in ['%', '%%', '%41', '%2F', '%s', '%(x)s', '%%(x)s', 'a%b%c', '100%']:
        out.append(simple_case('/' + s + '/{x}/' + s, [['x', ['v', ['s', s]]]]))
        out.append(simple_case('/f/{x}.' + s, [['x', ['v', ['s', 'n']]]], els=[['s', s]]))
        out.append(simple_case('/g/*r', [['r', ['q', [['s', s], ['s', 'k']], 'list']]], script='/' + s))
    for piece in OLD_COLON_LITS + ['{8080}', '{}', '{ x}']:
        # old-style spelling, the same pattern new-style, and the placeholder-free pattern
        if '{' not in piece:
            out.append(simple_case('/p/' + piece + '/:x', [['x', ['v', ['s', 'v']]]]))
            out.append(simple_case('/p/' + piece + '/:x/*rest', [['x', ['v', ['s', 'v']]], ['rest', ['q', [['s', 'a']], 'tuple']]]))
        out.append(simple_case('/p/' + piece + '/{x}', [['x', ['v', ['s', 'v']]]]))
        out.append(simple_case('/c/' + piece, []))
    out += hist_pairs()
    for _ in range(300):
        out.append(gen_req_case(rng))
    for _ in range(200):
        out.append(gen_hist_case(rng))
    for _ in range(400):
        out.append(gen_case(rng, True))
    for _ in range(300):
        out.append(gen_open_case(rng))
    return out
