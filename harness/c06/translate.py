"""Translator for C06 (fail-closed): the generation half of a compiled route, regenerated from the source on every run.

    pyramid/urldispatch.py:_compile_route.generator  -> gen_generator_body (one iteration of the loop over dict.items())
                                                        gen_generator      (the loop + `gen % newdict`)
    pyramid/urldispatch.py:_compile_route.q          -> gen_q_pv / gen_q_kw (the same def at the two types of its argument)

into coq/Gen/Code_C06.v.  Control flow is mechanical (blocks = continuations, assignments = let / rebinding with a new
type, if/elif/else = Gallina if with the rest of the block in both arms, the for loop = `mfold` over the items with the
mutated dictionary as the carried state, calls that may raise or touch traversal._segment_cache = `mbind` in the
state-and-error monad M of Model/C06.v).  Leaves go through the PRIMITIVE TABLE below; anything else raises Problem and the
run falls back to the stored reference translation (gen_fallback.json), reporting the tie as broken.

PRIMITIVE TABLE (Python leaf -> Gallina of Model/C06.v; types: KW keyword value, PV element of a sequence, TEXT quoted
text, TEXTS list of TEXT, KEY dictionary key, DICT list of (KEY, TEXT), STAR the remainder name, TPL the template)
    v.__class__ is bytes / is not bytes      kv_is_bytes v (negb ..)            v : KW
    v.__class__ is str   / is not str        kv_is_str v   (negb ..)            v : KW
    k == remainder / remainder == k / !=     star_eq remainder k                k : KEY, remainder : STAR
    is_nonstr_iter(v)                        kv_is_seq v                        v : KW
    v.decode('utf-8')                        mlift (kv_decode_utf8 v) : M KW    (any other codec: Problem)
    str(v)                                   mlift (kv_str v) : M KW            v : KW  (str of bytes: error value)
    q(v)                                     gen_q_kw sf v | gen_q_pv sf v : M TEXT   by the type of v
    quote_path_segment(v, safe=PATH_SAFE)    q_kw sf v | q_pv sf v : M TEXT     (another safe set: Problem)
    [E for x in v]                           mmapM (fun x => E) (kv_items v) : M TEXTS   v : KW, x : PV, E : M TEXT
    '<sep>'.join(l)                          join <sep> l : TEXT                l : TEXTS
    {}                                       [] : DICT
    d[k] = v                                 d := dstore d k v                  d : DICT, k : KEY, v : TEXT
    gen % newdict                            mlift (format_template gen newdict) : M TEXT
    for k, v in dict.items():                mfold body items state k_end       (no break / continue / else)
    not / and / or                           negb / && / ||
"""
import ast
import json
import os

HERE = os.path.dirname(os.path.abspath(__file__))
FALLBACK = os.path.join(HERE, 'gen_fallback.json')
TRANSLATED = ['pyramid/urldispatch.py:_compile_route.generator', 'pyramid/urldispatch.py:_compile_route.q']

KW, PV, TEXT, TEXTS, KEY, DICT, STAR, TPL, ITEMS = 'KW', 'PV', 'TEXT', 'TEXTS', 'KEY', 'DICT', 'STAR', 'TPL', 'ITEMS'
COQTY = {KW: 'kwval', PV: 'pval', TEXT: 'text', TEXTS: 'list text', KEY: 'text', DICT: 'list (text * text)',
         STAR: 'option text', TPL: 'list tpart', ITEMS: 'list (text * kwval)'}


class Problem(Exception):
    pass


def u(n):
    try:
        return ast.unparse(n)[:80]
    except Exception:
        return type(n).__name__


def coq_text(s):
    if any(ord(c) > 0x10ffff for c in s):
        raise Problem('text literal')
    return '[' + '; '.join(str(ord(c)) for c in s) + ']' + ('%N' if s else '')


class Fn:
    def __init__(self, fdef, qtype=None):
        self.fdef = fdef
        self.n = 0
        self.qtype = qtype

    def fresh(self, base):
        self.n += 1
        return '%s_%d' % (''.join(c for c in base if c.isalnum() or c == '_') or 'x', self.n)

    # ---------------------------------------------------------------- conditions (pure booleans)
    def cond(self, t, env):
        if isinstance(t, ast.UnaryOp) and isinstance(t.op, ast.Not):
            return 'negb (%s)' % self.cond(t.operand, env)
        if isinstance(t, ast.BoolOp):
            op = ' && ' if isinstance(t.op, ast.And) else ' || '
            return '(' + op.join('(%s)' % self.cond(x, env) for x in t.values) + ')'
        if isinstance(t, ast.Compare) and len(t.ops) == 1 and len(t.comparators) == 1:
            a, op, b = t.left, t.ops[0], t.comparators[0]
            if isinstance(a, ast.Attribute) and a.attr == '__class__' and isinstance(a.value, ast.Name) \
                    and isinstance(b, ast.Name) and b.id in ('bytes', 'str') and isinstance(op, (ast.Is, ast.IsNot)):
                term, ty = self.var(a.value.id, env)
                if ty != KW:
                    raise Problem('class test on a %s: %s' % (ty, u(t)))
                r = '%s %s' % ('kv_is_bytes' if b.id == 'bytes' else 'kv_is_str', term)
                return r if isinstance(op, ast.Is) else 'negb (%s)' % r
            if isinstance(a, ast.Name) and isinstance(b, ast.Name) and isinstance(op, (ast.Eq, ast.NotEq)):
                (ta, tya), (tb, tyb) = self.var(a.id, env), self.var(b.id, env)
                if (tya, tyb) == (KEY, STAR):
                    r = 'star_eq %s %s' % (tb, ta)
                elif (tya, tyb) == (STAR, KEY):
                    r = 'star_eq %s %s' % (ta, tb)
                else:
                    raise Problem('comparison of %s and %s: %s' % (tya, tyb, u(t)))
                return r if isinstance(op, ast.Eq) else 'negb (%s)' % r
        if isinstance(t, ast.Call) and isinstance(t.func, ast.Name) and t.func.id == 'is_nonstr_iter' and len(t.args) == 1 \
                and not t.keywords and isinstance(t.args[0], ast.Name):
            term, ty = self.var(t.args[0].id, env)
            if ty != KW:
                raise Problem('is_nonstr_iter of a %s' % ty)
            return 'kv_is_seq %s' % term
        raise Problem('condition outside the table: %s' % u(t))

    def var(self, name, env):
        if name not in env:
            raise Problem('name outside the table: %s' % name)
        return env[name]

    # ---------------------------------------------------------------- expressions (CPS: k(term, type) -> M-term text)
    def bind(self, mterm, ty, base, k):
        n = self.fresh(base)
        return 'mbind (%s) (fun %s => %s)' % (mterm, n, k(n, ty))

    def expr(self, e, env, k, hint='x'):
        if isinstance(e, ast.Name):
            term, ty = self.var(e.id, env)
            return k(term, ty)
        if isinstance(e, ast.Dict) and not e.keys:
            return k('[]', DICT)
        if isinstance(e, ast.Call) and isinstance(e.func, ast.Name):
            f = e.func.id
            if f == 'q' and len(e.args) == 1 and not e.keywords and 'q' not in env:
                def after(t, ty):
                    if ty not in (KW, PV):
                        raise Problem('q of a %s: %s' % (ty, u(e)))
                    return self.bind('gen_q_%s sf %s' % ('kw' if ty == KW else 'pv', t), TEXT, hint, k)
                return self.expr(e.args[0], env, after, hint)
            if f == 'quote_path_segment' and len(e.args) == 1 and len(e.keywords) == 1 and e.keywords[0].arg == 'safe' \
                    and isinstance(e.keywords[0].value, ast.Name) and e.keywords[0].value.id == 'PATH_SAFE':
                def after(t, ty):
                    if ty not in (KW, PV):
                        raise Problem('quote_path_segment of a %s' % ty)
                    return self.bind('q_%s sf %s' % ('kw' if ty == KW else 'pv', t), TEXT, hint, k)
                return self.expr(e.args[0], env, after, hint)
            if f == 'str' and len(e.args) == 1 and not e.keywords:
                def after(t, ty):
                    if ty != KW:
                        raise Problem('str of a %s: %s' % (ty, u(e)))
                    return self.bind('mlift (kv_str %s)' % t, KW, hint, k)
                return self.expr(e.args[0], env, after, hint)
        if isinstance(e, ast.Call) and isinstance(e.func, ast.Attribute) and not e.keywords and len(e.args) == 1:
            if e.func.attr == 'decode' and isinstance(e.args[0], ast.Constant) and e.args[0].value == 'utf-8':
                def after(t, ty):
                    if ty != KW:
                        raise Problem('decode of a %s' % ty)
                    return self.bind('mlift (kv_decode_utf8 %s)' % t, KW, hint, k)
                return self.expr(e.func.value, env, after, hint)
            if e.func.attr == 'join' and isinstance(e.func.value, ast.Constant) and isinstance(e.func.value.value, str):
                sep = coq_text(e.func.value.value)

                def after(t, ty):
                    if ty != TEXTS:
                        raise Problem('join of a %s: %s' % (ty, u(e)))
                    return k('join %s %s' % (sep, t), TEXT)
                return self.expr(e.args[0], env, after, 'l')
        if isinstance(e, ast.ListComp) and len(e.generators) == 1:
            g = e.generators[0]
            if g.ifs or g.is_async or not isinstance(g.target, ast.Name):
                raise Problem('comprehension form: %s' % u(e))

            def after(t, ty):
                if ty != KW:
                    raise Problem('iteration over a %s: %s' % (ty, u(e)))
                x = self.fresh(g.target.id)
                env2 = dict(env)
                env2[g.target.id] = (x, PV)

                def elt_done(et, ety):
                    if ety != TEXT:
                        raise Problem('element of type %s in %s' % (ety, u(e)))
                    return 'mret %s' % et
                body = self.expr(e.elt, env2, elt_done, 'y')
                return self.bind('mmapM (fun %s => %s) (kv_items %s)' % (x, body, t), TEXTS, 'l', k)
            return self.expr(g.iter, env, after, hint)
        if isinstance(e, ast.BinOp) and isinstance(e.op, ast.Mod) and isinstance(e.left, ast.Name) and isinstance(e.right, ast.Name):
            (tl, tyl), (tr, tyr) = self.var(e.left.id, env), self.var(e.right.id, env)
            if (tyl, tyr) != (TPL, DICT):
                raise Problem('%% of %s and %s' % (tyl, tyr))
            return self.bind('mlift (format_template %s %s)' % (tl, tr), TEXT, hint, k)
        raise Problem('expression outside the table: %s' % u(e))

    # ---------------------------------------------------------------- statements (CPS)
    def assigned(self, stmts):
        out = set()
        for st in stmts:
            for n in ast.walk(st):
                if isinstance(n, ast.Name) and isinstance(n.ctx, ast.Store):
                    out.add(n.id)
                if isinstance(n, ast.Subscript) and isinstance(n.ctx, ast.Store) and isinstance(n.value, ast.Name):
                    out.add(n.value.id)
        return out

    def block(self, stmts, env, end):
        """end(env) -> M-term text for what follows the block (None: the function must have returned)"""
        if not stmts:
            if end is None:
                raise Problem('the function can end without a return')
            return end(env)
        st, rest = stmts[0], stmts[1:]
        if isinstance(st, ast.Pass) or (isinstance(st, ast.Expr) and isinstance(st.value, ast.Constant)
                                        and isinstance(st.value.value, str)):
            return self.block(rest, env, end)
        if isinstance(st, ast.Return):
            if st.value is None:
                raise Problem('bare return')

            def done(t, ty):
                if ty != TEXT:
                    raise Problem('returns a %s' % ty)
                return 'mret %s' % t
            return self.expr(st.value, env, done, 'r')
        if isinstance(st, ast.Assign) and len(st.targets) == 1:
            tg = st.targets[0]
            if isinstance(tg, ast.Name):
                if tg.id in ('q', 'str', 'bytes', 'is_nonstr_iter', 'quote_path_segment', 'PATH_SAFE', 'remainder', 'gen'):
                    raise Problem('rebinds %s' % tg.id)

                def after(t, ty):
                    n = self.fresh(tg.id)
                    env2 = dict(env)
                    env2[tg.id] = (n, ty)
                    return 'let %s := %s in %s' % (n, t, self.block(rest, env2, end))
                return self.expr(st.value, env, after, tg.id)
            if isinstance(tg, ast.Subscript) and isinstance(tg.value, ast.Name) and isinstance(tg.slice, ast.Name):
                (td, tyd), (tk, tyk) = self.var(tg.value.id, env), self.var(tg.slice.id, env)
                if (tyd, tyk) != (DICT, KEY):
                    raise Problem('store into %s[%s]' % (tyd, tyk))

                def after(t, ty):
                    if ty != TEXT:
                        raise Problem('stores a %s: %s' % (ty, u(st)))
                    n = self.fresh(tg.value.id)
                    env2 = dict(env)
                    env2[tg.value.id] = (n, DICT)
                    return 'let %s := dstore %s %s %s in %s' % (n, td, tk, t, self.block(rest, env2, end))
                return self.expr(st.value, env, after, 'v')
        if isinstance(st, ast.If):
            c = self.cond(st.test, env)
            cont = lambda env2: self.block(rest, env2, end)
            if not rest:
                cont = end
            return '(if %s then %s else %s)' % (c, self.block(st.body, env, cont), self.block(st.orelse, env, cont))
        if isinstance(st, ast.For) and not st.orelse and isinstance(st.target, ast.Tuple) and len(st.target.elts) == 2 \
                and all(isinstance(x, ast.Name) for x in st.target.elts) and isinstance(st.iter, ast.Call) \
                and isinstance(st.iter.func, ast.Attribute) and st.iter.func.attr == 'items' and not st.iter.args \
                and isinstance(st.iter.func.value, ast.Name):
            for n in ast.walk(st):
                if isinstance(n, (ast.Break, ast.Continue)):
                    raise Problem('break / continue in the loop')
            it, ity = self.var(st.iter.func.value.id, env)
            if ity != ITEMS:
                raise Problem('loop over the items of a %s' % ity)
            kname, vname = st.target.elts[0].id, st.target.elts[1].id
            carried = sorted(x for x in self.assigned(st.body) if x in env and x not in (kname, vname))
            if len(carried) != 1 or env[carried[0]][1] != DICT:
                raise Problem('loop-carried state is %r (expected: the one dictionary being built)' % carried)
            cv = carried[0]
            x, s, kf = self.fresh('x'), self.fresh(cv), self.fresh('continue')
            env_b = dict(env)
            env_b[kname] = ('(fst %s)' % x, KEY)
            env_b[vname] = ('(snd %s)' % x, KW)
            env_b[cv] = (s, DICT)

            def body_end(env2):
                return '%s %s' % (kf, env2[cv][0])
            body = self.block(st.body, env_b, body_end)
            s2 = self.fresh(cv)
            env_a = dict(env)
            env_a[cv] = (s2, DICT)
            self.loop_body = 'fun (%s : text * kwval) (%s : %s) (%s : %s -> M text) => %s' % (
                x, s, COQTY[DICT], kf, COQTY[DICT], body)
            after = self.block(rest, env_a, end)
            return 'mfold (%s) %s %s (fun %s => %s)' % ('@BODY@', it, env[cv][0], s2, after)
        raise Problem('statement outside the table: %s' % u(st))


def find(tree, qual):
    node = tree
    for part in qual.split('.'):
        nxt = [n for n in ast.iter_child_nodes(node) if isinstance(n, (ast.FunctionDef, ast.ClassDef)) and n.name == part]
        if len(nxt) != 1:
            raise Problem('%s: %d definitions of %s' % (qual, len(nxt), part))
        node = nxt[0]
    return node


def params(fdef, n):
    a = fdef.args
    if a.vararg or a.kwarg or a.kwonlyargs or a.defaults or a.posonlyargs or len(a.args) != n or fdef.decorator_list:
        raise Problem('signature of %s' % fdef.name)
    return [x.arg for x in a.args]


def translate_source(text):
    tree = ast.parse(text)
    out = []
    qd = find(tree, '_compile_route.q')
    (qa,) = params(qd, 1)
    for ty in (PV, KW):
        fn = Fn(qd)
        body = fn.block(qd.body, {qa: (qa, ty)}, None)
        out.append('Definition gen_q_%s (sf : bool) (%s : %s) : M text :=\n  %s.\n' % (ty.lower(), qa, COQTY[ty], body))
    gd = find(tree, '_compile_route.generator')
    (da,) = params(gd, 1)
    fn = Fn(gd)
    env = {da: (da, ITEMS), 'remainder': ('remainder', STAR), 'gen': ('gen', TPL)}
    if da in ('remainder', 'gen'):
        raise Problem('parameter shadows %s' % da)
    fn.loop_body = None
    main = fn.block(gd.body, env, None)
    if fn.loop_body is None:
        raise Problem('no loop over the items of the keyword dictionary')
    out.append('Definition gen_generator_body (sf : bool) (remainder : option text) : text * kwval -> list (text * text) -> '
               '(list (text * text) -> M text) -> M text :=\n  %s.\n' % fn.loop_body)
    out.append('Definition gen_generator (sf : bool) (remainder : option text) (gen : list tpart) (%s : list (text * kwval)) '
               ': M text :=\n  %s.\n' % (da, main.replace('@BODY@', 'gen_generator_body sf remainder')))
    return '\n'.join(out)


HEADER = '''(* GENERATED on every run by harness/c06/translate.py from the source under test -- do not edit.
   Control flow translated mechanically; leaves through the primitive table of that file. *)
From Coq Require Import List NArith ZArith Bool.
Import ListNotations.
Require Import Verif.Lib.Wire Verif.Lib.Text Verif.Lib.Utf8 Verif.Lib.Percent Verif.Gen.Facts_C17 Verif.Model.C17.
Require Import Verif.Gen.Facts_C06 Verif.Model.C06.
Open Scope N_scope.

'''


def translate_tree(src_root, write_fallback=False):
    """-> (text of Gen/Code_C06.v, problems)"""
    problems = []
    try:
        text = open(os.path.join(src_root, 'pyramid', 'urldispatch.py')).read()
        gen = translate_source(text)
        if write_fallback:
            json.dump({'gen': gen}, open(FALLBACK, 'w'), indent=1)
    except Problem as e:
        problems.append('translator (urldispatch.py generator / q): %s' % e)
        gen = json.load(open(FALLBACK))['gen']
    except Exception as e:
        problems.append('translator failed: %r' % e)
        gen = json.load(open(FALLBACK))['gen']
    return HEADER + gen, problems


if __name__ == '__main__':
    import sys
    src = sys.argv[1] if len(sys.argv) > 1 else '/repo/src'
    t, p = translate_tree(src, write_fallback=(len(sys.argv) > 2 and sys.argv[2] == 'fallback'))
    print(t)
    print(p)
