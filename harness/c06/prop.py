"""C06 -- A generated route URL is matched by its route and yields the supplied values."""
import json
import os
import re

from harness.c06 import c06facts
from harness.c06 import gen as G
from harness.c17 import prop as P17

ID = 'C06'
HERE = os.path.dirname(os.path.abspath(__file__))
DEPENDS = ['C01', 'C17']          # Model/C06.v imports Model/C01.v and Model/C17.v (and their regenerated facts)
CASES = {'quick': 4000, 'thorough': 150000}
PARALLEL = True
PROOF_TIMEOUT = 1200
ALLOWED_AXIOMS = ()

RULE = ('1-4 routes (target pattern: literals over an alphabet with %, space, regex metacharacters, reserved URL characters, '
        'non-ASCII / astral text; 0-3 placeholders: bare {n}, {n:regex} in C01\'s sublanguage, old-style :n; optional '
        '*remainder; mostly separable, 15 % not; other routes before/after; catch-all) x keyword values drawn from each '
        'placeholder\'s language over the nasty alphabet (% ? # ; + space " < > [ ] { } | \\ ^ TAB NUL DEL NL, e-acute, '
        'euro, U+1D11E, literal %41 / %2F) as str / bytes / int / float / bool / sequence; remainder as list/tuple (normal, '
        'empty, dot, dot-dot, embedded slash) or a /-joined string; missing and extra keys; 0-3 extra elements; SCRIPT_NAME '
        'variants; query / anchor.  Every produced URL goes urlsplit -> unquote_to_bytes -> SCRIPT_NAME/PATH_INFO (latin-1) -> a '
        'real Router with the same routes.  non-trivial = the target route has a placeholder AND (the URL routed back to '
        'a non-empty match dictionary OR KeyError was raised for a missing value); distinct by full case.  Two history '
        'streams (12 % each): (hist) 2-4 generations in one process whose remainder sequences hold equal-but-differently-'
        'printing int/bool/float/Decimal elements, from a cleared _segment_cache; (req) ONE request object whose '
        'SCRIPT_NAME changes between generations (request.script_name = ..., environ[SCRIPT_NAME] = ..., path_info_pop()), '
        'every generation judged (url = authority + path, way back under the mount point current THEN) against the '
        'environ it was made under; non-trivial there = >= 2 successful generations under different SCRIPT_NAMEs.  Every case '
        'is its own history: caches cleared and a fresh application (freshly compiled routes) per case; histories repeat '
        'calls, leave out values an earlier call supplied (KeyError due), use equal-but-differently-printing extra elements, '
        'quote one text under different safe sets (echo), and every match dictionary handed out is consumed by its receiver'
        '.  The alphabet holds text that a Unicode normalisation, a case mapping or a case folding would change (combining '
        'marks, ANGSTROM / OHM SIGN, Hangul jamo, ligature fi, full-width solidus, dotted I, sharp s, sigmas).  A fourth stream '
        '(6 %): target patterns with a placeholder whose regex is outside the sublanguage (capturing / non-capturing groups, '
        'alternation, lazy quantifiers, several groups) FOLLOWED by another placeholder or a remainder, short texts, judged by '
        'the open specification (re.fullmatch on every substring of the path shipped as an oracle table)')
ASSUMPTIONS = [
    'patterns are in C01\'s modelled sublanguage ({name:regex} = one character class with a quantifier) for everything the '
    'model answers; for placeholders outside it (groups, alternation, lazy quantifiers; no named inner groups, '
    'back-references or look-around) only the open specification speaks, with re.fullmatch of each regex on every substring '
    'of the path as an oracle input; no pregenerator, no static routes, no route predicates; route names are unique',
    'values other than str/bytes are ints (str() computed in Coq) or bool/integral float/list/tuple (str() shipped with the case)',
    'SCRIPT_NAME is valid UTF-8; a WSGI server mounts the application at SCRIPT_NAME and passes the rest of the '
    'percent-decoded path as PATH_INFO (PEP 3333)',
    'Unicode classification of non-ASCII characters by \\w and \\d is an oracle computed with re itself per case',
    'urllib.parse.quote / unquote_to_bytes / urlsplit, the UTF-8 codec and webob host_url / path_info are modelled '
    '(Lib/Percent, Lib/Utf8, Model/C17, Model/C01) and validated by the run, not verified',
    'the keys of the keyword dictionary handed to Route.generate are distinct (a dict): newdict[k] = v appends',
]
TRUSTED = ['hand-written models coq/Model/C01.v (parser + matcher + dispatch) and coq/Model/C17.v (generate, route_url), reused '
           'unchanged, and the composition coq/Model/C06.v (pattern translation, server decoding, open specification); shape '
           'pins + regenerated literals of C01, C17 and C06',
           'harness/c06/translate.py and its primitive table (the generator closure and q of _compile_route are regenerated into '
           'coq/Gen/Code_C06.v on every run; generated = model is proved, what a primitive means is a modelling statement)',
           'CPython re (sublanguage; as an oracle for placeholders outside it), urllib.parse, UTF-8 codec, webob Request '
           '(modelled, validated by correspondence)',
           'Python judge for the character set of the produced path']
TECHNIQUE = ('Coq proof composing C17\'s generator with C01\'s matcher (Percent.unquote_quote, Utf8.decode_encode, '
             'C01.match_spec/all_decs_char + uniqueness of the decomposition under separability, or by enumeration: "no other '
             'way of cutting the path") + regenerated facts + control flow of the generator closure translated from the source '
             'on every run (generated = model theorems) + extracted-model differential correspondence through a real Router')
LEVEL_TEXT = ('Machine-checked for every pattern of C01\'s sublanguage and values of any size: a successfully generated path is '
              'ASCII within unreserved + PATH_SAFE + %, percent-decodes to the UTF-8 of the pattern text with the values in place '
              '(literals kept, in order), and -- when every {name} value lies in its placeholder\'s language and the pattern is '
              'separable for these values, or more generally when the supplied values are the only way of cutting the path along '
              'the pattern -- matching that decoded path with the same compiled pattern returns exactly the '
              'stringified values, the remainder as the supplied segments (normalised by split_path_info otherwise; followed by '
              'the extra elements when there are any); a '
              'placeholder without a value gives KeyError; route_url = scheme://authority + route_path (the scheme://netloc form of '
              'webob host_url is proved for clean HTTP_HOST / SERVER_NAME / SERVER_PORT, so route_url leads back to the values end '
              'to end); separability implies the "only way" hypothesis; generation is independent '
              'of earlier generations in the process (_segment_cache) and, on one request object, of earlier generations and '
              'earlier SCRIPT_NAMEs (each call = the function of the current environ).  The generator closure run by the '
              'extracted model is the one translated from the source under test and proved equal to the reference model.  For '
              'placeholders outside the sublanguage the executable open specification (path + dictionary under "only way") is '
              'what is checked against the code; its meaning and its soundness for modelled patterns are theorems.')
LEVEL_NOTE = ('Trusted: Coq kernel; the hand-written models (shape-pinned or translated, validated by correspondence); the parser '
              'of patterns is C01\'s (validated, no relational theorem); urllib/webob/re modelled; Python judge; the translator\'s '
              'primitive table. Extra elements: only their place in the decoded path (and in the remainder) is specified here '
              '(their decoding is C17\'s). For placeholders outside the sublanguage the matcher is not modelled: re is an oracle.')

facts = c06facts.facts
generate = G.generate


def targeted(broken, disagreements, rng):
    return G.targeted(rng)


# ------------------------------------------------------------ validity
def _pval6_ok(v):
    if isinstance(v, list) and len(v) == 3 and v[0] == 'd':
        from decimal import Decimal, InvalidOperation
        try:
            return isinstance(v[1], int) and isinstance(v[2], str) and Decimal(v[2]) == v[1] and str(Decimal(v[2])) == v[2]
        except (InvalidOperation, ValueError):
            return False
    return P17._pval_ok(v)


def _valid_hist(case):
    n, p = case['route']
    if not (isinstance(n, str) and n and isinstance(p, str) and P17._no_surrogate(p)) or P17._external(p) \
            or P17.parse_pattern(p) is None:
        return False
    if not (isinstance(case['calls'], list) and 1 <= len(case['calls']) <= 6):
        return False
    for kw in case['calls']:
        if not (isinstance(kw, list) and len({e[0] for e in kw}) == len(kw)):
            return False
        for e in kw:
            if not (isinstance(e, list) and len(e) == 2 and isinstance(e[0], str) and e[0] and not e[0].startswith('_')):
                return False
            v = e[1]
            if v[0] == 'v':
                if not (len(v) == 2 and _pval6_ok(v[1])):
                    return False
            elif not (v[0] == 'q' and len(v) == 3 and v[2] in ('list', 'tuple') and all(_pval6_ok(x) for x in v[1])):
                return False
    return True


NO_OV = {'app_url': None, 'scheme': None, 'host': None, 'port': None, 'query': None, 'anchor': None}


def _valid_req(case):
    if not valid(dict(case, kind=None, elements=[], kw=[], ov=NO_OV)):
        return False
    if not (isinstance(case['path_info'], str) and P17._no_surrogate(case['path_info'])
            and (case['path_info'] == '' or case['path_info'][0] == '/')):
        return False
    if not (isinstance(case['steps'], list) and 1 <= len(case['steps']) <= 10):
        return False
    for st in case['steps']:
        if st[0] == 'set':
            if not (len(st) == 3 and isinstance(st[1], str) and P17._no_surrogate(st[1]) and st[2] in ('attr', 'environ')
                    and (st[1] == '' or st[1][0] == '/')):
                return False
        elif st[0] == 'pop':
            if len(st) != 1:
                return False
        elif st[0] == 'gen':
            if len(st) != 4 or not valid(dict(case, kind=None, elements=st[1], ov=st[2], kw=st[3])):
                return False
        else:
            return False
    return True


def valid(case):
    try:
        if case.get('kind') == 'hist':
            return _valid_hist(case)
        if case.get('kind') == 'req':
            return _valid_req(case)
        rs = case['routes']
        if not (isinstance(rs, list) and 1 <= len(rs) <= 6 and len({r[0] for r in rs}) == len(rs)):
            return False
        for n, p in rs:
            if not (isinstance(n, str) and n and isinstance(p, str) and P17._no_surrogate(p)) or P17._external(p) \
                    or P17.parse_pattern(p) is None:
                return False
            for r in hole_regs(p):
                if r is not None and _OPAQUE.search(r):
                    c = re.compile(r)           # re.error -> not a valid case
                    if c.groupindex or re.search(r'\\[1-9]|\(\?[=!<]', r):
                        return False             # named inner groups, back-references, look-around: not spoken about
        e = case['env']
        if not (all(isinstance(e[f], str) for f in ('scheme', 'server_name', 'server_port', 'script_name'))
                and e['scheme'] in ('http', 'https') and e['server_name'] and e['server_port'].isdigit()
                and (e['http_host'] is None or (isinstance(e['http_host'], str) and re.match(r'^[a-z.]+(:\d+)?$', e['http_host'])))
                and P17._no_surrogate(e['script_name']) and (e['script_name'] == '' or e['script_name'][0] == '/')
                and re.match(r'^[a-z.]+$', e['server_name'])):
            return False
        ov = case['ov']
        if any(ov[f] is not None for f in ('app_url', 'scheme', 'host', 'port')):
            return False
        if not P17._query_ok(ov['query']) or not (ov['anchor'] is None or P17._pval_ok(ov['anchor'])):
            return False
        # a one-shot iterator only where it is iterated: as the value of the target's remainder
        tpp = P17.parse_pattern(dict((n, p) for n, p in rs).get(case['target']) or '/')
        star = (tpp or {}).get('star') or None
        return isinstance(case['target'], str) and P17._kw_ok(case['kw'], star) and all(P17._pval_ok(x) for x in case['elements']) \
            and len(case['elements']) <= 4
    except Exception:
        return False


# ------------------------------------------------------------ wire
_W = re.compile(r'\w')
_D = re.compile(r'\d')


def _py_pval6(v):
    if v[0] == 'd':
        from decimal import Decimal
        return Decimal(v[2])
    return P17._py_pval(v)


def _py_kwval6(v):
    return _py_pval6(v[1]) if v[0] == 'v' else P17._py_seq(v[2], [_py_pval6(x) for x in v[1]])


def _w_kwval6(v):
    if v[0] == 'v':
        return [0, P17._w_pval(v[1])]
    return [1, [P17._w_pval(x) for x in v[1]], str(_py_kwval6(v))]


def _texts(case):
    if case.get('kind') == 'hist':
        out = [case['route'][1]]
        for kw in case['calls']:
            for _k, v in kw:
                for x in ([v[1]] if v[0] == 'v' else v[1]):
                    out.append(x[1] if x[0] == 's' else bytes(x[1]).decode('utf-8', 'ignore') if x[0] == 'b' else str(x[-1]))
        return out
    if case.get('kind') == 'req':
        out = [case['path_info']]
        for st in case['steps']:
            if st[0] == 'set':
                out.append(st[1])
            elif st[0] == 'gen':
                out += _texts(dict(case, kind=None, elements=st[1], kw=st[3]))
        return out + [p for _n, p in case['routes']] + [case['env']['script_name']]
    out = [p for _n, p in case['routes']] + [case['env']['script_name']]

    def pv(v):
        if v[0] == 's':
            out.append(v[1])
        elif v[0] == 'b':
            out.append(bytes(v[1]).decode('utf-8', 'ignore'))
        elif v[0] == 'n':
            out.append(v[2])
    for _k, v in case['kw']:
        if v[0] == 'v':
            pv(v[1])
        else:
            for x in v[1]:
                pv(x)
            if v[2] in ('list', 'tuple'):
                out.append(str(P17._py_seq(v[2], [P17._py_pval(x) for x in v[1]])))
    for x in case['elements']:
        pv(x)
    return out


def _oracle(case):
    chars = sorted({c for t in _texts(case) for c in t if ord(c) > 127})
    return [''.join(c for c in chars if _W.match(c)), ''.join(c for c in chars if _D.match(c))]


def _w_step(st):
    if st[0] == 'set':
        return [0, st[1]]
    if st[0] == 'pop':
        return [1]
    return [2, [P17._w_pval(x) for x in st[1]], P17._w_ov(st[2]), P17._w_kw(st[3])]


def scripts_at(case):
    """the SCRIPT_NAME (text) current at every generation step -- the harness's own bookkeeping of the steps"""
    script, pinfo, out = case['env']['script_name'], case['path_info'], []
    for st in case['steps']:
        if st[0] == 'set':
            script = st[1]
        elif st[0] == 'pop':
            if pinfo:
                rest = pinfo.lstrip('/')
                seg = rest.split('/', 1)[0]
                script += pinfo[:len(pinfo) - len(rest)] + seg
                pinfo = rest[len(seg):]
        else:
            out.append(script)
    return out


# ---- placeholders outside the modelled sublanguage: the oracle table for the open specification
_OPAQUE = re.compile(r'[(|]|[+*?}]\?')        # a group, an alternation, a lazy quantifier
OPEN_MAX_PATH = 40


def hole_regs(pattern):
    """the regex texts of the {name:regex} placeholders as _compile_route reads them, in order (None: bare {name})"""
    rx = P17._regexes()
    route = pattern
    if rx['old'].search(route) and not rx['route'].search(route):
        return []
    if not route.startswith('/'):
        route = '/' + route
    if rx['star'].search(route):
        route = route.rsplit('*', 1)[0]
    pat = rx['route'].split(route)
    out = []
    for i in range(1, len(pat), 2):
        name = pat[i][1:-1]
        out.append(name.split(':', 1)[1] if ':' in name else None)
    return out


def _scalar_text(x):
    return x.decode('utf-8') if isinstance(x, bytes) else x if type(x) is str else str(x)


def rendered_path(case):
    """the harness's own rendering of the target pattern with the values in place (only to know which substrings the
    oracle table has to cover: a wrong rendering leaves the table without the needed entries and the spec silent)"""
    tp = _target_pattern(case)
    pp = P17.parse_pattern(tp)
    kw = {k: v for k, v in case['kw']}
    out = pp['prefix']
    for name, lit in pp['holes']:
        v = kw[name]
        out += _scalar_text(P17._py_kwval(v)) + lit
    if pp['star']:
        v = kw[pp['star']]
        py = P17._py_kwval(v)
        out += '/'.join(_scalar_text(x) for x in py) if v[0] == 'q' else _scalar_text(py)
    return out


def open_table(case):
    """[[regex, candidate, re.fullmatch?] ...] for every regex of the target pattern and every substring of the rendered
    path, when some placeholder of the target is outside the modelled sublanguage; [] otherwise"""
    try:
        tp = _target_pattern(case)
        regs = [r for r in hole_regs(tp or '') if r is not None]
        if not any(_OPAQUE.search(r) for r in regs):
            return []
        path = rendered_path(case)
        if len(path) > OPEN_MAX_PATH:
            return []
        subs = sorted({path[i:j] for i in range(len(path) + 1) for j in range(i, len(path) + 1)})
        out = []
        for r in sorted(set(regs)):
            c = re.compile(r)
            if c.groupindex:
                return []            # named inner groups add keys of their own: outside what the property speaks about
            for t in subs:
                out.append([r, t, 1 if c.fullmatch(t) else 0])
        return out
    except Exception:
        return []


def to_wire(case):
    if case.get('kind') == 'req':
        return [2, _oracle(case), [[n, p] for n, p in case['routes']], case['target'], P17._w_env(case['env']),
                case['path_info'], [_w_step(st) for st in case['steps']]]
    if case.get('kind') == 'hist':
        return [1, _oracle(case), list(case['route']), [[[k, _w_kwval6(v)] for k, v in kw] for kw in case['calls']]]
    tbl = open_table(case)
    return [_oracle(case), [[n, p] for n, p in case['routes']], case['target'], P17._w_env(case['env']),
            [P17._w_pval(x) for x in case['elements']], P17._w_ov(case['ov']), P17._w_kw(case['kw'])] + ([tbl] if tbl else [])


def _canon_dict(d):
    return sorted([[k, v] for k, v in d])


def _canon_back(b):
    """[] | [4] | [5] | [outcome, own]"""
    if len(b) != 2:
        return b
    out, own = b
    if len(out) == 3 and out[0] == 1:
        out = [1, out[1], _canon_dict(out[2])]
    return [out, [_canon_dict(own[0])] if own else []]


def _spec_one(spec):
    if not spec:
        return None
    if spec == [1]:
        return ['keyerror']
    _tag, path, own, sel = spec
    sel = sel[0] if sel else None
    if sel and len(sel) == 3 and sel[0] == 1:
        sel = [1, sel[1], _canon_dict(sel[2])]
    return ['route', path, [_canon_dict(own[0])] if own else [], [sel] if sel else []]


def _from_wire_hist(case, raw):
    if not (isinstance(raw, list) and len(raw) == 2 and isinstance(raw[0], list) and len(raw[0]) == 2):
        return {'model': ['MODEL-BAD', raw], 'spec': None}
    (st, calls), specs = raw
    # the model may decline (unsupported pattern, facts drift); the specification is kept all the same
    sp = ['hist', [_spec_one(x) or [] for x in specs]] if specs else None
    _last['spec'] = sp
    if st != 0:
        return {'model': ['unsupported', [st]], 'spec': sp}
    model = [[u, [_canon_dict(own[0])] if own else []] for u, own in calls]
    return {'model': model, 'spec': sp}


def _from_wire_req(case, raw):
    if not (isinstance(raw, list) and len(raw) == 2 and isinstance(raw[0], list) and len(raw[0]) == 2):
        return {'model': ['MODEL-BAD', raw], 'spec': None}
    (sts, outs), specs = raw
    sp = ['req', [_spec_one(x) or [] for x in specs]]
    _last['spec'] = sp
    if any(x != 0 for x in sts):
        return {'model': ['unsupported', sts], 'spec': sp}
    model = [[u, p, _canon_back(back)] for u, p, back in outs]
    return {'model': model, 'spec': sp}


def from_wire(case, raw):
    if case.get('kind') == 'hist':
        return _from_wire_hist(case, raw)
    if case.get('kind') == 'req':
        return _from_wire_req(case, raw)
    if not (isinstance(raw, list) and len(raw) == 2 and isinstance(raw[0], list) and len(raw[0]) == 4):
        return {'model': ['MODEL-BAD', raw], 'spec': None}
    (sts, u, p, back), spec = raw
    model = [u, p, _canon_back(back)]
    if any(s != 0 for s in sts):
        model = ['unsupported', sts]
    sp = None
    if spec:
        if spec == [1]:
            sp = ['keyerror']
        else:
            _tag, path, own, sel = spec
            sel = sel[0] if sel else None
            if sel and len(sel) == 3 and sel[0] == 1:
                sel = [1, sel[1], _canon_dict(sel[2])]
            sp = ['route', path, [_canon_dict(own[0])] if own else [], [sel] if sel else []]
    _last['spec'] = sp
    return {'model': model, 'spec': sp}


_last = {'spec': None}


def equiv(case, obs, model):
    return bool(model) and model[0] == 'unsupported'


# ------------------------------------------------------------ implementation
_impl = {}
ERR = P17.ERR


def setup(tier):
    import warnings
    warnings.simplefilter('ignore')
    from pyramid.config import Configurator
    from pyramid.request import Request
    from pyramid.response import Response
    from pyramid.exceptions import URLDecodeError
    import pyramid.url
    import pyramid.traversal
    _impl.update(Configurator=Configurator, Request=Request, Response=Response, URLDecodeError=URLDecodeError,
                 mods=[pyramid.url, pyramid.traversal], apps={})
    P17._regexes()


def _dict_obs(match):
    out = []
    for k, v in match.items():
        out.append([k, [1, list(v)]] if isinstance(v, tuple) else [k, [0, v]])
    return sorted(out)


def _consume(d):
    """what the code of an earlier request may do with ITS OWN match dictionary (views pop entries, predicates convert
    segments to int as in the Pyramid docs): a later request must not see any of it"""
    for k in list(d):
        d.pop(k)
        d['seen_' + str(k)] = 'x'
    d['consumed'] = 'x'


def _clear_caches():
    # every case starts from empty caches (functools' cache_clear on the lru_cached helpers, the module-level
    # _segment_cache dict): the history of a case is what the case itself does
    for m in _impl['mods']:
        for v in list(vars(m).values()):
            if callable(getattr(v, 'cache_clear', None)) and hasattr(v, 'cache_info'):
                v.cache_clear()
    _impl['mods'][1]._segment_cache.clear()


def _app(case):
    # a fresh application (freshly compiled routes) per case: whatever a compiled route or a mapper keeps between
    # calls belongs to the history of THIS case, so that every replay is self-contained
    ent = None
    if ent is None:
        Response = _impl['Response']

        def view(request):
            body = json.dumps({'name': request.matched_route.name, 'match': _dict_obs(request.matchdict)})
            _consume(request.matchdict)
            return Response(body=body.encode('utf-8'), content_type='application/json')

        def notfound(request):
            # a route named *traverse hands its remainder to traversal, which then finds no view: the route
            # selection (what is observed here) has happened all the same
            if getattr(request, 'matched_route', None) is not None:
                return view(request)
            return Response(body=b'{"name": null}', content_type='application/json')
        cfg = _impl['Configurator']()
        for n, p in case['routes']:
            cfg.add_route(n, p)
            cfg.add_view(view, route_name=n)
        cfg.add_notfound_view(notfound)
        app = cfg.make_wsgi_app()
        ent = (cfg, app)
    return ent


def path_info_of(url, script):
    """what a WSGI server mounted at `script` passes on for `url`: (SCRIPT_NAME, PATH_INFO) as latin-1 text, or a tag"""
    from urllib.parse import urlsplit, unquote_to_bytes
    try:
        s = urlsplit(url)
    except ValueError:
        return 4
    raw = unquote_to_bytes(s.path)
    sb = script.encode('utf-8')
    if not raw.startswith(sb):
        return 5
    return sb.decode('latin-1'), raw[len(sb):].decode('latin-1')


def _route_back(case, cfg, app, url):
    from webob import Request as WRequest
    r = path_info_of(url, case['env']['script_name'])
    if isinstance(r, int):
        return [r]
    script, pi = r
    environ = WRequest.blank('/').environ
    environ['REQUEST_METHOD'] = 'GET'
    environ['SCRIPT_NAME'] = script
    environ['PATH_INFO'] = pi
    names = [n for n, _p in case['routes']]
    try:
        body = b''.join(app(environ, lambda status, headers, exc_info=None: None))
        j = json.loads(body.decode('utf-8'))
        out = [2] if j['name'] is None else [1, names.index(j['name']), j['match']]
    except _impl['URLDecodeError']:
        out = [0]
    own = []
    route = cfg.get_routes_mapper().get_route(case['target'])
    if route is not None:
        try:
            path = pi.encode('latin-1').decode('utf-8') or '/'
            m = route.match(path)
            if m is not None:
                own = [_dict_obs(m)]
                _consume(m)
        except UnicodeDecodeError:
            pass
    return [out, own]


def _run_hist(case):
    from urllib.parse import unquote_to_bytes
    name, pattern = case['route']
    cfg, app = _app({'routes': [[name, pattern]]})
    environ = {'wsgi.url_scheme': 'http', 'SERVER_NAME': 's', 'SERVER_PORT': '80', 'SCRIPT_NAME': '', 'PATH_INFO': '/',
               'REQUEST_METHOD': 'GET', 'QUERY_STRING': ''}
    req = _impl['Request'](environ)
    req.registry = cfg.registry
    route = cfg.get_routes_mapper().get_route(name)
    out = []
    for kw in case['calls']:
        u = P17._call(lambda: req.route_path(name, **{k: _py_kwval6(v) for k, v in kw}))
        own = []
        if u[0] == 0:
            try:
                path = unquote_to_bytes(u[1]).decode('utf-8') or '/'
                m = route.match(path)
                if m is not None:
                    own = [_dict_obs(m)]
                    _consume(m)
            except UnicodeDecodeError:
                pass
        out.append([u, own])
    return out


def _lat(t):
    return t.encode('utf-8').decode('latin-1')


def _run_req(case):
    cfg, app = _app(case)
    e = case['env']
    environ = {'wsgi.url_scheme': e['scheme'], 'SERVER_NAME': e['server_name'], 'SERVER_PORT': e['server_port'],
               'SCRIPT_NAME': _lat(e['script_name']), 'PATH_INFO': _lat(case['path_info']),
               'REQUEST_METHOD': 'GET', 'QUERY_STRING': ''}
    if e['http_host'] is not None:
        environ['HTTP_HOST'] = e['http_host']
    req = _impl['Request'](environ)          # ONE request object for the whole history
    req.registry = cfg.registry
    out = []
    for st in case['steps']:
        if st[0] == 'set':
            if st[2] == 'attr':
                req.script_name = st[1]
            else:
                req.environ['SCRIPT_NAME'] = _lat(st[1])
        elif st[0] == 'pop':
            req.path_info_pop()
        else:
            els = [P17._py_pval(x) for x in st[1]]

            def args(st=st):
                kw = {k: P17._py_kwval(v) for k, v in st[3]}
                kw.update(P17._ov_kwargs(st[2], '_'))
                return kw
            u = P17._call(lambda: req.route_url(case['target'], *els, **args()))
            p = P17._call(lambda: req.route_path(case['target'], *els, **args()))
            # the way back starts at the mount point the request has NOW (webob's decoded script_name)
            now = dict(case, env=dict(e, script_name=req.script_name))
            out.append([u, p, _route_back(now, cfg, app, u[1]) if u[0] == 0 else []])
    return out


def run_impl(case):
    if not _impl:
        setup('quick')
    _clear_caches()          # before the routes are compiled: the case is its own history
    if case.get('kind') == 'hist':
        return _run_hist(case)
    if case.get('kind') == 'req':
        return _run_req(case)
    cfg, app = _app(case)
    e = case['env']
    environ = {'wsgi.url_scheme': e['scheme'], 'SERVER_NAME': e['server_name'], 'SERVER_PORT': e['server_port'],
               'SCRIPT_NAME': e['script_name'].encode('utf-8').decode('latin-1'), 'PATH_INFO': '/',
               'REQUEST_METHOD': 'GET', 'QUERY_STRING': ''}
    if e['http_host'] is not None:
        environ['HTTP_HOST'] = e['http_host']
    req = _impl['Request'](environ)
    req.registry = cfg.registry
    els = [P17._py_pval(x) for x in case['elements']]

    def args():
        kw = {k: P17._py_kwval(v) for k, v in case['kw']}
        kw.update(P17._ov_kwargs(case['ov'], '_'))
        return kw
    u = P17._call(lambda: req.route_url(case['target'], *els, **args()))
    p = P17._call(lambda: req.route_path(case['target'], *els, **args()))
    # the module-level API (pyramid.url.route_url / route_path) must give the same answers; if it does not, its
    # answers are the ones that get compared and judged
    u2 = P17._call(lambda: _impl['mods'][0].route_url(case['target'], req, *els, **args()))
    p2 = P17._call(lambda: _impl['mods'][0].route_path(case['target'], req, *els, **args()))
    if (u2, p2) != (u, p):
        u, p = u2, p2
    back = _route_back(case, cfg, app, u[1]) if u[0] == 0 else []
    return [u, p, back]


# ------------------------------------------------------------ judging
_PATH_OK = None


def _path_chars():
    global _PATH_OK
    if _PATH_OK is None:
        from pyramid.traversal import PATH_SAFE
        _PATH_OK = set('abcdefghijklmnopqrstuvwxyzABCDEFGHIJKLMNOPQRSTUVWXYZ0123456789-._~') | set(PATH_SAFE) | {'%'}
    return _PATH_OK


_PCT = re.compile(r'%(?![0-9A-Fa-f]{2})')


def expected_authority(e):
    hp = e['http_host'] if e['http_host'] is not None else e['server_name']
    host, _, port = hp.partition(':')
    if not port and e['http_host'] is None:
        port = e['server_port']
    if not port and e['http_host'] is not None and ':' not in e['http_host']:
        port = ''            # a Host header without port means the default port of the scheme
    default = {'http': '80', 'https': '443'}[e['scheme']]
    return e['scheme'] + '://' + host + (':' + port if port and port != default else '')


def _judge_hist(case, obs, spec):
    from urllib.parse import unquote_to_bytes
    if spec is None or spec[0] != 'hist' or not isinstance(obs, list) or len(obs) != len(spec[1]) \
            or not all(isinstance(o, list) and len(o) == 2 for o in obs):
        return None, 'not specified'
    said = None
    for i, ((u, own), sp) in enumerate(zip(obs, spec[1])):
        if not sp:
            continue
        said = True
        if sp[0] == 'keyerror':
            if u != [1, ERR['KeyError']]:
                return False, 'call %d: KeyError expected, got %r' % (i, u)
            continue
        if u[0] != 0:
            return False, 'call %d: a path was expected, got %r' % (i, u)
        try:
            got = unquote_to_bytes(u[1]).decode('utf-8')
        except UnicodeDecodeError:
            return False, 'call %d: path is not UTF-8' % i
        if got != sp[1]:
            return False, 'call %d: the path decodes to %r, the values of THIS call give %r' % (i, got, sp[1])
        if sp[2] and own != sp[2]:
            return False, 'call %d: the route matches its own URL to %r, supplied values are %r' % (i, own, sp[2])
    return said, None


def judge(case, obs, spec):
    """-> (True | False | None, reason)"""
    if case.get('kind') == 'hist':
        return _judge_hist(case, obs, spec)
    if case.get('kind') == 'req':
        if spec is None or spec[0] != 'req' or not isinstance(obs, list) or len(obs) != len(spec[1]) \
                or not all(isinstance(o, list) and len(o) == 3 for o in obs):
            return None, 'not specified'
        said = None
        for i, (o, sp, script) in enumerate(zip(obs, spec[1], scripts_at(case))):
            if not sp:
                continue
            ok, why = judge(dict(case, kind=None, env=dict(case['env'], script_name=script)), o, sp)
            if ok is False:
                return False, 'generation %d (SCRIPT_NAME %r at that time): %s' % (i, script, why)
            if ok:
                said = True
        return said, None
    if spec is None or not isinstance(obs, list) or len(obs) != 3:
        return None, 'not specified'
    u, p, back = obs
    if spec[0] == 'keyerror':
        if u == [1, ERR['KeyError']] and p == [1, ERR['KeyError']]:
            return True, None
        return False, 'KeyError expected (no such route / a placeholder without a value), got %r / %r' % (u, p)
    _t, path, own, sel = spec
    if u[0] != 0 or p[0] != 0:
        return False, 'a URL was expected, got %r / %r' % (u, p)
    U, P = u[1], p[1]
    A = expected_authority(case['env'])
    if U != A + P:
        return False, 'route_url %r is not %r + route_path %r' % (U, A, P)
    ppart = re.split(r'[?#]', P, maxsplit=1)[0]
    bad = [c for c in ppart if c not in _path_chars()]
    if bad:
        return False, 'character %r in the path is outside unreserved + PATH_SAFE + %%' % bad[0]
    if _PCT.search(ppart):
        return False, 'stray %% in the path'
    r = path_info_of(U, case['env']['script_name'])
    if isinstance(r, int):
        return False, 'the URL does not lead back to the application (tag %d)' % r
    try:
        got = r[1].encode('latin-1').decode('utf-8')
    except UnicodeDecodeError:
        return False, 'PATH_INFO is not UTF-8'
    if got != path:
        return False, 'PATH_INFO decodes to %r, the pattern with the values in place is %r' % (got, path)
    if len(back) != 2:
        return False, 'no way back: %r' % (back,)
    if own and back[1] != own:
        return False, 'the route matches its own URL to %r, supplied values are %r' % (back[1], own)
    if sel and back[0] != sel[0]:
        return False, 'the application selects %r, first matching route in order is %r' % (back[0], sel[0])
    return True, None


def spec_holds(case, obs, spec):
    return judge(case, obs, spec)[0]


def explain(item):
    try:
        return judge(item['case'], item['impl'], item['spec'])[1]
    except Exception as e:
        return 'judge failed: %r' % e


def classify(case, obs, spec):
    return None      # no open known finding for C06 (DESIGN 5 items 1 and 10 are repaired in /repo)


def _target_pattern(case):
    if case.get('kind') == 'req':
        return dict((n, p) for n, p in case['routes']).get(case['target'])
    if case.get('kind') == 'hist':
        return case['route'][1]
    for n, p in case['routes']:
        if n == case['target']:
            return p
    return None


def _hist_equal_keys(case):
    seen = {}
    for kw in case['calls']:
        for _k, v in kw:
            if v[0] == 'q':
                for x in v[1]:
                    if x[0] in ('i', 'n', 'd'):
                        seen.setdefault(x[1], set()).add(str(x[-1]) if x[0] != 'i' else str(x[1]))
    return any(len(p) > 1 for p in seen.values())


def nontrivial(case, obs):
    if case.get('kind') == 'req':
        sc = scripts_at(case)
        return isinstance(obs, list) and len(obs) >= 2 and len(set(sc)) >= 2 and all(len(o) == 3 and o[0][0] == 0 for o in obs)
    if case.get('kind') == 'hist':
        return isinstance(obs, list) and len(obs) >= 2 and all(len(o) == 2 and o[0][0] == 0 and o[1] for o in obs) \
            and _hist_equal_keys(case)
    if not (isinstance(obs, list) and len(obs) == 3):
        return False
    tp = _target_pattern(case)
    if tp is None or not ('{' in tp or ':' in tp or '*' in tp):
        return False
    u, p, back = obs
    if u == [1, ERR['KeyError']]:
        return True
    return u[0] == 0 and len(back) == 2 and bool(back[1]) and bool(back[1][0])


def kinds(case, obs):
    k = []
    if case.get('kind') == 'req':
        sc = scripts_at(case)
        k = ['req', 'req-generations-%d' % min(4, len(sc))]
        if len(set(sc)) >= 2:
            k.append('req-script-differs-between-generations')
        for st in case['steps']:
            k.append('req-step-' + (st[0] if st[0] != 'set' else 'set-' + st[2]))
        if isinstance(obs, list) and all(len(o) == 3 for o in obs):
            k.append('req-all-ok' if all(o[0][0] == 0 for o in obs) else 'req-some-error')
        sp = _last.get('spec')
        if sp and sp[0] == 'req':
            k.append('req-spec-all' if all(sp[1]) else 'req-spec-partial')
        return sorted(set(k))
    if case.get('kind') == 'hist':
        k = ['hist', 'hist-calls-%d' % len(case['calls'])]
        if _hist_equal_keys(case):
            k.append('hist-equal-keys-printing-differently')
        if isinstance(obs, list) and all(len(o) == 2 for o in obs):
            k.append('hist-all-ok' if all(o[0][0] == 0 for o in obs) else 'hist-some-error')
            k.append('hist-all-matched' if all(o[1] for o in obs) else 'hist-some-unmatched')
        sp = _last.get('spec')
        if sp and sp[0] == 'hist':
            k.append('hist-spec-with-dict' if all(x and x[0] == 'route' and x[2] for x in sp[1]) else 'hist-spec-partial')
        return k
    if not (isinstance(obs, list) and len(obs) == 3):
        return ['harness-exc']
    u, p, back = obs
    k.append('url-ok' if u[0] == 0 else 'url-err-%s' % u[1] if u[0] == 1 else 'url-exc-%s' % u[1])
    if u[0] == 0:
        if len(back) == 1:
            k.append('back-tag-%s' % back[0])
        elif len(back) == 2:
            out, own = back
            k.append({0: 'back-decode-error', 1: 'back-selected', 2: 'back-no-route'}.get(out[0], '?'))
            names = [n for n, _p in case['routes']]
            if out[0] == 1:
                k.append('selected-target' if names[out[1]] == case['target'] else 'selected-other-route')
            k.append('own-match' if own else 'own-no-match')
            if own:
                k.append('dict-nonempty' if own[0] else 'dict-empty')
                if any(v[0] == 1 for _n, v in own[0]):
                    k.append('own-with-remainder')
        if '%' in u[1]:
            k.append('url-has-escapes')
    tp = _target_pattern(case) or ''
    pp = P17.parse_pattern(tp) if tp else None
    if pp:
        k.append('holes-%d' % min(3, len(pp['holes'])))
        k.append('star' if pp['star'] else 'no-star')
        if any(':' in h for h in re.findall(r'\{[^{}]*(?:\{[^{}]*\}[^{}]*)*\}', tp)):
            k.append('custom-regex')
        if not re.search(r'\{', tp) and re.search(r':[_a-zA-Z]', tp):
            k.append('old-style')
    for _n, v in case['kw']:
        k.append('kw-' + (v[1][0] if v[0] == 'v' else 'seq-one-shot' if v[2] in ('iter', 'gen') else 'seq'))
    k.append('elements-%d' % min(3, len(case['elements'])))
    sc = case['env']['script_name']
    k.append('script-' + ('empty' if not sc else 'quoted' if P17._needs_quote(sc) else 'plain'))
    k.append('routes-%d' % len(case['routes']))
    sp = _last.get('spec')
    k.append('spec-nothing' if sp is None else 'spec-keyerror' if sp[0] == 'keyerror' else
             'spec-route-with-dict' if sp[2] else 'spec-route-path-only')
    m = case.get('meta') or {}
    if any(r is not None and _OPAQUE.search(r) for r in hole_regs(tp)):
        k.append('target-regex-outside-sublanguage')
        if sp is not None and sp[0] == 'route':
            k.append('open-spec-with-dict' if sp[2] else 'open-spec-path-only')
    k.append('gen-separable' if m.get('separable_gen') else 'gen-any')
    if m.get('dropped'):
        k.append('gen-dropped-key')
    if case['ov']['query'] is not None:
        k.append('query')
    if case['ov']['anchor'] is not None:
        k.append('anchor')
    return sorted(set(k))


def describe(case):
    return case
