"""C04 translator: Python ast of ActionState.execute_actions and ActionConfiguratorMixin.action
(src/pyramid/config/actions.py) -> Gallina definitions gen_execute_actions / gen_config_action, re-run on every
check (prop.facts) and emitted into coq/Gen/Exec_C04.v (which imports Model/C04.v for the primitives).

Fail-closed: a statement outside the SUBSET, an expression outside the PRIMITIVE TABLE -> Problem; the caller records
it as a broken tie and emits the stored fallback text (harness/c04/gen_fallback.json = the translation of the text
the hand-written model was written against) so that the Coq development still builds.

=== STATE ===================================================================================================
  The modelled state of execute_actions is (st : cstate) (g : gen) (actions : list action) (log : list event):
  conflict_state, the suspended generator action_iter, self.actions, and the observable log.  The result is
  (outcome, log): `return` -> (Done, log); an exception raised by the generator -> (that outcome, log).

=== CONTROL FLOW (mechanical, continuation-passing) =========================================================
  block s1; s2; ...           the translation of s1 receives the translation of the rest as its continuation
  while True: B ; rest        (fix loopN (fuel : nat) st g actions log {struct fuel} := match fuel with
                                 O => (OutOfFuel, log) | S fuel' => <B> end) fuel0 <current state>
                              end of B / continue = recursive call with the current state; break = <rest>
  if c: A else: B ; rest      each branch is followed by its own copy of <rest>
       c = self.actions / not self.actions     match actions with [] => .. | _ :: _ => ..   (actions := [] in the [] arm)
       c = X is None / X is not None           resolved statically when X is a known Some/None (after next(..)), see table
  try: B finally: F           B, provided F only rebinds self.actions (possibly under `if <name>:`) -- the final value of
                              self.actions is not part of the modelled result
  try: B except Exception: H  B, provided every path of H raises (the harness' callables never raise: ASSUMPTION)
  v = e                       substitution (no let is emitted), except the two binding primitives below

=== PRIMITIVE TABLE (trusted: each line is a claim about Python / Pyramid semantics) =========================
  X = []                                  X is an UNOBSERVED ACCUMULATOR if it is afterwards only used as
                                          X.append(..) / X.extend(..) / `self.actions = X` outside any loop / `return X`
  X = iter([])                            g := gen0              (X becomes the name of the generator)
  X = ConflictResolverState()             st := cstate0          (X becomes the name of the resolver state)
  X = resolveConflicts(self.actions, state=<resolver>) | resolveConflicts(self.actions, <resolver>)
                                          let '(stN, gN) := restart st actions in ..   (generators are lazy: the body
                                          runs at the first next(); nothing touches the state in between -- checked:
                                          the only statements allowed before the next() are rebinding self.actions
                                          and accumulator updates)
  self.actions = []                       actions := []
  A = next(<generator>, None)             match gen_next cfg st g with
                                          | SYield a st' g' evs => <rest, A := Some a, log := log ++ evs>
                                          | SStop o evs _ => match o with Done => <rest, A := None, log := log ++ evs>
                                                                         | _ => (o, log ++ evs) end end
  v = A['k'] / A.get('k', d)              the field k of the action a (symbolic)
  if <field callable> is not None: ..     true (every modelled action has a callable)
  <field callable>(*<field args>, **<field kw>)
                                          log := log ++ [Run (aid a)] ; actions := actions ++ aadds a
                                          (the callable appends its declarations to self.actions)
  if <param> is not None: for x in <field introspectables>: x.register(<param>, <field info>)
                                          no effect (introspection is C20's; not part of the C04 state)
  ActionConfiguratorMixin.action (non-autocommit branch, parameter autocommit := False):
     self.action_state.action(**D) with D = extra.update(dict(k=v, ..)):  the values of the keys
     discriminator / order / includepath after substitution must be the parameter `discriminator`, the parameter
     `order`, and `self.includepath`;  gen_config_action includepath i d o adds := mkA i d includepath o adds.
     Everything that only feeds the unmodelled keys (callable args kw info introspectables, **extra) is ignored;
     `assert hash(discriminator)` is a precondition of the harness (include mode avoids 0 and '').
"""
import ast
import json
import os

HERE = os.path.dirname(os.path.abspath(__file__))

# every source function whose control flow is regenerated on every run (tools/coverage_map.py reads this)
TRANSLATED = ['pyramid/config/actions.py:ActionState.execute_actions',
              'pyramid/config/actions.py:ActionConfiguratorMixin.action']


class Problem(Exception):
    pass


def u(n):
    try:
        return ast.unparse(n)
    except Exception:
        return '<%s>' % type(n).__name__


def strip_doc(body):
    if body and isinstance(body[0], ast.Expr) and isinstance(body[0].value, ast.Constant) and isinstance(body[0].value.value, str):
        return body[1:]
    return body


class Env:
    """symbolic state + locals"""

    def __init__(self):
        self.st, self.g, self.actions, self.log = None, None, 'self_actions', 'log0'
        self.names = {}          # local name -> ('unobs',) | ('gen',) | ('res',) | ('some', a) | ('none',) | ('field', a, key)
        self.fresh = [0]
        self.in_loop = 0
        self.lazy_gen = False    # a generator was created and not yet advanced

    def copy(self):
        e = Env()
        e.st, e.g, e.actions, e.log = self.st, self.g, self.actions, self.log
        e.names = dict(self.names)
        e.fresh = self.fresh
        e.in_loop = self.in_loop
        e.lazy_gen = self.lazy_gen
        return e

    def new(self, base):
        self.fresh[0] += 1
        return '%s%d' % (base, self.fresh[0])


def app(a, b):
    if a == '[]':
        return b
    if b == '[]':
        return a
    return '(%s ++ %s)' % (a, b)


class ExecTranslator:
    def __init__(self):
        self.loops = 0

    # ---- expressions we recognise
    def is_self_actions(self, n):
        return isinstance(n, ast.Attribute) and isinstance(n.value, ast.Name) and n.value.id == 'self' and n.attr == 'actions'

    def field_of(self, env, n):
        """n denotes a field of the current action -> (a, key) or None"""
        if isinstance(n, ast.Name) and env.names.get(n.id, (None,))[0] == 'field':
            return env.names[n.id][1:]
        if isinstance(n, ast.Subscript) and isinstance(n.value, ast.Name) and env.names.get(n.value.id, (None,))[0] == 'some' \
                and isinstance(n.slice, ast.Constant) and isinstance(n.slice.value, str):
            return (env.names[n.value.id][1], n.slice.value)
        if isinstance(n, ast.Call) and isinstance(n.func, ast.Attribute) and n.func.attr == 'get' \
                and isinstance(n.func.value, ast.Name) and env.names.get(n.func.value.id, (None,))[0] == 'some' \
                and n.args and isinstance(n.args[0], ast.Constant) and isinstance(n.args[0].value, str):
            return (env.names[n.func.value.id][1], n.args[0].value)
        return None

    def no_effect(self, env, s):
        """statements without effect on the modelled state"""
        if isinstance(s, ast.Pass):
            return True
        if isinstance(s, ast.Expr) and isinstance(s.value, ast.Call) and isinstance(s.value.func, ast.Attribute):
            f = s.value.func
            if f.attr in ('append', 'extend') and isinstance(f.value, ast.Name) and env.names.get(f.value.id) == ('unobs',):
                return True
            if f.attr == 'register' and isinstance(f.value, ast.Name) and env.names.get(f.value.id) == ('intr',):
                return True
        if isinstance(s, ast.For) and not s.orelse and isinstance(s.target, ast.Name):
            fo = self.field_of(env, s.iter)
            if fo and fo[1] == 'introspectables':
                e2 = env.copy()
                e2.names[s.target.id] = ('intr',)
                return all(self.no_effect(e2, b) for b in s.body)
        if isinstance(s, ast.If) and isinstance(s.test, ast.Compare) and len(s.test.ops) == 1 \
                and isinstance(s.test.ops[0], (ast.Is, ast.IsNot)) and isinstance(s.test.left, ast.Name) \
                and s.test.left.id in self.params and u(s.test.comparators[0]) == 'None':
            return all(self.no_effect(env, b) for b in s.body + s.orelse)
        return False

    def always_raises(self, stmts):
        if not stmts:
            return False
        last = stmts[-1]
        if isinstance(last, ast.Raise):
            return True
        if isinstance(last, ast.Expr) and isinstance(last.value, ast.Call) and u(last.value.func) == 'reraise':
            return True
        if isinstance(last, ast.Try) and not last.handlers:
            return self.always_raises(last.body)
        if isinstance(last, ast.If) and last.orelse:
            return self.always_raises(last.body) and self.always_raises(last.orelse)
        return False

    # ---- blocks
    def block(self, stmts, env, kont, loop=None):
        """kont(env) -> text of what follows the block; loop = (k_continue, k_break)"""
        if not stmts:
            return kont(env)
        s, rest = stmts[0], stmts[1:]

        def after(e):
            return self.block(rest, e, kont, loop)

        if self.no_effect(env, s):
            return after(env)
        if isinstance(s, ast.Try):
            if s.finalbody and not s.handlers and not s.orelse:
                for f in s.finalbody:
                    tgt = f.body if isinstance(f, ast.If) and isinstance(f.test, ast.Name) and not f.orelse else [f]
                    for a in tgt:
                        if not (isinstance(a, ast.Assign) and len(a.targets) == 1 and self.is_self_actions(a.targets[0])):
                            raise Problem('finally block does more than rebinding self.actions: %s' % u(f))
                return self.block(list(s.body) + rest, env, kont, loop)
            if s.handlers and not s.finalbody and not s.orelse:
                for h in s.handlers:
                    if not self.always_raises(h.body):
                        raise Problem('an except handler may complete normally: %s' % u(h)[:80])
                return self.block(list(s.body) + rest, env, kont, loop)
            raise Problem('unsupported try statement')
        if isinstance(s, ast.While):
            if not (isinstance(s.test, ast.Constant) and s.test.value is True) or s.orelse:
                raise Problem('only `while True:` loops are translated')
            if env.st is None or env.g is None:
                raise Problem('loop entered before the resolver state / generator exist')
            self.loops += 1
            name = 'loop%d' % self.loops
            inner = Env()
            inner.st, inner.g, inner.actions, inner.log = 'st', 'g', 'actions', 'log'
            inner.names = dict(env.names)
            inner.fresh = env.fresh
            inner.in_loop = env.in_loop + 1
            inner.lazy_gen = env.lazy_gen

            def k_cont(e):
                return "%s fuel' %s %s (%s) (%s)" % (name, e.st, e.g, e.actions, e.log)

            def k_break(e):
                e2 = e.copy()
                e2.in_loop = env.in_loop
                return after(e2)
            body = self.block(list(s.body), inner, k_cont, (k_cont, k_break))
            return ("(fix %s (fuel : nat) (st : cstate) (g : gen) (actions : list action) (log : list event) {struct fuel}"
                    " : outcome * list event :=\n   match fuel with\n   | O => (OutOfFuel, log)\n   | S fuel' =>\n%s\n   end) fuel0 %s %s %s %s"
                    % (name, body, env.st, env.g, env.actions, env.log))
        if isinstance(s, ast.Break):
            if loop is None:
                raise Problem('break outside a loop')
            return loop[1](env)
        if isinstance(s, ast.Continue):
            if loop is None:
                raise Problem('continue outside a loop')
            return loop[0](env)
        if isinstance(s, ast.Return):
            if s.value is None or (isinstance(s.value, ast.Name) and env.names.get(s.value.id) == ('unobs',)):
                return '(Done, %s)' % env.log
            raise Problem('return of a modelled value: %s' % u(s))
        if isinstance(s, ast.If):
            return self.if_(s, env, after, loop)
        if isinstance(s, ast.Assign) and len(s.targets) == 1:
            return self.assign(s.targets[0], s.value, env, after, s)
        if isinstance(s, ast.Expr) and isinstance(s.value, ast.Call):
            c = s.value
            fo = self.field_of(env, c.func)
            if fo and fo[1] == 'callable':
                ok = len(c.args) == 1 and isinstance(c.args[0], ast.Starred) and self.field_of(env, c.args[0].value) == (fo[0], 'args') \
                    and len(c.keywords) == 1 and c.keywords[0].arg is None and self.field_of(env, c.keywords[0].value) == (fo[0], 'kw')
                if not ok:
                    raise Problem('the callable is not called as callable(*args, **kw): %s' % u(s))
                if env.lazy_gen:
                    raise Problem('a callable runs between resolveConflicts(..) and the first next(..)')
                e = env.copy()
                e.log = app(env.log, '[Run (aid %s)]' % fo[0])
                e.actions = app(env.actions, 'aadds %s' % fo[0])
                return after(e)
        raise Problem('statement outside the subset: %s' % u(s)[:100])

    def if_(self, s, env, after, loop):
        t = s.test
        neg = False
        if isinstance(t, ast.UnaryOp) and isinstance(t.op, ast.Not):
            t, neg = t.operand, True
        body, orelse = (list(s.orelse), list(s.body)) if neg else (list(s.body), list(s.orelse))
        if self.is_self_actions(t):
            e_nil = env.copy()
            e_nil.actions = '[]'
            a = self.block(orelse, e_nil, after, loop)
            b = self.block(body, env.copy(), after, loop)
            return '(match %s with\n | [] => %s\n | _ :: _ => %s\n end)' % (env.actions, a, b)
        if isinstance(t, ast.Compare) and len(t.ops) == 1 and isinstance(t.ops[0], (ast.Is, ast.IsNot)) and u(t.comparators[0]) == 'None':
            isnot = isinstance(t.ops[0], ast.IsNot)
            if isinstance(t.left, ast.Name) and env.names.get(t.left.id, (None,))[0] in ('some', 'none'):
                is_none = env.names[t.left.id][0] == 'none'
                take_body = (not is_none) if isnot else is_none
                return self.block(body if take_body else orelse, env, after, loop)
            fo = self.field_of(env, t.left)
            if fo and fo[1] == 'callable':
                return self.block(body if isnot else orelse, env, after, loop)     # every modelled action has a callable
        raise Problem('condition outside the table: %s' % u(s.test))

    def assign(self, tgt, val, env, after, s):
        if self.is_self_actions(tgt):
            e = env.copy()
            if isinstance(val, ast.List) and not val.elts:
                e.actions = '[]'
                return after(e)
            if isinstance(val, ast.Name) and env.names.get(val.id) == ('unobs',):
                if env.in_loop:
                    raise Problem('self.actions rebound to an accumulator inside the loop')
                return after(e)
            raise Problem('self.actions rebound to %s' % u(val))
        if not isinstance(tgt, ast.Name):
            raise Problem('assignment target outside the subset: %s' % u(s))
        e = env.copy()
        if isinstance(val, ast.List) and not val.elts:
            e.names[tgt.id] = ('unobs',)
            return after(e)
        if u(val) == 'iter([])':
            e.names[tgt.id] = ('gen',)
            e.g = 'gen0'
            return after(e)
        if u(val) == 'ConflictResolverState()':
            e.names[tgt.id] = ('res',)
            e.st = 'cstate0'
            return after(e)
        if isinstance(val, ast.Call) and u(val.func) == 'resolveConflicts':
            args = list(val.args)
            kws = {k.arg: k.value for k in val.keywords}
            if not (args and self.is_self_actions(args[0])):
                raise Problem('resolveConflicts not applied to self.actions: %s' % u(val))
            stn = args[1] if len(args) == 2 else kws.get('state')
            if not (isinstance(stn, ast.Name) and env.names.get(stn.id) == ('res',)) or len(args) > 2 or set(kws) - {'state'}:
                raise Problem('resolveConflicts without the resolver state: %s' % u(val))
            if env.names.get(tgt.id, ('gen',)) != ('gen',):
                raise Problem('generator bound to a name of another kind')
            st2, g2 = e.new('st'), e.new('g')
            e.names[tgt.id] = ('gen',)
            text_st, text_g = st2, g2
            head = "let '(%s, %s) := restart %s %s in\n " % (st2, g2, env.st, env.actions)
            e.st, e.g = text_st, text_g
            e.lazy_gen = True
            return head + after(e)
        if isinstance(val, ast.Call) and u(val.func) == 'next':
            if not (len(val.args) == 2 and isinstance(val.args[0], ast.Name) and env.names.get(val.args[0].id) == ('gen',)
                    and u(val.args[1]) == 'None' and not val.keywords):
                raise Problem('next(..) outside the table: %s' % u(val))
            a, st2, g2, ev, o = e.new('a'), e.new('st'), e.new('g'), e.new('evs'), e.new('o')
            e_some = env.copy()
            e_some.names[tgt.id] = ('some', a)
            e_some.st, e_some.g, e_some.log, e_some.lazy_gen = st2, g2, app(env.log, ev), False
            e_none = env.copy()
            e_none.names[tgt.id] = ('none',)
            e_none.log, e_none.lazy_gen = app(env.log, ev), False
            return ('(match gen_next cfg %s %s with\n | SYield %s %s %s %s => %s\n | SStop %s %s _ =>\n   match %s with\n   | Done => %s\n   | _ => (%s, %s)\n   end\n end)'
                    % (env.st, env.g, a, st2, g2, ev, after(e_some), o, ev, o, after(e_none), o, app(env.log, ev)))
        fo = self.field_of(env, val)
        if fo:
            e.names[tgt.id] = ('field',) + tuple(fo)
            return after(e)
        raise Problem('assignment outside the table: %s' % u(s)[:100])

    def translate(self, fn):
        self.params = {a.arg for a in fn.args.args + fn.args.kwonlyargs}
        env = Env()
        body = self.block(strip_doc(list(fn.body)), env, lambda e: '(Done, %s)' % e.log)
        return ('Definition gen_execute_actions (cfg : params) (fuel0 : nat) (self_actions : list action) : outcome * list event :=\n'
                '  %s.\n' % body)


def translate_config_action(fn):
    """non-autocommit branch of ActionConfiguratorMixin.action: which expressions reach the modelled keys"""
    params = [a.arg for a in fn.args.args]
    subst = {}
    found = []

    def val_of(n):
        if isinstance(n, ast.Name) and n.id in subst:
            return subst[n.id]
        return u(n)

    def walk(stmts, auto_false):
        for s in stmts:
            if isinstance(s, ast.If):
                t = u(s.test)
                tv = val_of(s.test) if isinstance(s.test, ast.Name) else t
                if tv in ('self.autocommit', 'autocommit') and (isinstance(s.test, ast.Name) or t == 'self.autocommit'):
                    walk(s.orelse, auto_false)            # parameter autocommit := False
                elif tv in ('not self.autocommit', 'not autocommit'):
                    walk(s.body, auto_false)
                else:
                    for b in (s.body, s.orelse):
                        for x in b:
                            if isinstance(x, ast.Assign):
                                for tg in x.targets:
                                    if isinstance(tg, ast.Name) and tg.id in ('discriminator', 'order') :
                                        raise Problem('a modelled value is rebound conditionally: %s' % u(x))
                continue
            if isinstance(s, ast.Assign) and len(s.targets) == 1 and isinstance(s.targets[0], ast.Name):
                subst[s.targets[0].id] = val_of(s.value) if isinstance(s.value, ast.Name) else u(s.value)
                continue
            if isinstance(s, ast.Expr) and isinstance(s.value, ast.Call):
                c = s.value
                if isinstance(c.func, ast.Attribute) and c.func.attr == 'update' and len(c.args) == 1 \
                        and isinstance(c.args[0], ast.Call) and u(c.args[0].func) == 'dict':
                    found.append(('update', u(c.func.value), {k.arg: val_of(k.value) for k in c.args[0].keywords}))
                elif u(c.func) == 'self.action_state.action' and len(c.keywords) == 1 and c.keywords[0].arg is None and not c.args:
                    found.append(('call', u(c.keywords[0].value), None))
    walk(strip_doc(list(fn.body)), True)
    ups = [f for f in found if f[0] == 'update']
    calls = [f for f in found if f[0] == 'call']
    if len(ups) != 1 or len(calls) != 1 or ups[0][1] != calls[0][1]:
        raise Problem('ActionConfiguratorMixin.action: the dict handed to action_state.action is not recognised')
    kv = ups[0][2]
    want = {'discriminator': 'discriminator', 'order': 'order', 'includepath': 'self.includepath'}
    cols = {}
    for k, w in want.items():
        if k not in kv:
            raise Problem('ActionConfiguratorMixin.action: key %s missing' % k)
        cols[k] = kv[k]
    for p in ('discriminator', 'order'):
        if p not in params:
            raise Problem('ActionConfiguratorMixin.action: parameter %s missing' % p)
    names = {'discriminator': 'd', 'order': 'o', 'self.includepath': 'includepath'}
    args = []
    for k in ('discriminator', 'includepath', 'order'):
        if cols[k] not in names:
            raise Problem('ActionConfiguratorMixin.action: key %s receives %s' % (k, cols[k]))
        args.append(names[cols[k]])
    # types keep a swapped discriminator/order/includepath from type-checking; the theorem catches the rest
    return ('Definition gen_config_action (includepath : path) (i : N) (d : disc) (o : option Z) (adds : list action) : action :=\n'
            '  mkA i %s %s %s adds.\n' % tuple(args))


HEADER = '''(* GENERATED by harness/c04/translate.py from src/pyramid/config/actions.py on every run -- do not edit. *)
From Coq Require Import List NArith ZArith Bool.
Import ListNotations.
Require Import Verif.Lib.Wire Verif.Model.C04.

'''


def translate_tree(src_root):
    """-> (text of Gen/Exec_C04.v, problems, summary)"""
    problems, parts, summary = [], {}, {}
    with open(os.path.join(HERE, 'gen_fallback.json')) as f:
        fallback = json.load(f)
    try:
        with open(os.path.join(src_root, 'pyramid/config/actions.py')) as f:
            tree = ast.parse(f.read())
        cls = {n.name: n for n in tree.body if isinstance(n, ast.ClassDef)}
        fns = {}
        for cn, mn in (('ActionState', 'execute_actions'), ('ActionConfiguratorMixin', 'action')):
            m = [x for x in cls[cn].body if isinstance(x, ast.FunctionDef) and x.name == mn]
            if len(m) != 1:
                raise Problem('%s.%s not found' % (cn, mn))
            fns[mn] = m[0]
    except Exception as e:
        problems.append('translator: cannot read the source: %r' % (e,))
        fns = {}
    for key, fn in (('gen_execute_actions', lambda: ExecTranslator().translate(fns['execute_actions'])),
                    ('gen_config_action', lambda: translate_config_action(fns['action']))):
        try:
            parts[key] = fn()
            summary['translated:' + key] = 'ok'
        except Problem as e:
            problems.append('translator (%s): %s' % (key, e))
            parts[key] = fallback[key]
            summary['translated:' + key] = 'FALLBACK'
        except Exception as e:
            problems.append('translator (%s) failed: %r' % (key, e))
            parts[key] = fallback[key]
            summary['translated:' + key] = 'FALLBACK'
    return HEADER + parts['gen_execute_actions'] + '\n' + parts['gen_config_action'], problems, summary
