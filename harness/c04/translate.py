"""C04 translator: Python ast of ActionState.execute_actions and ActionConfiguratorMixin.action
(src/pyramid/config/actions.py) -> Gallina definitions gen_execute_actions / gen_config_action, re-run on every
check (prop.facts) and emitted into coq/Gen/Exec_C04.v (which imports Model/C04.v for the primitives).

Fail-closed: a statement outside the SUBSET, an expression outside the PRIMITIVE TABLE -> Problem; the caller records
it as a broken tie and emits the stored fallback text (harness/c04/gen_fallback.json = the translation of the text
the hand-written model was written against) so that the Coq development still builds.

=== STATE ===================================================================================================
  The modelled state of execute_actions is (st : cstate) (g : gen) (actions : list action) (log : list event):
  conflict_state, the suspended generator action_iter, self.actions, and the observable log.  The result is
  (outcome, log): `return` -> (Done, log); an exception raised by the generator -> (that outcome, log).

=== CONTROL FLOW (mechanical, continuation-passing) =========================================================
  block s1; s2; ...           the translation of s1 receives the translation of the rest as its continuation
  while True: B ; rest        (fix loopN (fuel : nat) st g actions log {struct fuel} := match fuel with
                                 O => (OutOfFuel, log) | S fuel' => <B> end) fuel0 <current state>
                              end of B / continue = recursive call with the current state; break = <rest>
  if c: A else: B ; rest      each branch is followed by its own copy of <rest>
       c = self.actions / not self.actions     match actions with [] => .. | _ :: _ => ..   (actions := [] in the [] arm)
       c = X is None / X is not None           resolved statically when X is a known Some/None (after next(..)), see table
  try: B finally: F           B, provided F only rebinds self.actions (possibly under `if <name>:`) -- the final value of
                              self.actions is not part of the modelled result
  try: B except Exception: H  B, provided every path of H raises (the harness' callables never raise: ASSUMPTION)
  v = e                       substitution (no let is emitted), except the two binding primitives below

=== PRIMITIVE TABLE (trusted: each line is a claim about Python / Pyramid semantics) =========================
  X = []                                  X is an UNOBSERVED ACCUMULATOR if it is afterwards only used as
                                          X.append(..) / X.extend(..) / `self.actions = X` outside any loop / `return X`
  X = iter([])                            g := gen0              (X becomes the name of the generator)
  X = ConflictResolverState()             st := cstate0          (X becomes the name of the resolver state)
  X = resolveConflicts(self.actions, state=<resolver>) | resolveConflicts(self.actions, <resolver>)
                                          let '(stN, gN) := restart st actions in ..   (generators are lazy: the body
                                          runs at the first next(); nothing touches the state in between -- checked:
                                          the only statements allowed before the next() are rebinding self.actions
                                          and accumulator updates)
  self.actions = []                       actions := []
  A = next(<generator>, None)             match gen_next cfg st g with
                                          | SYield a st' g' evs => <rest, A := Some a, log := log ++ evs>
                                          | SStop o evs _ => match o with Done => <rest, A := None, log := log ++ evs>
                                                                         | _ => (o, log ++ evs) end end
  v = A['k'] / A.get('k', d)              the field k of the action a (symbolic)
  if <field callable> is not None: ..     true (every modelled action has a callable)
  <field callable>(*<field args>, **<field kw>)
                                          log := log ++ [Run (aid a)] ; actions := actions ++ aadds a
                                          (the callable appends its declarations to self.actions)
  if <param> is not None: for x in <field introspectables>: x.register(<param>, <field info>)
                                          no effect (introspection is C20's; not part of the C04 state)
  ActionConfiguratorMixin.action (non-autocommit branch, parameter autocommit := False):
     self.action_state.action(**D) with D = extra.update(dict(k=v, ..)):  the values of the keys
     discriminator / order / includepath after substitution must be the parameter `discriminator`, the parameter
     `order`, and `self.includepath`;  gen_config_action includepath i d o adds := mkA i d includepath o adds.
     Everything that only feeds the unmodelled keys (callable args kw info introspectables, **extra) is ignored;
     `assert hash(discriminator)` is a precondition of the harness (include mode avoids 0 and '').

=== ENTRY DOORS (model: coq/Model/C04_entry.v; theorems: Proofs/C04_entry.v) ==================================
  ActionState.action, expand_action_tuple   straight-line DICT BUILDERS (see _dict_builder): the dict that is appended to
                                          self.actions / returned must give the keys discriminator, includepath, order
                                          the same-named parameters; positions, arity and defaults of those parameters
                                          are read from the signature (Python binds a tuple's positions left to right;
                                          too many positions or a missing required one = TypeError = None)
  normalize_actions                       acc = []; for v in <param>: [v = expand_action_tuple(*v) unless
                                          isinstance(v, dict)]; acc.append(v); return acc  ->  a generated fix
  ConflictResolverState.__init__          self.<attr> = {} | [] | None | <int>  for the four attributes  ->  gen_cstate0
"""
import ast
import json
import os

HERE = os.path.dirname(os.path.abspath(__file__))

# every source function whose control flow is regenerated on every run (tools/coverage_map.py reads this)
TRANSLATED = ['pyramid/config/actions.py:ActionState.execute_actions',
              'pyramid/config/actions.py:ActionConfiguratorMixin.action',
              'pyramid/config/actions.py:ActionState.action',
              'pyramid/config/actions.py:expand_action_tuple',
              'pyramid/config/actions.py:normalize_actions',
              'pyramid/config/actions.py:ConflictResolverState.__init__']


class Problem(Exception):
    pass


def u(n):
    try:
        return ast.unparse(n)
    except Exception:
        return '<%s>' % type(n).__name__


def strip_doc(body):
    if body and isinstance(body[0], ast.Expr) and isinstance(body[0].value, ast.Constant) and isinstance(body[0].value.value, str):
        return body[1:]
    return body


class Env:
    """symbolic state + locals"""

    def __init__(self):
        self.st, self.g, self.actions, self.log = None, None, 'self_actions', 'log0'
        self.names = {}          # local name -> ('unobs',) | ('gen',) | ('res',) | ('some', a) | ('none',) | ('field', a, key)
        self.fresh = [0]
        self.in_loop = 0
        self.lazy_gen = False    # a generator was created and not yet advanced

    def copy(self):
        e = Env()
        e.st, e.g, e.actions, e.log = self.st, self.g, self.actions, self.log
        e.names = dict(self.names)
        e.fresh = self.fresh
        e.in_loop = self.in_loop
        e.lazy_gen = self.lazy_gen
        return e

    def new(self, base):
        self.fresh[0] += 1
        return '%s%d' % (base, self.fresh[0])


def app(a, b):
    if a == '[]':
        return b
    if b == '[]':
        return a
    return '(%s ++ %s)' % (a, b)


class ExecTranslator:
    def __init__(self):
        self.loops = 0

    # ---- expressions we recognise
    def is_self_actions(self, n):
        return isinstance(n, ast.Attribute) and isinstance(n.value, ast.Name) and n.value.id == 'self' and n.attr == 'actions'

    def field_of(self, env, n):
        """n denotes a field of the current action -> (a, key) or None"""
        if isinstance(n, ast.Name) and env.names.get(n.id, (None,))[0] == 'field':
            return env.names[n.id][1:]
        if isinstance(n, ast.Subscript) and isinstance(n.value, ast.Name) and env.names.get(n.value.id, (None,))[0] == 'some' \
                and isinstance(n.slice, ast.Constant) and isinstance(n.slice.value, str):
            return (env.names[n.value.id][1], n.slice.value)
        if isinstance(n, ast.Call) and isinstance(n.func, ast.Attribute) and n.func.attr == 'get' \
                and isinstance(n.func.value, ast.Name) and env.names.get(n.func.value.id, (None,))[0] == 'some' \
                and n.args and isinstance(n.args[0], ast.Constant) and isinstance(n.args[0].value, str):
            return (env.names[n.func.value.id][1], n.args[0].value)
        return None

    def no_effect(self, env, s):
        """statements without effect on the modelled state"""
        if isinstance(s, ast.Pass):
            return True
        if isinstance(s, ast.Expr) and isinstance(s.value, ast.Call) and isinstance(s.value.func, ast.Attribute):
            f = s.value.func
            if f.attr in ('append', 'extend') and isinstance(f.value, ast.Name) and env.names.get(f.value.id) == ('unobs',):
                return True
            if f.attr == 'register' and isinstance(f.value, ast.Name) and env.names.get(f.value.id) == ('intr',):
                return True
        if isinstance(s, ast.For) and not s.orelse and isinstance(s.target, ast.Name):
            fo = self.field_of(env, s.iter)
            if fo and fo[1] == 'introspectables':
                e2 = env.copy()
                e2.names[s.target.id] = ('intr',)
                return all(self.no_effect(e2, b) for b in s.body)
        if isinstance(s, ast.If) and isinstance(s.test, ast.Compare) and len(s.test.ops) == 1 \
                and isinstance(s.test.ops[0], (ast.Is, ast.IsNot)) and isinstance(s.test.left, ast.Name) \
                and s.test.left.id in self.params and u(s.test.comparators[0]) == 'None':
            return all(self.no_effect(env, b) for b in s.body + s.orelse)
        return False

    def always_raises(self, stmts):
        if not stmts:
            return False
        last = stmts[-1]
        if isinstance(last, ast.Raise):
            return True
        if isinstance(last, ast.Expr) and isinstance(last.value, ast.Call) and u(last.value.func) == 'reraise':
            return True
        if isinstance(last, ast.Try) and not last.handlers:
            return self.always_raises(last.body)
        if isinstance(last, ast.If) and last.orelse:
            return self.always_raises(last.body) and self.always_raises(last.orelse)
        return False

    # ---- blocks
    def block(self, stmts, env, kont, loop=None):
        """kont(env) -> text of what follows the block; loop = (k_continue, k_break)"""
        if not stmts:
            return kont(env)
        s, rest = stmts[0], stmts[1:]

        def after(e):
            return self.block(rest, e, kont, loop)

        if self.no_effect(env, s):
            return after(env)
        if isinstance(s, ast.Try):
            if s.finalbody and not s.handlers and not s.orelse:
                for f in s.finalbody:
                    tgt = f.body if isinstance(f, ast.If) and isinstance(f.test, ast.Name) and not f.orelse else [f]
                    for a in tgt:
                        if not (isinstance(a, ast.Assign) and len(a.targets) == 1 and self.is_self_actions(a.targets[0])):
                            raise Problem('finally block does more than rebinding self.actions: %s' % u(f))
                return self.block(list(s.body) + rest, env, kont, loop)
            if s.handlers and not s.finalbody and not s.orelse:
                for h in s.handlers:
                    if not self.always_raises(h.body):
                        raise Problem('an except handler may complete normally: %s' % u(h)[:80])
                return self.block(list(s.body) + rest, env, kont, loop)
            raise Problem('unsupported try statement')
        if isinstance(s, ast.While):
            if not (isinstance(s.test, ast.Constant) and s.test.value is True) or s.orelse:
                raise Problem('only `while True:` loops are translated')
            if env.st is None or env.g is None:
                raise Problem('loop entered before the resolver state / generator exist')
            self.loops += 1
            name = 'loop%d' % self.loops
            inner = Env()
            inner.st, inner.g, inner.actions, inner.log = 'st', 'g', 'actions', 'log'
            inner.names = dict(env.names)
            inner.fresh = env.fresh
            inner.in_loop = env.in_loop + 1
            inner.lazy_gen = env.lazy_gen

            def k_cont(e):
                return "%s fuel' %s %s (%s) (%s)" % (name, e.st, e.g, e.actions, e.log)

            def k_break(e):
                e2 = e.copy()
                e2.in_loop = env.in_loop
                return after(e2)
            body = self.block(list(s.body), inner, k_cont, (k_cont, k_break))
            return ("(fix %s (fuel : nat) (st : cstate) (g : gen) (actions : list action) (log : list event) {struct fuel}"
                    " : outcome * list event :=\n   match fuel with\n   | O => (OutOfFuel, log)\n   | S fuel' =>\n%s\n   end) fuel0 %s %s %s %s"
                    % (name, body, env.st, env.g, env.actions, env.log))
        if isinstance(s, ast.Break):
            if loop is None:
                raise Problem('break outside a loop')
            return loop[1](env)
        if isinstance(s, ast.Continue):
            if loop is None:
                raise Problem('continue outside a loop')
            return loop[0](env)
        if isinstance(s, ast.Return):
            if s.value is None or (isinstance(s.value, ast.Name) and env.names.get(s.value.id) == ('unobs',)):
                return '(Done, %s)' % env.log
            raise Problem('return of a modelled value: %s' % u(s))
        if isinstance(s, ast.If):
            return self.if_(s, env, after, loop)
        if isinstance(s, ast.Assign) and len(s.targets) == 1:
            return self.assign(s.targets[0], s.value, env, after, s)
        if isinstance(s, ast.Expr) and isinstance(s.value, ast.Call):
            c = s.value
            fo = self.field_of(env, c.func)
            if fo and fo[1] == 'callable':
                ok = len(c.args) == 1 and isinstance(c.args[0], ast.Starred) and self.field_of(env, c.args[0].value) == (fo[0], 'args') \
                    and len(c.keywords) == 1 and c.keywords[0].arg is None and self.field_of(env, c.keywords[0].value) == (fo[0], 'kw')
                if not ok:
                    raise Problem('the callable is not called as callable(*args, **kw): %s' % u(s))
                if env.lazy_gen:
                    raise Problem('a callable runs between resolveConflicts(..) and the first next(..)')
                e = env.copy()
                e.log = app(env.log, '[Run (aid %s)]' % fo[0])
                e.actions = app(env.actions, 'aadds %s' % fo[0])
                return after(e)
        raise Problem('statement outside the subset: %s' % u(s)[:100])

    def if_(self, s, env, after, loop):
        t = s.test
        neg = False
        if isinstance(t, ast.UnaryOp) and isinstance(t.op, ast.Not):
            t, neg = t.operand, True
        body, orelse = (list(s.orelse), list(s.body)) if neg else (list(s.body), list(s.orelse))
        if self.is_self_actions(t):
            e_nil = env.copy()
            e_nil.actions = '[]'
            a = self.block(orelse, e_nil, after, loop)
            b = self.block(body, env.copy(), after, loop)
            return '(match %s with\n | [] => %s\n | _ :: _ => %s\n end)' % (env.actions, a, b)
        if isinstance(t, ast.Compare) and len(t.ops) == 1 and isinstance(t.ops[0], (ast.Is, ast.IsNot)) and u(t.comparators[0]) == 'None':
            isnot = isinstance(t.ops[0], ast.IsNot)
            if isinstance(t.left, ast.Name) and env.names.get(t.left.id, (None,))[0] in ('some', 'none'):
                is_none = env.names[t.left.id][0] == 'none'
                take_body = (not is_none) if isnot else is_none
                return self.block(body if take_body else orelse, env, after, loop)
            fo = self.field_of(env, t.left)
            if fo and fo[1] == 'callable':
                return self.block(body if isnot else orelse, env, after, loop)     # every modelled action has a callable
        raise Problem('condition outside the table: %s' % u(s.test))

    def assign(self, tgt, val, env, after, s):
        if self.is_self_actions(tgt):
            e = env.copy()
            if isinstance(val, ast.List) and not val.elts:
                e.actions = '[]'
                return after(e)
            if isinstance(val, ast.Name) and env.names.get(val.id) == ('unobs',):
                if env.in_loop:
                    raise Problem('self.actions rebound to an accumulator inside the loop')
                return after(e)
            raise Problem('self.actions rebound to %s' % u(val))
        if not isinstance(tgt, ast.Name):
            raise Problem('assignment target outside the subset: %s' % u(s))
        e = env.copy()
        if isinstance(val, ast.List) and not val.elts:
            e.names[tgt.id] = ('unobs',)
            return after(e)
        if u(val) == 'iter([])':
            e.names[tgt.id] = ('gen',)
            e.g = 'gen0'
            return after(e)
        if u(val) == 'ConflictResolverState()':
            e.names[tgt.id] = ('res',)
            e.st = 'cstate0'
            return after(e)
        if isinstance(val, ast.Call) and u(val.func) == 'resolveConflicts':
            args = list(val.args)
            kws = {k.arg: k.value for k in val.keywords}
            if not (args and self.is_self_actions(args[0])):
                raise Problem('resolveConflicts not applied to self.actions: %s' % u(val))
            stn = args[1] if len(args) == 2 else kws.get('state')
            if not (isinstance(stn, ast.Name) and env.names.get(stn.id) == ('res',)) or len(args) > 2 or set(kws) - {'state'}:
                raise Problem('resolveConflicts without the resolver state: %s' % u(val))
            if env.names.get(tgt.id, ('gen',)) != ('gen',):
                raise Problem('generator bound to a name of another kind')
            st2, g2 = e.new('st'), e.new('g')
            e.names[tgt.id] = ('gen',)
            text_st, text_g = st2, g2
            head = "let '(%s, %s) := restart %s %s in\n " % (st2, g2, env.st, env.actions)
            e.st, e.g = text_st, text_g
            e.lazy_gen = True
            return head + after(e)
        if isinstance(val, ast.Call) and u(val.func) == 'next':
            if not (len(val.args) == 2 and isinstance(val.args[0], ast.Name) and env.names.get(val.args[0].id) == ('gen',)
                    and u(val.args[1]) == 'None' and not val.keywords):
                raise Problem('next(..) outside the table: %s' % u(val))
            a, st2, g2, ev, o = e.new('a'), e.new('st'), e.new('g'), e.new('evs'), e.new('o')
            e_some = env.copy()
            e_some.names[tgt.id] = ('some', a)
            e_some.st, e_some.g, e_some.log, e_some.lazy_gen = st2, g2, app(env.log, ev), False
            e_none = env.copy()
            e_none.names[tgt.id] = ('none',)
            e_none.log, e_none.lazy_gen = app(env.log, ev), False
            return ('(match gen_next cfg %s %s with\n | SYield %s %s %s %s => %s\n | SStop %s %s _ =>\n   match %s with\n   | Done => %s\n   | _ => (%s, %s)\n   end\n end)'
                    % (env.st, env.g, a, st2, g2, ev, after(e_some), o, ev, o, after(e_none), o, app(env.log, ev)))
        fo = self.field_of(env, val)
        if fo:
            e.names[tgt.id] = ('field',) + tuple(fo)
            return after(e)
        raise Problem('assignment outside the table: %s' % u(s)[:100])

    def translate(self, fn):
        self.params = {a.arg for a in fn.args.args + fn.args.kwonlyargs}
        env = Env()
        body = self.block(strip_doc(list(fn.body)), env, lambda e: '(Done, %s)' % e.log)
        return ('Definition gen_execute_actions (cfg : params) (fuel0 : nat) (self_actions : list action) : outcome * list event :=\n'
                '  %s.\n' % body)


def translate_config_action(fn):
    """non-autocommit branch of ActionConfiguratorMixin.action: which expressions reach the modelled keys"""
    params = [a.arg for a in fn.args.args]
    subst = {}
    found = []

    def val_of(n):
        if isinstance(n, ast.Name) and n.id in subst:
            return subst[n.id]
        return u(n)

    def walk(stmts, auto_false):
        for s in stmts:
            if isinstance(s, ast.If):
                t = u(s.test)
                tv = val_of(s.test) if isinstance(s.test, ast.Name) else t
                if tv in ('self.autocommit', 'autocommit') and (isinstance(s.test, ast.Name) or t == 'self.autocommit'):
                    walk(s.orelse, auto_false)            # parameter autocommit := False
                elif tv in ('not self.autocommit', 'not autocommit'):
                    walk(s.body, auto_false)
                else:
                    for b in (s.body, s.orelse):
                        for x in b:
                            if isinstance(x, ast.Assign):
                                for tg in x.targets:
                                    if isinstance(tg, ast.Name) and tg.id in ('discriminator', 'order') :
                                        raise Problem('a modelled value is rebound conditionally: %s' % u(x))
                continue
            if isinstance(s, ast.Assign) and len(s.targets) == 1 and isinstance(s.targets[0], ast.Name):
                subst[s.targets[0].id] = val_of(s.value) if isinstance(s.value, ast.Name) else u(s.value)
                continue
            if isinstance(s, ast.Expr) and isinstance(s.value, ast.Call):
                c = s.value
                if isinstance(c.func, ast.Attribute) and c.func.attr == 'update' and len(c.args) == 1 \
                        and isinstance(c.args[0], ast.Call) and u(c.args[0].func) == 'dict':
                    found.append(('update', u(c.func.value), {k.arg: val_of(k.value) for k in c.args[0].keywords}))
                elif u(c.func) == 'self.action_state.action' and len(c.keywords) == 1 and c.keywords[0].arg is None and not c.args:
                    found.append(('call', u(c.keywords[0].value), None))
    walk(strip_doc(list(fn.body)), True)
    ups = [f for f in found if f[0] == 'update']
    calls = [f for f in found if f[0] == 'call']
    if len(ups) != 1 or len(calls) != 1 or ups[0][1] != calls[0][1]:
        raise Problem('ActionConfiguratorMixin.action: the dict handed to action_state.action is not recognised')
    kv = ups[0][2]
    want = {'discriminator': 'discriminator', 'order': 'order', 'includepath': 'self.includepath'}
    cols = {}
    for k, w in want.items():
        if k not in kv:
            raise Problem('ActionConfiguratorMixin.action: key %s missing' % k)
        cols[k] = kv[k]
    for p in ('discriminator', 'order'):
        if p not in params:
            raise Problem('ActionConfiguratorMixin.action: parameter %s missing' % p)
    names = {'discriminator': 'd', 'order': 'o', 'self.includepath': 'includepath'}
    args = []
    for k in ('discriminator', 'includepath', 'order'):
        if cols[k] not in names:
            raise Problem('ActionConfiguratorMixin.action: key %s receives %s' % (k, cols[k]))
        args.append(names[cols[k]])
    # types keep a swapped discriminator/order/includepath from type-checking; the theorem catches the rest
    return ('Definition gen_config_action (includepath : path) (i : N) (d : disc) (o : option Z) (adds : list action) : action :=\n'
            '  mkA i %s %s %s adds.\n' % tuple(args))


# ------------------------------------------------------------------ the entry doors (Model/C04_entry.v)
MODELLED = ('discriminator', 'includepath', 'order')


def _default_text(key, node):
    """the default of a modelled parameter as Gallina"""
    if key == 'order':
        if isinstance(node, ast.Constant) and node.value is None:
            return 'None'
        if isinstance(node, ast.Constant) and type(node.value) is int:
            return '(Some (%d)%%Z)' % node.value
        if isinstance(node, ast.UnaryOp) and isinstance(node.op, ast.USub) and isinstance(node.operand, ast.Constant) \
                and type(node.operand.value) is int:
            return '(Some (-%d)%%Z)' % node.operand.value
    if key == 'includepath' and isinstance(node, ast.Tuple) and not node.elts:
        return '[]'
    raise Problem('default of %s outside the table: %s' % (key, u(node)))


def _signature(fn, skip_self):
    """-> (positional parameter names, {name: default node})"""
    if fn.args.posonlyargs or fn.args.vararg or fn.args.kwonlyargs:
        raise Problem('%s: signature outside the subset' % fn.name)
    names = [a.arg for a in fn.args.args]
    dfl = dict(zip(names[len(names) - len(fn.args.defaults):], fn.args.defaults))
    if skip_self:
        if not names or names[0] != 'self':
            raise Problem('%s: first parameter is not self' % fn.name)
        names = names[1:]
    return names, dfl


def _dict_builder(fn, params, kwarg):
    """walks a straight-line body that builds ONE dict from the parameters.
    Statements: `if P is None: P = <empty literal>` for an unmodelled parameter P; `X = <name>` (renaming; X = the
    **kwarg name starts a dict holding only unmodelled keys); `X.update(dict(k=v, ..))`; `X = dict(k=v, ..)`;
    and exactly one SINK (`self.actions.append(X)` or `return X` / `return dict(..)`), which must come last.
    -> ({modelled key: parameter name}, sink kind)"""
    subst = {p: p for p in params}
    dicts = {}
    if kwarg:
        dicts[kwarg] = {}

    def name_of(n):
        if isinstance(n, ast.Name) and n.id in subst:
            return subst[n.id]
        raise Problem('%s: value outside the table: %s' % (fn.name, u(n)))

    def dict_call(c):
        if not (isinstance(c, ast.Call) and u(c.func) == 'dict' and not c.args and all(k.arg for k in c.keywords)):
            raise Problem('%s: not a dict(k=v, ..) literal: %s' % (fn.name, u(c)[:60]))
        out = {}
        for k in c.keywords:
            out[k.arg] = name_of(k.value) if k.arg in MODELLED else None
        return out
    body = strip_doc(list(fn.body))
    sink = None
    for idx, s in enumerate(body):
        if sink is not None:
            raise Problem('%s: statement after the sink: %s' % (fn.name, u(s)[:60]))
        if isinstance(s, ast.If) and not s.orelse and isinstance(s.test, ast.Compare) and len(s.test.ops) == 1 \
                and isinstance(s.test.ops[0], ast.Is) and u(s.test.comparators[0]) == 'None' \
                and isinstance(s.test.left, ast.Name) and s.test.left.id in params and s.test.left.id not in MODELLED \
                and len(s.body) == 1 and isinstance(s.body[0], ast.Assign) and u(s.body[0].targets[0]) == s.test.left.id \
                and u(s.body[0].value) in ('{}', '()', '[]', 'dict()'):
            continue
        if isinstance(s, ast.Assign) and len(s.targets) == 1 and isinstance(s.targets[0], ast.Name):
            t = s.targets[0].id
            if t in params and t in MODELLED:
                raise Problem('%s: a modelled parameter is rebound: %s' % (fn.name, u(s)))
            if isinstance(s.value, ast.Name) and s.value.id in dicts:
                dicts[t] = dicts[s.value.id]
                continue
            if isinstance(s.value, ast.Name) and s.value.id in subst:
                subst[t] = subst[s.value.id]
                continue
            if isinstance(s.value, ast.Call) and u(s.value.func) == 'dict':
                dicts[t] = dict_call(s.value)
                continue
            if isinstance(s.value, ast.Dict) and not s.value.keys:
                dicts[t] = {}
                continue
        if isinstance(s, ast.Expr) and isinstance(s.value, ast.Call) and isinstance(s.value.func, ast.Attribute):
            f, c = s.value.func, s.value
            if f.attr == 'update' and isinstance(f.value, ast.Name) and f.value.id in dicts and len(c.args) == 1 and not c.keywords:
                dicts[f.value.id].update(dict_call(c.args[0]))
                continue
            if f.attr == 'append' and u(f.value) == 'self.actions' and len(c.args) == 1 and not c.keywords \
                    and isinstance(c.args[0], ast.Name) and c.args[0].id in dicts:
                sink = ('append', dicts[c.args[0].id])
                continue
        if isinstance(s, ast.Return) and s.value is not None:
            if isinstance(s.value, ast.Name) and s.value.id in dicts:
                sink = ('return', dicts[s.value.id])
                continue
            if isinstance(s.value, ast.Call):
                sink = ('return', dict_call(s.value))
                continue
        raise Problem('%s: statement outside the subset: %s' % (fn.name, u(s)[:80]))
    if sink is None:
        raise Problem('%s: no sink (self.actions.append(..) / return of the dict)' % fn.name)
    kind, d = sink
    for k in MODELLED:
        if d.get(k) is None:
            raise Problem('%s: key %s missing from the dict' % (fn.name, k))
        if d[k] != k:
            raise Problem('%s: key %s receives the parameter %s' % (fn.name, k, d[k]))
    for k in ('callable', 'args', 'kw', 'info'):
        if k not in d:
            raise Problem('%s: key %s missing from the dict' % (fn.name, k))
    return d, kind


def translate_state_action(fn):
    params, dfl = _signature(fn, True)
    kwarg = fn.args.kwarg.arg if fn.args.kwarg else None
    for k in MODELLED:
        if k not in params:
            raise Problem('ActionState.action: parameter %s missing' % k)
    d, kind = _dict_builder(fn, params, kwarg)
    if kind != 'append':
        raise Problem('ActionState.action: the dict is not appended to self.actions')
    if 'discriminator' in dfl:
        raise Problem('ActionState.action: discriminator has a default')
    return ('Definition gen_state_action (self_actions : list action) (i : N) (discriminator : disc) (order : option Z) '
            '(includepath : path) (adds : list action) : list action :=\n'
            '  self_actions ++ [mkA i %s %s %s adds].\n'
            'Definition gen_state_action_default_order : option Z := %s.\n'
            'Definition gen_state_action_default_includepath : path := %s.\n'
            % (d['discriminator'], d['includepath'], d['order'], _default_text('order', dfl['order']) if 'order' in dfl else 'None',
               _default_text('includepath', dfl['includepath']) if 'includepath' in dfl else '[]'))


def translate_expand(fn):
    params, dfl = _signature(fn, False)
    if fn.args.kwarg:
        raise Problem('expand_action_tuple takes **kw')
    for k in MODELLED:
        if k not in params:
            raise Problem('expand_action_tuple: parameter %s missing' % k)
    d, kind = _dict_builder(fn, params, None)
    if kind != 'return':
        raise Problem('expand_action_tuple: the dict is not returned')
    if 'discriminator' in dfl:
        raise Problem('expand_action_tuple: discriminator has a default')
    if 'order' not in dfl or 'includepath' not in dfl:
        raise Problem('expand_action_tuple: order / includepath lost their default')
    return ('Definition gen_expand_action_tuple (i : N) (adds : list action) (t : list tfield) : option action :=\n'
            '  match as_disc (nth_error t %d), as_path %s (nth_error t %d), as_ord %s (nth_error t %d) with\n'
            '  | Some discriminator, Some includepath, Some order =>\n'
            '      if Nat.leb (length t) %d then Some (mkA i %s %s %s adds) else None\n'
            '  | _, _, _ => None\n  end.\n'
            % (params.index('discriminator'), _default_text('includepath', dfl['includepath']), params.index('includepath'),
               _default_text('order', dfl['order']), params.index('order'), len(params),
               d['discriminator'], d['includepath'], d['order']))


def translate_normalize(fn):
    """result = []; for v in <param>: [v = expand_action_tuple(*v) unless v is a dict]; result.append(v); return result"""
    params, _ = _signature(fn, False)
    if len(params) != 1:
        raise Problem('normalize_actions: one parameter expected')
    body = strip_doc(list(fn.body))
    if len(body) != 3:
        raise Problem('normalize_actions: body outside the subset')
    init, loop, ret = body
    if not (isinstance(init, ast.Assign) and len(init.targets) == 1 and isinstance(init.targets[0], ast.Name)
            and u(init.value) in ('[]', 'list()')):
        raise Problem('normalize_actions: no accumulator')
    acc = init.targets[0].id
    if not (isinstance(ret, ast.Return) and u(ret.value) == acc):
        raise Problem('normalize_actions: the accumulator is not returned')
    if not (isinstance(loop, ast.For) and not loop.orelse and isinstance(loop.target, ast.Name) and u(loop.iter) == params[0]):
        raise Problem('normalize_actions: no loop over the parameter')
    v = loop.target.id
    lb = list(loop.body)
    if len(lb) != 2 or u(lb[1]) != '%s.append(%s)' % (acc, v):
        raise Problem('normalize_actions: loop body outside the subset')
    cond = lb[0]
    if not isinstance(cond, ast.If):
        raise Problem('normalize_actions: no isinstance test')
    t, neg = cond.test, False
    if isinstance(t, ast.UnaryOp) and isinstance(t.op, ast.Not):
        t, neg = t.operand, True
    if u(t) != 'isinstance(%s, dict)' % v:
        raise Problem('normalize_actions: test outside the table: %s' % u(cond.test))
    tup_branch, dict_branch = (cond.body, cond.orelse) if neg else (cond.orelse, cond.body)
    if [u(x) for x in tup_branch] != ['%s = expand_action_tuple(*%s)' % (v, v)]:
        raise Problem('normalize_actions: tuple branch outside the table')
    if not all(isinstance(x, ast.Pass) for x in dict_branch):
        raise Problem('normalize_actions: dict branch does something')
    return ('Definition gen_normalize_actions (actions : list raw) : option (list action) :=\n'
            '  (fix loop (vs : list raw) (result : list action) {struct vs} : option (list action) :=\n'
            '     match vs with\n     | [] => Some result\n'
            '     | RDict v :: vs\' => loop vs\' (result ++ [v])\n'
            '     | RTuple i adds t :: vs\' =>\n'
            '         match gen_expand_action_tuple i adds t with Some v => loop vs\' (result ++ [v]) | None => None end\n'
            '     end) actions [].\n')


def translate_crs_init(fn):
    """ConflictResolverState.__init__: four attribute initialisations, any order"""
    params, _ = _signature(fn, True)
    if params or fn.args.kwarg:
        raise Problem('ConflictResolverState.__init__ takes parameters')
    vals = {}
    for s in strip_doc(list(fn.body)):
        if not (isinstance(s, ast.Assign) and len(s.targets) == 1 and isinstance(s.targets[0], ast.Attribute)
                and u(s.targets[0].value) == 'self'):
            raise Problem('ConflictResolverState.__init__: statement outside the subset: %s' % u(s)[:60])
        a, v = s.targets[0].attr, u(s.value)
        if a in vals:
            raise Problem('ConflictResolverState.__init__: %s assigned twice' % a)
        if a == 'resolved_ainfos' and v in ('{}', 'dict()'):
            vals[a] = '[]'
        elif a == 'remaining_actions' and v in ('[]', 'list()'):
            vals[a] = '[]'
        elif a == 'min_order' and v == 'None':
            vals[a] = 'None'
        elif a == 'min_order' and isinstance(s.value, ast.Constant) and type(s.value.value) is int:
            vals[a] = '(Some (%d)%%Z)' % s.value.value
        elif a == 'start' and isinstance(s.value, ast.Constant) and type(s.value.value) is int and s.value.value >= 0:
            vals[a] = '%d%%N' % s.value.value
        else:
            raise Problem('ConflictResolverState.__init__: %s = %s outside the table' % (a, v))
    for a in ('resolved_ainfos', 'remaining_actions', 'min_order', 'start'):
        if a not in vals:
            raise Problem('ConflictResolverState.__init__: %s not initialised' % a)
    return ('Definition gen_cstate0 : cstate :=\n  {| resolved := %s; remaining := %s; min_order := %s; start := %s |}.\n'
            % (vals['resolved_ainfos'], vals['remaining_actions'], vals['min_order'], vals['start']))


HEADER = '''(* GENERATED by harness/c04/translate.py from src/pyramid/config/actions.py on every run -- do not edit. *)
From Coq Require Import List NArith ZArith Bool.
Import ListNotations.
Require Import Verif.Lib.Wire Verif.Model.C04 Verif.Model.C04_entry.

'''


def translate_tree(src_root):
    """-> (text of Gen/Exec_C04.v, problems, summary)"""
    problems, parts, summary = [], {}, {}
    with open(os.path.join(HERE, 'gen_fallback.json')) as f:
        fallback = json.load(f)
    try:
        with open(os.path.join(src_root, 'pyramid/config/actions.py')) as f:
            tree = ast.parse(f.read())
        cls = {n.name: n for n in tree.body if isinstance(n, ast.ClassDef)}
        top = {n.name: n for n in tree.body if isinstance(n, ast.FunctionDef)}
        fns = {}
        for cn, mn, key in (('ActionState', 'execute_actions', 'execute_actions'), ('ActionConfiguratorMixin', 'action', 'action'),
                            ('ActionState', 'action', 'state_action'), ('ConflictResolverState', '__init__', 'crs_init')):
            m = [x for x in cls[cn].body if isinstance(x, ast.FunctionDef) and x.name == mn]
            if len(m) != 1:
                raise Problem('%s.%s not found' % (cn, mn))
            fns[key] = m[0]
        for fnname in ('expand_action_tuple', 'normalize_actions'):
            if fnname not in top:
                raise Problem('%s not found' % fnname)
            fns[fnname] = top[fnname]
    except Exception as e:
        problems.append('translator: cannot read the source: %r' % (e,))
        fns = {}
    order = (('gen_execute_actions', lambda: ExecTranslator().translate(fns['execute_actions'])),
             ('gen_config_action', lambda: translate_config_action(fns['action'])),
             ('gen_state_action', lambda: translate_state_action(fns['state_action'])),
             ('gen_expand_action_tuple', lambda: translate_expand(fns['expand_action_tuple'])),
             ('gen_normalize_actions', lambda: translate_normalize(fns['normalize_actions'])),
             ('gen_cstate0', lambda: translate_crs_init(fns['crs_init'])))
    for key, fn in order:
        try:
            parts[key] = fn()
            summary['translated:' + key] = 'ok'
        except Problem as e:
            problems.append('translator (%s): %s' % (key, e))
            parts[key] = fallback[key]
            summary['translated:' + key] = 'FALLBACK'
        except Exception as e:
            problems.append('translator (%s) failed: %r' % (key, e))
            parts[key] = fallback[key]
            summary['translated:' + key] = 'FALLBACK'
    return HEADER + '\n'.join(parts[k] for k, _ in order), problems, summary
