"""C04 -- commit resolves configuration conflicts by include depth, or reports them."""
import ast
import itertools
import os
import re

from harness.common import facts as F
from harness.common import build as _build
from harness.c04 import translate

ID = 'C04'
HERE = os.path.dirname(os.path.abspath(__file__))
CASES = {'quick': 12000, 'thorough': 300000}
PARALLEL = True
PROOF_TIMEOUT = 1500
RULE = ('random action programs: include tree <= 6 nodes (names also textually related: one name extending another, elements containing / : , or space), <= 12 actions incl. re-entrantly declared ones (depth <= 2), '
        'histories of up to 3 commits on ONE ActionState/Configurator; repeated (equal) plain-None declarations; callables of 8 kinds '
        '(closure, falsy callable list / __bool__ False / __len__ 0 objects, partial, bound method, no callable, raising) receiving args/kw they check; '
        'in direct mode declared through ActionState.action (with and without its defaults), old-style tuples of 6/7/8 positions or ready-made dicts '
        'appended to ActionState.actions; <= 4 discriminators (truthy tuples or the falsy hashables (), frozenset(), 0, \'\') + None + Deferred, phases from {-30,-20,-10,0,5} (+ order=None, also mixed with order 0 inside the default phase; judged against spec_exec), declared either '
        'directly on ActionState or through real nested Configurator.include configurators, executed with '
        'execute_actions()/commit(); plus resolveConflicts() driven directly on a fresh ConflictResolverState; '
        'non-trivial = at least two actions share a non-None discriminator (so the conflict machinery decides '
        'something); distinct by full case')
ASSUMPTIONS = ['a commit in which a callable raises is outside the property: only the correspondence (the plain run cut after the raising '
               'callable started, theorem C04_raising_callable_cuts_the_run) is compared there',
               'an action without a callable is executed like any other; its (unobservable) Run event is removed from the model and specification logs',
               'action dicts are pairwise unequal, EXCEPT repeated declarations of a None-discriminated action (equal dicts: modelled as '
               'the same action value twice; list.remove removes the first equal one); the theorems that need distinct '
               'identities (wf_ids) do not cover repetitions, the comparison with the specification does',
               'action callables touch the action state only by declaring further actions; for the property theorems they do not raise',
               "order is an int for the theorems and the flat specification (order=None is modelled: 'order or 0', min_order = None, and compared with spec_exec)",
               'discriminators are compared by ==/hash; a Deferred is private to its action and its function is pure',
               'include specs are distinct (ActionState.processSpec de-duplication is not modelled)']
TRUSTED = ['hand-written model coq/Model/C04.v of resolveConflicts and undefer/Deferred (shape-pinned + piecewise facts, validated by correspondence)',
           'harness/c04/translate.py: fail-closed ast -> Gallina translator of ActionState.execute_actions, '
           'ActionConfiguratorMixin.action (control flow mechanical; 14-line primitive table in its docstring), ActionState.action, '
           'expand_action_tuple, normalize_actions, ConflictResolverState.__init__ (straight-line dict builders, positions and defaults '
           'from the signatures; the tuple model tells only the three modelled positions apart)',
           'Python sorted/list.sort/itertools.groupby/enumerate/dict ordering modelled by coq/Lib/C04Sort.v and insertion-ordered lists',
           'Configurator.include modelled only by its includepath expression (regenerated fact); the rest of include() is exercised, not modelled']
TECHNIQUE = ('Coq proof (induction over phases / generator steps) on a hand-written Gallina model + regenerated facts + '
             'control flow of execute_actions / Configurator.action and the entry doors (ActionState.action, expand_action_tuple, '
             'normalize_actions, ConflictResolverState.__init__) regenerated from the source with generated = model '
             'theorems + extracted-model differential correspondence')
LEVEL_TEXT = ('Histories of commits on one object, repeated equal declarations, falsy / absent callables and every door into '
              'ActionState.actions (method, tuples, dicts) are part of the compared input space. Run-level theorems for re-entrant commits: '
              'phase monotonicity, one action per discriminator, None-discriminated actions all run once, a late addition is refused '
              '(C04_late_addition_refused), a refusal names the phase of the last executed action, at every step the action handed out is '
              'the first pending action of the smallest pending phase (C04_run_first_pending), a raising callable cuts the run '
              '(C04_raising_callable_cuts_the_run); per group pass the conflict keys equal the specification\'s contested set in any resolver state '
              '(C04_group_conflicts_are_spec_contested) and the discard step is an order-preserving filter; after a (re-)declaration every order group is the specification\'s at_phase of the pool, '
              'forces what the specification forces and the first group is the smallest pending phase (C04_restart_group_is_spec_phase); the full equality with spec_exec '
              'for re-entrant programs is compared on every case, not proved. '
              'Machine-checked theorems about an executable model of execute_actions/resolveConflicts that follows the '
              'code statement by statement (generator suspension included); the declarative commit specification is a '
              'Gallina function returned next to the model output and compared with the real implementation on every case.')
LEVEL_NOTE = ('Trusted: Coq kernel; hand-written model (validated by correspondence; resolveConflicts & co shape-pinned, '
              'execute_actions, ActionConfiguratorMixin.action, ActionState.action, expand_action_tuple, normalize_actions and '
              'ConflictResolverState.__init__ translated on every run and proved equal to the model); '
              'translator primitive table; Python harness. '
              'See harness/c04/NOTES.md for which theorems are proved and which are TODO (unproved).')

MOD = 'harness.c04.prop'
PHASES = [-30, -20, -10, 0, 5]

PIN_SPEC = {
    # ActionState.execute_actions and ActionConfiguratorMixin.action are TRANSLATED (harness/c04/translate.py), not pinned
    # ... and so are ActionState.action, expand_action_tuple, normalize_actions, ConflictResolverState.__init__
    'pyramid/config/actions.py': ['ActionState.__init__', 'ActionState.processSpec',
                                  'ActionConfiguratorMixin._get_action_state', 'ActionConfiguratorMixin._set_action_state',
                                  'resolveConflicts', 'ActionConfiguratorMixin.commit'],
    'pyramid/config/__init__.py': ['Configurator.include'],
    'pyramid/registry.py': ['Deferred', 'undefer'],
    'pyramid/exceptions.py': ['ConfigurationConflictError.__init__'],
}


# ------------------------------------------------------------------ facts
def _parents(tree):
    par = {}
    for n in ast.walk(tree):
        for ch in ast.iter_child_nodes(n):
            par[ch] = n
    return par


def _u(n):
    return ast.unparse(n)


DISJ = {'includepath[:len(basepath)] != basepath': 1, 'includepath == basepath': 2}
KEYS = {"v['order'] or 0": 1, 'n': 2, 'path': 3, 'order': 4, 'i': 5}
CMPS = {ast.Lt: 0, ast.LtE: 1, ast.Gt: 2, ast.GtE: 3, ast.Eq: 4, ast.NotEq: 5}
OLD_PREV = ("_, paction = prev_ainfo\nbasepath, baseinfo = (paction['includepath'], paction['info'])\n"
            "includepath = action['includepath']\n"
            "if includepath[:len(basepath)] != basepath or includepath == basepath:\n"
            "    L = conflicts.setdefault(discriminator, [baseinfo])\n    L.append(action['info'])")
NEW_PREV = "_, action = prev_ainfo\nrest = ainfos"


def _disjuncts(test, problems, where):
    parts = test.values if isinstance(test, ast.BoolOp) and isinstance(test.op, ast.Or) else [test]
    out = []
    for p in parts:
        c = DISJ.get(_u(p))
        if c is None:
            problems.append('conflict test (%s): unrecognised disjunct %r' % (where, _u(p)))
            return None
        out.append(c)
    return out


def _key_tuple(fn, problems):
    ret = [s for s in fn.body if isinstance(s, ast.Return)]
    if len(ret) != 1:
        problems.append('sort key %s: no single return' % fn.name)
        return None
    v = ret[0].value
    elts = v.elts if isinstance(v, ast.Tuple) else [v]
    out = []
    for e in elts:
        c = KEYS.get(_u(e))
        if c is None:
            problems.append('sort key %s: unrecognised component %r' % (fn.name, _u(e)))
            return None
        out.append(c)
    return out


def facts(src):
    problems = []
    summary = F.check_shapes(src, os.path.join(HERE, 'pins.json'), problems)
    d = {'conflict_test': [1, 2], 'orderandpos_key': [1, 2], 'orderonly_key': [1], 'bypath_key': [3, 4, 5],
         'output_key': [5], 'min_order_cmp': 0, 'remaining_mutations': [1, 2, 3], 'prev_branch': 1,
         'include_path': 1, 'phase_values': [-30, -20, -10, 0]}
    try:
        m = F.Module(src, 'pyramid/config/actions.py')
        rc = m.find('resolveConflicts')
        par = _parents(rc)
        # --- the override test(s)
        tests = []
        for n in ast.walk(rc):
            if isinstance(n, ast.If) and 'includepath' in _u(n.test) and 'basepath' in _u(n.test):
                tests.append(n)
        if not tests:
            problems.append('conflict test: no `if` over includepath/basepath found in resolveConflicts')
        else:
            ds = [_disjuncts(t.test, problems, 'if #%d' % k) for k, t in enumerate(tests)]
            if all(x is not None for x in ds):
                if any(x != ds[-1] for x in ds):
                    problems.append('conflict test: the tests differ from each other: %r' % ds)
                d['conflict_test'] = ds[-1]
            for t in tests:
                body = '\n'.join(_u(s) for s in t.body)
                if body != "L = conflicts.setdefault(discriminator, [baseinfo])\nL.append(action['info'])":
                    problems.append('conflict test: unexpected body %r' % body)
        # --- sort keys
        for name, key in (('orderandpos', 'orderandpos_key'), ('orderonly', 'orderonly_key'), ('bypath', 'bypath_key')):
            fn = m.find('resolveConflicts.' + name)
            if fn is None:
                problems.append('sort key function %s missing' % name)
                continue
            k = _key_tuple(fn, problems)
            if k is not None:
                d[key] = k
            pre = '\n'.join(_u(s) for s in fn.body if not isinstance(s, ast.Return))
            want = {'orderandpos': 'n, v = v', 'orderonly': 'n, v = v',
                    'bypath': "path, i = (ainfo[1]['includepath'], ainfo[0])"}[name]
            if pre != want:
                problems.append('sort key %s: unexpected prologue %r' % (name, pre))
        txt = _u(rc)
        for needle in ('sactions = sorted(enumerate(actions, start=state.start), key=orderandpos)',
                       'for order, actiongroup in itertools.groupby(sactions, orderonly):',
                       'ainfos.sort(key=bypath)', 'ainfo, rest = (ainfos[0], ainfos[1:])',
                       'for i, action in sorted(output, key=operator.itemgetter(0)):',
                       'prev_ainfo = state.resolved_ainfos.get(discriminator)',
                       'if discriminator is None:',
                       "discriminator = undefer(action['discriminator'])",
                       'actions = state.remaining_actions'):
            if needle not in txt:
                problems.append('resolveConflicts: expected statement not found: %r' % needle)
        # --- min_order comparison
        mo = [n for n in ast.walk(rc) if isinstance(n, ast.If) and 'min_order' in _u(n.test)]
        ok = False
        if len(mo) == 1 and isinstance(mo[0].test, ast.BoolOp) and isinstance(mo[0].test.op, ast.And) \
                and len(mo[0].test.values) == 2 and _u(mo[0].test.values[0]) == 'state.min_order is not None':
            c = mo[0].test.values[1]
            if isinstance(c, ast.Compare) and len(c.ops) == 1 and _u(c.left) == 'order' \
                    and _u(c.comparators[0]) == 'state.min_order' and type(c.ops[0]) in CMPS:
                d['min_order_cmp'] = CMPS[type(c.ops[0])]
                ok = True
        if not ok:
            problems.append('min_order test: unrecognised shape')
        # --- mutations of remaining_actions
        muts = []
        for n in ast.walk(rc):
            if isinstance(n, ast.Call) and isinstance(n.func, ast.Attribute) \
                    and _u(n.func.value) == 'state.remaining_actions':
                encl = []
                p = n
                while p in par:
                    p = par[p]
                    if isinstance(p, ast.For):
                        encl.append(_u(p.iter))
                if n.func.attr == 'extend' and _u(n.args[0]) == 'normalize_actions(actions)' and not encl:
                    muts.append((n.lineno, 1))
                elif n.func.attr == 'remove' and _u(n.args[0]) == 'action' and encl[:2] == ['ainfos', 'unique.values()']:
                    cond = par[par[n]]
                    if isinstance(cond, ast.If) and _u(cond.test) == 'id(action) not in resolved':
                        muts.append((n.lineno, 2))
                    else:
                        problems.append('remaining_actions.remove in the unique loop: unexpected guard')
                elif n.func.attr == 'remove' and _u(n.args[0]) == 'action' and encl \
                        and encl[0] == 'sorted(output, key=operator.itemgetter(0))':
                    muts.append((n.lineno, 3))
                else:
                    problems.append('remaining_actions mutated in an unrecognised way: %s' % _u(n))
        d['remaining_mutations'] = [c for _, c in sorted(muts)]
        if 2 in d['remaining_mutations'] and "resolved = {id(action) for _, action in output}" not in txt:
            problems.append('discard loop: the resolved id set has another shape')
        # --- the branch taken when the discriminator was already executed
        pb = [n for n in ast.walk(rc) if isinstance(n, ast.If) and _u(n.test) == 'prev_ainfo is not None']
        if len(pb) == 1:
            body = '\n'.join(_u(s) for s in pb[0].body)
            orelse = '\n'.join(_u(s) for s in pb[0].orelse)
            if orelse != 'output.append(ainfo)':
                problems.append('prev_ainfo branch: unexpected else %r' % orelse)
            if body == NEW_PREV:
                d['prev_branch'] = 1
            elif body == OLD_PREV:
                d['prev_branch'] = 0
            else:
                problems.append('prev_ainfo branch: unrecognised body')
        else:
            problems.append('prev_ainfo branch not found')
        # --- yield loop
        yl = [n for n in ast.walk(rc) if isinstance(n, ast.For) and _u(n.iter) == 'sorted(output, key=operator.itemgetter(0))']
        want = ("state.min_order = action['order']\nstate.start = i + 1\nstate.remaining_actions.remove(action)\n"
                "state.resolved_ainfos[action['discriminator']] = (i, action)\nyield action")
        if len(yl) != 1 or '\n'.join(_u(s) for s in yl[0].body) != want:
            problems.append('yield loop: unexpected body')
    except Exception as e:
        problems.append('actions.py facts: %r' % (e,))
    try:
        m = F.Module(src, 'pyramid/config/__init__.py')
        inc = m.find('Configurator.include')
        vals = [_u(n.value) for n in ast.walk(inc) if isinstance(n, ast.Assign) and _u(n.targets[0]) == 'configurator.includepath']
        if vals == ['self.includepath + (spec,)']:
            d['include_path'] = 1
        elif vals == ['(spec,) + self.includepath']:
            d['include_path'] = 2
        else:
            problems.append('Configurator.include: includepath assignment unrecognised: %r' % vals)
        sp = [_u(n.value) for n in ast.walk(inc) if isinstance(n, ast.Assign) and _u(n.targets[0]) == 'spec']
        if sp != ["module.__name__ + ':' + c.__name__"]:
            problems.append('Configurator.include: spec expression unrecognised: %r' % sp)
    except Exception as e:
        problems.append('include facts: %r' % (e,))
    try:
        # class-level wiring the model relies on (coverage audit)
        ma = F.Module(src, 'pyramid/config/actions.py')
        mixin = [n for n in ma.tree.body if isinstance(n, ast.ClassDef) and n.name == 'ActionConfiguratorMixin'][0]
        props = [_u(n) for n in mixin.body if isinstance(n, ast.Assign)]
        if 'action_state = property(_get_action_state, _set_action_state)' not in props:
            problems.append('ActionConfiguratorMixin: action_state is no longer property(_get_action_state, _set_action_state)')
        decos = {n.name: [_u(x) for x in n.decorator_list] for n in mixin.body if isinstance(n, ast.FunctionDef)}
        if decos.get('action') or decos.get('commit'):
            problems.append('ActionConfiguratorMixin.action/commit gained a decorator: %r' % decos)
        mc = F.Module(src, 'pyramid/config/__init__.py')
        conf = [n for n in mc.tree.body if isinstance(n, ast.ClassDef) and n.name == 'Configurator'][0]
        if 'includepath = ()' not in [_u(n) for n in conf.body if isinstance(n, ast.Assign)]:
            problems.append('Configurator: the class-level root includepath is no longer ()')
        if 'ActionConfiguratorMixin' not in [_u(b) for b in conf.bases]:
            problems.append('Configurator no longer derives from ActionConfiguratorMixin')
        init = mc.find('Configurator.__init__')
        defaults = dict(zip([a.arg for a in init.args.args][-len(init.args.defaults):], [_u(x) for x in init.args.defaults]))
        if defaults.get('autocommit') != 'False':
            problems.append('Configurator.__init__: autocommit no longer defaults to False')
        ini = [_u(n) for n in ast.walk(init) if isinstance(n, ast.Assign)]
        if 'self.autocommit = autocommit' not in ini:
            problems.append('Configurator.__init__: self.autocommit = autocommit not found')
        if any(x.startswith('self.includepath') for x in ini):
            problems.append('Configurator.__init__ assigns self.includepath')
        wp = mc.find('Configurator.with_package')
        if [_u(n.value) for n in ast.walk(wp) if isinstance(n, ast.Assign) and _u(n.targets[0]) == 'configurator.includepath'] != ['self.includepath']:
            problems.append('Configurator.with_package: the copy no longer keeps self.includepath')
        incdec = [_u(x) for x in mc.find('Configurator.include').decorator_list]
        if incdec:
            problems.append('Configurator.include gained a decorator: %r' % incdec)
        # no state shared between instances or kept across calls: no class-level attribute on the state classes, only
        # immutable defaults in the modelled functions
        for cn in ('ActionState', 'ConflictResolverState'):
            cd = [n for n in ma.tree.body if isinstance(n, ast.ClassDef) and n.name == cn][0]
            extra = [_u(n)[:60] for n in cd.body if not isinstance(n, (ast.FunctionDef, ast.Expr, ast.Pass))]
            if extra or cd.decorator_list or cd.bases:
                problems.append('class %s has class-level state, bases or decorators: %r' % (cn, extra))
        for qn in ('ActionState.action', 'ActionState.execute_actions', 'resolveConflicts', 'normalize_actions',
                   'expand_action_tuple', 'ActionConfiguratorMixin.action'):
            fn = ma.find(qn)
            for dflt in list(fn.args.defaults) + [x for x in fn.args.kw_defaults if x is not None]:
                if not (isinstance(dflt, ast.Constant) or (isinstance(dflt, ast.Tuple) and not dflt.elts)):
                    problems.append('%s has a mutable or computed default argument: %s' % (qn, _u(dflt)))
            if fn.decorator_list:
                problems.append('%s gained a decorator' % qn)
        rebinds = [_u(n)[:60] for n in ma.tree.body if isinstance(n, (ast.Assign, ast.AugAssign))]
        if rebinds:
            problems.append('pyramid/config/actions.py rebinds names at module level: %r' % rebinds)
        me = F.Module(src, 'pyramid/exceptions.py')
        cce = [n for n in me.tree.body if isinstance(n, ast.ClassDef) and n.name == 'ConfigurationConflictError'][0]
        if [_u(b) for b in cce.bases] != ['ConfigurationError']:
            problems.append('ConfigurationConflictError bases changed')
    except Exception as e:
        problems.append('class-level facts: %r' % (e,))
    try:
        mi = F.Module(src, 'pyramid/interfaces.py')
        d['phase_values'] = [int(mi.const('PHASE%d_CONFIG' % k)) for k in range(4)]
    except Exception as e:
        problems.append('phase constants: %r' % (e,))

    def nl(l):
        return '[' + '; '.join('%d' % x for x in l) + ']%N'

    coq = F.HEADER
    for k in ('conflict_test', 'orderandpos_key', 'orderonly_key', 'bypath_key', 'output_key', 'remaining_mutations'):
        coq += 'Definition %s : list N := %s.\n' % (k, nl(d[k]))
    for k in ('min_order_cmp', 'prev_branch', 'include_path'):
        coq += 'Definition %s : N := %d%%N.\n' % (k, d[k])
    coq += 'Definition phase_values : list Z := [%s]%%Z.\n' % '; '.join('(%d)' % z for z in d['phase_values'])
    summary.update(d)
    # control flow of execute_actions / ActionConfiguratorMixin.action regenerated from the source; it needs the
    # model's primitives, so it lives in a second generated file that imports Model/C04.v
    gen, tproblems, tsummary = translate.translate_tree(src)
    problems += tproblems
    summary.update(tsummary)
    _build.write_if_changed(os.path.join(_build.COQ, 'Gen', 'Exec_C04.v'), gen)
    return {'coq': coq, 'summary': summary, 'problems': problems}


# ------------------------------------------------------------------ generation
def _descendants(nodes, w):
    """node indexes (0 = root) whose chain passes through w (w included)."""
    out = [w]
    for k, (p, _) in enumerate(nodes, start=1):
        if p in out:
            out.append(k)
    return out


def gen_case(rng, small=False):
    mode = rng.choice(['direct', 'include'])
    nn = rng.choice([0, 1, 2, 2, 3, 3, 4, 5] if not small else [0, 1, 2])
    nodes = []
    for k in range(1, nn + 1):
        parent = rng.randrange(0, k)
        spec = 's%d' % k if mode == 'include' or rng.random() < 0.7 else rng.choice(['a', 'b', 's1'])
        nodes.append([parent, spec])
    # include names that are TEXTUALLY related although the chains are not: a sibling's name extended by a character
    # (s1 / s1x, api / api_v2), and -- in direct mode, where chains are arbitrary tuples of strings -- an element that
    # contains the characters a maintainer might join chains with ('a/b' vs the chain a, b; 'a:b'; 'a b')
    if nn >= 2 and rng.random() < 0.35:
        k = rng.randrange(0, nn)
        j = rng.choice([x for x in range(nn) if x != k])
        cand = nodes[j][1] + rng.choice(['x', '0', '2', '_v2'] if mode == 'direct' else ['x', '0', '2'])
        if cand not in [sp for _, sp in nodes]:
            nodes[k][1] = cand
    if mode == 'direct' and nn >= 2 and rng.random() < 0.2:
        k = rng.randrange(0, nn)
        others = [sp for i, (_, sp) in enumerate(nodes) if i != k]
        cand = rng.choice(others) + rng.choice(['/', ':', ' ', ',']) + rng.choice(others)
        if len(cand) <= 12:
            nodes[k][1] = cand
    ndisc = rng.choice([1, 1, 2, 2, 3, 4])
    palette = rng.sample(PHASES, rng.choice([1, 1, 2, 2, 3]))
    structured = rng.random() < 0.75
    owner = {d: rng.choice([0, 0, rng.randrange(0, nn + 1)]) for d in range(1, ndisc + 1)}
    used = set()
    counter = [0]
    budget = [rng.choice([1, 2, 3, 4, 5, 6, 8, 10, 12] if not small else [1, 2, 3, 4])]

    def mk(depth, minphase):
        i = counter[0]
        counter[0] += 1
        budget[0] -= 1
        r = rng.random()
        if r < 0.2:
            dv = None
        else:
            dv = rng.randrange(1, ndisc + 1)
        kind = 1 if rng.random() < 0.15 else 0
        if kind == 1 and rng.random() < 0.35:
            dv = None                                  # a Deferred whose function returns None
        if dv is not None and structured and rng.random() < 0.9:
            desc = _descendants(nodes, owner[dv])
            if dv in used or len(desc) == 1:
                node = rng.choice(desc[1:]) if len(desc) > 1 else rng.randrange(0, nn + 1)
            else:
                node = owner[dv]
            used.add(dv)
        else:
            node = rng.randrange(0, nn + 1)
        order = rng.choice(palette)
        if depth > 0:
            r2 = rng.random()
            if r2 < 0.12:
                earlier = [p for p in PHASES if p < minphase]
                order = rng.choice(earlier) if earlier else order
            elif r2 < 0.85:
                order = rng.choice([p for p in PHASES if p >= minphase])
        if rng.random() < 0.01:
            order = None
        adds = []
        if depth < 2 and budget[0] > 0 and rng.random() < (0.25 if depth == 0 else 0.15):
            for _ in range(rng.choice([1, 1, 2])):
                if budget[0] > 0:
                    adds.append(mk(depth + 1, order if order is not None else 0))
        a = {'id': i, 'disc': [kind, dv], 'node': node, 'order': order, 'adds': adds}
        # what KIND of object the callable is (falsy callable collections/objects, partial, bound method, no callable at
        # all) and, in direct mode, through which door the action enters ActionState.actions (method, old-style tuple
        # of several lengths, ready-made dict)
        if rng.random() < 0.3:
            ck = rng.choice([1, 1, 2, 3, 4, 5, 6, 7])
            if ck != 6 or not adds:
                a['ck'] = ck
        if mode == 'direct' and rng.random() < 0.25:
            a['tf'] = rng.choice([1, 2, 3, 4])
        return a

    acts = []
    while budget[0] > 0:
        acts.append(mk(0, -30))
    if rng.random() < 0.03:
        acts = []
    # order=None MIXED with order 0 inside the default phase (both mean phase 0): half of the phase-0 actions say None
    if rng.random() < 0.08:
        def mix(l):
            for a in l:
                if a['order'] == 0 and rng.random() < 0.5:
                    a['order'] = None
                mix(a['adds'])
        mix(acts)
    case = {'mode': mode, 'nodes': nodes, 'actions': acts}
    if rng.random() < 0.3:
        kinds_ = ['tuple', 'frozenset'] if mode == 'include' else ['tuple', 'frozenset', 'zero', 'empty']
        rng.shuffle(kinds_)
        ds = list(range(1, ndisc + 1))
        rng.shuffle(ds)
        n = rng.choice([1, 1, 2, ndisc])
        case['falsy'] = sorted([d, k] for d, k in zip(ds[:n], kinds_))
    # a HISTORY on one ActionState / Configurator: further rounds of declarations, each followed by a commit
    if rng.random() < 0.25:
        rounds = []
        for _ in range(rng.choice([1, 1, 2])):
            budget[0] = rng.choice([1, 2, 2, 3, 4])
            r = []
            while budget[0] > 0:
                r.append(mk(0, -30))
            rounds.append(r)
        case['rounds'] = rounds
    # a REPEATED declaration: the same plain-None action (same callable, args, info, chain, phase) declared again
    if rng.random() < 0.2:
        import copy
        lists = []

        def collect(l):
            lists.append(l)
            for a in l:
                collect(a['adds'])
        for l in _rounds(case):
            collect(l)
        cands = [(l, i) for l in lists for i, a in enumerate(l) if _plain_none(a)]
        if cands:
            l, i = rng.choice(cands)
            for _ in range(rng.choice([1, 1, 2])):
                l.insert(rng.randrange(i + 1, len(l) + 1), copy.deepcopy(l[i]))
    return case


def generate(rng, tier, n):
    for c in SEEDS:
        yield c
    for k in range(n):
        yield gen_case(rng, small=(k % 4 == 0))


def A(i, d, node, order=0, adds=(), kind=0):
    return {'id': i, 'disc': [kind, d], 'node': node, 'order': order, 'adds': list(adds)}


# hand-written seeds: the replays of DESIGN.md section 5 items 3 and 4 and their neighbours
SEEDS = [
    # item 3: d@() phase 0, d@(a), d@(b) phase 1  -- () is a strict prefix of both
    {'mode': 'direct', 'nodes': [[0, 'a'], [0, 'b']], 'actions': [A(0, 1, 0, 0), A(1, 1, 1, 5), A(2, 1, 2, 5)]},
    {'mode': 'include', 'nodes': [[0, 's1'], [0, 's2']], 'actions': [A(0, 1, 0, 0), A(1, 1, 1, 5), A(2, 1, 2, 5)]},
    # same three in one phase / only one of the late ones: resolve silently on every tree
    {'mode': 'direct', 'nodes': [[0, 'a'], [0, 'b']], 'actions': [A(0, 1, 0, 0), A(1, 1, 1, 0), A(2, 1, 2, 0)]},
    {'mode': 'direct', 'nodes': [[0, 'a'], [0, 'b']], 'actions': [A(0, 1, 0, 0), A(1, 1, 1, 5)]},
    # item 4: an overridden phase-0 action lingers; a later action declares a new one
    {'mode': 'direct', 'nodes': [[0, 'a']], 'actions': [A(0, 1, 0, 0), A(1, 1, 1, 0), A(2, None, 0, 5, adds=[A(3, None, 0, 5)])]},
    {'mode': 'include', 'nodes': [[0, 's1']], 'actions': [A(0, 1, 0, 0), A(1, 1, 1, 0), A(2, None, 0, 5, adds=[A(3, None, 0, 5)])]},
    # genuine late addition
    {'mode': 'direct', 'nodes': [], 'actions': [A(0, None, 0, 5, adds=[A(1, None, 0, 0)])]},
    # re-entrant clash with an executed action / silent override by it
    {'mode': 'direct', 'nodes': [[0, 'a']], 'actions': [A(0, 1, 1, 0, adds=[A(1, 1, 0, 0)])]},
    {'mode': 'direct', 'nodes': [[0, 'a']], 'actions': [A(0, 1, 0, 0, adds=[A(1, 1, 1, 0)])]},
    # deferred discriminators
    {'mode': 'direct', 'nodes': [[0, 'a']], 'actions': [A(0, 1, 0, 5, kind=1), A(1, 1, 1, 5), A(2, 2, 0, 0, kind=1)]},
]


SEEDS += [
    # histories: a second commit on the same object is the commit of its own actions only
    {'mode': 'direct', 'nodes': [], 'actions': [A(0, 1, 0, 0)], 'rounds': [[A(1, 1, 0, 0)]]},
    {'mode': 'direct', 'nodes': [], 'actions': [A(0, None, 0, 5)], 'rounds': [[A(1, None, 0, 0)]]},
    {'mode': 'include', 'nodes': [], 'actions': [A(0, 1, 0, 0), A(1, 1, 0, 0)], 'rounds': [[A(2, None, 0, 0)]]},
    {'mode': 'include', 'nodes': [[0, 's1']], 'actions': [A(0, 1, 0, 0)], 'rounds': [[A(1, 1, 1, 0)], [A(2, 1, 0, -10)]]},
    # repeated plain-None declarations, with re-entrancy in between
    {'mode': 'direct', 'nodes': [], 'actions': [A(0, None, 0, 0, adds=[A(1, None, 0, 0)]), A(2, None, 0, 0), A(2, None, 0, 0)]},
    {'mode': 'direct', 'nodes': [], 'actions': [A(0, None, 0, 0, adds=[A(1, None, 0, 0)]), A(0, None, 0, 0, adds=[A(1, None, 0, 0)])]},
    {'mode': 'include', 'nodes': [], 'actions': [A(2, None, 0, 0), A(0, None, 0, 0, adds=[A(1, None, 0, 5)]), A(2, None, 0, 0), A(2, None, 0, 0)]},
]
SEEDS += [
    # a Deferred resolving to None is 'no discriminator': never conflicts, never discarded, whatever ran before
    {'mode': 'direct', 'nodes': [], 'actions': [A(0, None, 0, 0, kind=1), A(1, None, 0, 0, kind=1)]},
    {'mode': 'direct', 'nodes': [[0, 'a']], 'actions': [A(0, None, 0, 0, kind=1), A(1, None, 1, 0, kind=1)]},
    {'mode': 'include', 'nodes': [[0, 's1']], 'actions': [A(0, None, 0, 0), A(1, None, 1, 5, kind=1)]},
    {'mode': 'direct', 'nodes': [], 'actions': [A(0, None, 0, 0, adds=[A(1, None, 0, 0, kind=1)])]},
    # falsy (non-None) discriminators are discriminators: same-level clash, nested override, Deferred resolving to one
    {'mode': 'direct', 'nodes': [], 'actions': [A(0, 1, 0, 0), A(1, 1, 0, 0)], 'falsy': [[1, 'tuple']]},
    {'mode': 'direct', 'nodes': [], 'actions': [A(0, 1, 0, 0), A(1, 1, 0, 0)], 'falsy': [[1, 'zero']]},
    {'mode': 'include', 'nodes': [[0, 's1']], 'actions': [A(0, 1, 1, 0), A(1, 1, 0, 0)], 'falsy': [[1, 'frozenset']]},
    {'mode': 'direct', 'nodes': [[0, 'a']], 'actions': [A(0, 1, 1, 0, kind=1), A(1, 1, 0, 0, kind=1)], 'falsy': [[1, 'empty']]},
    {'mode': 'include', 'nodes': [], 'actions': [A(0, 1, 0, 5, kind=1), A(1, 1, 0, 5)], 'falsy': [[1, 'tuple']]},
]


SEEDS += [
    # the KIND of callable must not matter: falsy callable objects (empty callable list, __bool__ False, __len__ 0),
    # partial, bound method -- with and without discriminator, overriding and overridden, re-entrant
    {'mode': 'direct', 'nodes': [], 'actions': [dict(A(0, None, 0, 0), ck=1), dict(A(1, 1, 0, 0), ck=2), dict(A(2, None, 0, 5), ck=3)]},
    {'mode': 'include', 'nodes': [[0, 's1']], 'actions': [dict(A(0, 1, 1, 0), ck=4), dict(A(1, 1, 0, 0), ck=1), dict(A(2, None, 1, 0), ck=1)]},
    {'mode': 'direct', 'nodes': [], 'actions': [dict(A(0, None, 0, 0, adds=[dict(A(1, None, 0, 0), ck=2)]), ck=1)]},
    {'mode': 'include', 'nodes': [], 'actions': [dict(A(0, 1, 0, 0), ck=5), dict(A(1, None, 0, -10), ck=3)]},
    # an action without a callable still claims its discriminator (conflict / override) and is passed over silently
    {'mode': 'direct', 'nodes': [], 'actions': [dict(A(0, 1, 0, 0), ck=6), A(1, 1, 0, 0)]},
    {'mode': 'include', 'nodes': [[0, 's1']], 'actions': [A(0, 1, 1, 0), dict(A(1, 1, 0, 0), ck=6), A(2, None, 0, 0)]},
    # the doors into ActionState.actions: old-style tuples of 6, 7, 8 positions and ready-made dicts, mixed with the method
    {'mode': 'direct', 'nodes': [[0, 'a']], 'actions': [dict(A(0, 1, 1, 0), tf=1), dict(A(1, 1, 0, 0), tf=2), dict(A(2, None, 0, 5), tf=3)]},
    {'mode': 'direct', 'nodes': [[0, 'a']], 'actions': [dict(A(0, 1, 0, 5), tf=4), dict(A(1, 1, 1, 5), tf=2), A(2, 2, 1, 0)]},
    {'mode': 'direct', 'nodes': [], 'actions': [dict(A(0, None, 0, 0, adds=[dict(A(1, 1, 0, 0), tf=1), dict(A(2, 1, 0, 0), tf=4)]), tf=2)]},
    {'mode': 'direct', 'nodes': [[0, 'a']], 'actions': [dict(A(0, 1, 1, -10, kind=1), tf=1)], 'rounds': [[dict(A(1, 1, 0, 0), tf=3, ck=1)]]},
]


SEEDS += [
    # chains that are unrelated although their TEXT is related: sibling includes s1 / s1x, and a one-element chain whose
    # element reads like a two-element chain
    {'mode': 'include', 'nodes': [[0, 's1'], [0, 's1x']], 'actions': [A(0, 1, 1, 0), A(1, 1, 2, 0)]},
    {'mode': 'direct', 'nodes': [[0, 'a'], [0, 'a_v2'], [2, 'b']], 'actions': [A(0, 1, 1, 0), A(1, 1, 3, 0), A(2, 2, 0, 0)]},
    {'mode': 'direct', 'nodes': [[0, 'a'], [0, 'a0']], 'actions': [A(0, 1, 1, -10), A(1, 1, 2, 0)]},
    {'mode': 'direct', 'nodes': [[0, 'a'], [1, 'b'], [0, 'a/b'], [3, 'c']], 'actions': [A(0, 1, 2, 0), A(1, 1, 4, 0)]},
]


SEEDS += [
    # order=None and order 0 are the same phase: override / conflict / declaration order across the two spellings
    {'mode': 'include', 'nodes': [[0, 's1']], 'actions': [A(0, 1, 1, 0), A(1, 1, 0, None)]},
    {'mode': 'direct', 'nodes': [[0, 'a']], 'actions': [A(0, 1, 0, None), A(1, 1, 1, 0), A(2, None, 0, None), A(3, None, 0, 0)]},
    {'mode': 'direct', 'nodes': [], 'actions': [A(0, 1, 0, 0), A(1, 1, 0, None)]},
    {'mode': 'direct', 'nodes': [[0, 'a']], 'actions': [A(0, None, 0, None), A(1, 2, 1, 0), A(2, None, 0, 0), A(3, 2, 0, None), A(4, None, 0, 5)]},
]


def _walk(acts):
    for a in acts:
        yield a
        for b in _walk(a['adds']):
            yield b


def _all_actions(case):
    """every action of every commit of the case"""
    for a in _walk(case['actions']):
        yield a
    for r in case.get('rounds', []):
        for a in _walk(r):
            yield a


def _plain_none(a):
    """an action (with its whole subtree) without discriminator and not deferred: the only kind the generator repeats"""
    return a['disc'] == [0, None] and all(_plain_none(b) for b in a['adds'])


def valid(case):
    try:
        if case['mode'] not in ('direct', 'include'):
            return False
        nn = len(case['nodes'])
        for k, (p, s) in enumerate(case['nodes'], start=1):
            pat = r'[a-z][a-z0-9]{0,7}' if case['mode'] == 'include' else r'[a-z][a-z0-9_/:, ]{0,11}'
            if not (isinstance(p, int) and 0 <= p < k and isinstance(s, str) and re.fullmatch(pat, s)):
                return False
        if case['mode'] == 'include' and len({s for _, s in case['nodes']}) != nn:
            return False
        ids = []
        seen = {}
        for a in _all_actions(case):
            if a['id'] in seen:
                if seen[a['id']] != a or not _plain_none(a):
                    return False            # the same id twice only for an identical, repeated plain-None declaration
                continue
            seen[a['id']] = a
            ids.append(a['id'])
            k, dv = a['disc']
            if k not in (0, 1) or not (dv is None or isinstance(dv, int) and 1 <= dv <= 9):
                return False
            if not (isinstance(a['node'], int) and 0 <= a['node'] <= nn):
                return False
            if not (a['order'] is None or isinstance(a['order'], int) and -100 <= a['order'] <= 100):
                return False
            if not isinstance(a['id'], int) or not 0 <= a['id'] < 1000:
                return False
            if a.get('ck', 0) not in range(8) or a.get('tf', 0) not in range(5):
                return False
            if a.get('ck', 0) == 6 and a['adds']:
                return False                # no callable, nothing to declare
            if set(a) - {'id', 'disc', 'node', 'order', 'adds', 'ck', 'tf'}:
                return False
        fz = case.get('falsy', [])
        ok_kinds = ('tuple', 'frozenset') if case['mode'] == 'include' else tuple(FALSY)
        if len({d for d, _ in fz}) != len(fz) or len({k for _, k in fz}) != len(fz):
            return False
        if not all(isinstance(d, int) and 1 <= d <= 9 and k in ok_kinds for d, k in fz):
            return False
        if not all(isinstance(r, list) for r in case.get('rounds', [])) or len(case.get('rounds', [])) > 3:
            return False
        return len(set(ids)) == len(ids) and len(ids) <= 40
    except Exception:
        return False


def shrinks(case):
    """drop an action (anywhere in the forest), hoist adds, drop unused trailing nodes, simplify fields."""
    def variants(acts):
        for i, a in enumerate(acts):
            yield acts[:i] + acts[i + 1:]
            if a['adds']:
                yield acts[:i] + [dict(a, adds=[])] + acts[i + 1:]
                yield acts[:i] + [dict(a, adds=[])] + a['adds'] + acts[i + 1:]
            for sub in variants(a['adds']):
                yield acts[:i] + [dict(a, adds=sub)] + acts[i + 1:]
        for i, a in enumerate(acts):
            if a['disc'][0] == 1:
                yield acts[:i] + [dict(a, disc=[0, a['disc'][1]])] + acts[i + 1:]
            if a['order'] not in (0, None):
                yield acts[:i] + [dict(a, order=0)] + acts[i + 1:]
            if a['node'] != 0:
                yield acts[:i] + [dict(a, node=0)] + acts[i + 1:]
            for opt in ('ck', 'tf'):
                if a.get(opt):
                    yield acts[:i] + [{k: v for k, v in a.items() if k != opt}] + acts[i + 1:]
    rs = case.get('rounds', [])
    for j in range(len(rs)):                       # drop a whole later commit, or merge nothing: just drop
        yield dict(case, rounds=rs[:j] + rs[j + 1:])
    for acts in variants(case['actions']):
        yield dict(case, actions=acts)
    for j, r in enumerate(rs):
        for acts in variants(r):
            yield dict(case, rounds=rs[:j] + [acts] + rs[j + 1:])
    used = {a['node'] for a in _all_actions(case)} | {p for p, _ in case['nodes']}
    n = len(case['nodes'])
    if n and n not in used:
        yield dict(case, nodes=case['nodes'][:-1])
    fz = case.get('falsy', [])
    for i in range(len(fz)):
        yield dict(case, falsy=fz[:i] + fz[i + 1:])
    if case['mode'] == 'include':
        yield dict(case, mode='direct')


# ------------------------------------------------------------------ wire
def _spec(case, s):
    return MOD + ':' + s if case['mode'] == 'include' else s


def _paths(case):
    paths = [()]
    for p, s in case['nodes']:
        paths.append(paths[p] + (_spec(case, s),))
    return paths


def _wact(a):
    return [a['id'], [a['disc'][0], [] if a['disc'][1] is None else [a['disc'][1]]], a['node'],
            [] if a['order'] is None else [a['order']], [_wact(b) for b in a['adds']]]


def to_wire(case):
    return [1 if case['mode'] == 'include' else 0, [[p, _spec(case, s)] for p, s in case['nodes']],
            [_wact(a) for a in case['actions']], [[_wact(a) for a in r] for r in case.get('rounds', [])]]


def _nocall(case):
    return {a['id'] for a in _all_actions(case) if a.get('ck', 0) == 6}


def _raisers(case):
    return {a['id'] for a in _all_actions(case) if a.get('ck', 0) == 7}


def from_wire(case, raw):
    if raw == [['bad']] or not isinstance(raw, list) or len(raw) != 6:
        return {'model': ['MODEL-BAD', raw], 'spec': None}
    nc = _nocall(case)
    rs = _raisers(case)
    hit = [False]

    def vis(ol):
        # an action without a callable is executed like any other (the model's Run event = "its turn came"); only there
        # is no callable whose call the harness could observe
        return [ol[0], [e for e in ol[1] if not (e[0] == 0 and e[1] in nc)]] if nc else ol

    def cut(ol):
        # a raising callable cuts the run right after it started (theorem C04_raising_callable_cuts_the_run: the run
        # with raising callables is that prefix of the plain run) and the outcome is the ConfigurationExecutionError
        if rs:
            for k, e in enumerate(ol[1]):
                if e[0] == 0 and e[1] in rs:
                    hit[0] = True
                    return [['EXC', 'ConfigurationExecutionError', 'RuntimeError'], ol[1][:k + 1]]
        return ol
    m_commit, s_commit, s_exec, flags, m_resolve, later = raw
    model = [vis(cut(m_commit)), m_resolve, [vis(cut(r[0])) for r in later]]
    spec = [vis(s_commit), vis(s_exec), flags, [[vis(r[1]), vis(r[2]), r[3]] for r in later]]
    # the property says nothing about a commit in which a callable raises: only the correspondence is checked then
    return {'model': model, 'spec': None if hit[0] else spec}


# ------------------------------------------------------------------ implementation
_impl = {}


def setup(tier):
    from pyramid.config import Configurator
    from pyramid.config.actions import ActionState, ConflictResolverState, resolveConflicts
    from pyramid.exceptions import ConfigurationConflictError, ConfigurationError, ConfigurationExecutionError
    from pyramid.registry import Deferred, Registry
    _impl.update(Configurator=Configurator, ActionState=ActionState, CRS=ConflictResolverState,
                 resolveConflicts=resolveConflicts, Conflict=ConfigurationConflictError, Error=ConfigurationError,
                 ExecError=ConfigurationExecutionError, Deferred=Deferred, Registry=Registry)


LATE_RE = re.compile(r'Actions were added to order=(-?\d+) after execution had moved on to order=(-?\d+)\.')


FALSY = {'tuple': (), 'frozenset': frozenset(), 'zero': 0, 'empty': ''}


def _falsy(case):
    return {d: k for d, k in case.get('falsy', [])}


def _disc_val(case, dv):
    """the Python value standing for abstract discriminator dv: a truthy tuple, or one of the falsy
    hashable values when the case says so (they must behave exactly like any other non-None value)."""
    if dv is None:
        return None
    fz = _falsy(case)
    return FALSY[fz[dv]] if dv in fz else ('d', dv)


def _disc_num(case):
    rev = {}
    for a in _all_actions(case):
        dv = a['disc'][1]
        if dv is not None:
            rev[_disc_val(case, dv)] = dv
    return rev


def _disc_obj(case, a, log):
    k, dv = a['disc']
    val = _disc_val(case, dv)
    if k == 0:
        return val
    i = a['id']

    def func():
        log.append([1, i])
        return val
    return _impl['Deferred'](func)


def _info_id(info):
    s = str(info)
    m = re.fullmatch(r'a(\d+)', s)
    return int(m.group(1)) if m else s


def _key_num(rev, k):
    """a key of ConfigurationConflictError._conflicts as a number: the abstract discriminator, 0 for the key None
    (never a legitimate key: None-discriminated actions cannot conflict), -1 for any other unexpected value."""
    if k is None:
        return 0
    try:
        return (rev or {}).get(k, -1)
    except TypeError:
        return -1


def _outcome(fn, log, rev=None):
    try:
        fn()
        return [0]
    except _impl['Conflict'] as e:
        msg = str(e)
        if not all(('For: %s' % (k,)) in msg for k in e._conflicts):
            return ['EXC', 'conflict-message-omits-a-discriminator', msg[:80]]
        return [1, [[_key_num(rev, k), [_info_id(x) for x in v]] for k, v in e._conflicts.items()]]
    except _impl['ExecError'] as e:
        return ['EXC', 'ConfigurationExecutionError', type(e.evalue).__name__ if hasattr(e, 'evalue') else '']
    except _impl['Error'] as e:
        m = LATE_RE.match(str(e))
        if m:
            return [2, int(m.group(1)), int(m.group(2))]
        return ['EXC', 'ConfigurationError', str(e)[:80]]
    except ValueError:
        return [3]
    except Exception as e:
        return ['EXC', type(e).__name__, str(e)[:80]]



# ---- what kind of object an action's callable is.  Every kind must be CALLED when the action is executed: execute_actions
# may only ask `is not None`, never the truth value, the length or the type of the callable.
class _FalsyList(list):
    """a callable registry that is a list: empty, hence falsy, whenever commit looks at it"""

    def __init__(self, body):
        super().__init__()
        self.body = body

    def __call__(self, *a, **k):
        return self.body(*a, **k)

    __hash__ = object.__hash__


class _FalsyBool:
    def __init__(self, body):
        self.body = body

    def __bool__(self):
        return False

    def __call__(self, *a, **k):
        return self.body(*a, **k)


class _FalsyLen:
    def __init__(self, body):
        self.body = body

    def __len__(self):
        return 0

    def __call__(self, *a, **k):
        return self.body(*a, **k)


class _Holder:
    def __init__(self, body):
        self.body = body

    def method(self, *a, **k):
        return self.body(*a, **k)


def _wrap_callable(ck, body):
    import functools
    if ck == 1:
        return _FalsyList(body)
    if ck == 2:
        return _FalsyBool(body)
    if ck == 3:
        return _FalsyLen(body)
    if ck == 4:
        return functools.partial(body)
    if ck == 5:
        return _Holder(body).method
    if ck == 6:
        return None                     # an action without a callable: it still claims its discriminator
    return body                         # (ck == 7: the body itself raises, see _make_callables)


def _call_args(a):
    """(args, kw) handed over with the action; the callable checks that it receives exactly them"""
    i = a['id']
    return [((), None), ((i,), {'k': i}), ((i, 'x'), None)][i % 3]


def _make_callables(case, cur, declare):
    calls = {}

    def callable_of(a):
        # one callable per action identity: a repeated declaration hands the SAME callable, args, kw, info again,
        # so the two action dicts compare equal
        if a['id'] not in calls:
            want_args, want_kw = _call_args(a)

            def call(*args, **kw):
                cur[0].append([0, a['id']] if (args, kw) == (want_args, want_kw or {}) else [9, a['id'], 'args'])
                if a.get('ck', 0) == 7:
                    raise RuntimeError('c04: the callable of a%d raises' % a['id'])   # after it started, before it declares
                for b in a['adds']:
                    declare(b)
            calls[a['id']] = _wrap_callable(a.get('ck', 0), call)
        return calls[a['id']]
    return callable_of


def _rounds(case):
    return [case['actions']] + list(case.get('rounds', []))


def _run_direct(case):
    """ONE ActionState for the whole history: declare, execute_actions(), declare more, execute_actions() again ...
    An action enters ActionState.actions through ActionState.action(), or (field tf) as an old-style tuple of 6, 7 or
    8 positions / a ready-made dict appended to the public `actions` list (normalize_actions / expand_action_tuple)."""
    state = _impl['ActionState']()
    cur = [[]]
    paths = _paths(case)

    def declare(a):
        disc, fn, info = _disc_obj(case, a, cur[0]), callable_of(a), 'a%d' % a['id']
        args, kw = _call_args(a)
        tf = a.get('tf', 0)
        path = paths[a['node']]
        if tf in (1, 2, 3):
            tup = (disc, fn, args, kw, path, info, a['order'], ())
            n = 8 if tf == 3 else 7
            if tf == 2 and a['order'] == 0:
                n = 6                      # the shortest tuple that says the same thing (order defaults to 0)
            state.actions.append(tup[:n])
        elif tf == 4:
            state.actions.append(dict(discriminator=disc, callable=fn, args=args, kw=kw or {}, order=a['order'],
                                      includepath=path, info=info, introspectables=()))
        else:
            opt = dict(info=info)
            # the defaults of ActionState.action (order=0, includepath=()) are used where they say the same thing
            if not (type(a['order']) is int and a['order'] == 0 and a['id'] % 2 == 0):
                opt['order'] = a['order']
            if not (path == () and a['id'] % 2 == 1):
                opt['includepath'] = path
            if kw is None:
                state.action(disc, fn, args, **opt)
            else:
                state.action(disc, fn, args=args, kw=kw, **opt)
    callable_of = _make_callables(case, cur, declare)
    res = []
    for acts in _rounds(case):
        cur[0] = []
        for a in acts:
            declare(a)
        out = _outcome(state.execute_actions, cur[0], _disc_num(case))
        res.append([out, cur[0]])
    return res


def _run_include(case):
    """ONE Configurator (and its nested configurators) for the whole history; commit() after every round.  After a
    successful commit the Configurator installs a new ActionState, after a failed one it keeps the old one."""
    config = _impl['Configurator'](registry=_impl['Registry']('c04'), autocommit=False)
    cur = [[]]
    cfgs = {0: config}
    children = {}
    for k, (p, s) in enumerate(case['nodes'], start=1):
        children.setdefault(p, []).append((k, s))

    def make_inc(k, s):
        def inc(cfg):
            cfgs[k] = cfg
            for k2, s2 in children.get(k, []):
                cfg.include(make_inc(k2, s2))
        inc.__name__ = s
        inc.__module__ = MOD
        return inc
    for k, s in children.get(0, []):
        config.include(make_inc(k, s))

    def declare(a):
        cfg = cfgs[a['node']]
        cfg.info = 'a%d' % a['id']
        args, kw = _call_args(a)
        if kw is None:
            cfg.action(_disc_obj(case, a, cur[0]), callable_of(a), args, order=a['order'])
        else:
            cfg.action(_disc_obj(case, a, cur[0]), callable_of(a), args=args, kw=kw, order=a['order'])
    callable_of = _make_callables(case, cur, declare)
    res = []
    for acts in _rounds(case):
        cur[0] = []
        for a in acts:
            declare(a)
        out = _outcome(config.commit, cur[0], _disc_num(case))
        res.append([out, cur[0]])
    return res


def _run_resolve(case):
    """resolveConflicts driven directly on a fresh state (callables are not run); old-style tuples are handed over as
    tuples (resolveConflicts normalises them itself)."""
    st = _impl['CRS']()
    paths = _paths(case)
    log = []
    dicts = []
    for a in case['actions']:
        disc, info, tf = _disc_obj(case, a, log), 'a%d' % a['id'], a.get('tf', 0)
        if tf in (1, 2, 3):
            tup = (disc, None, (), {}, paths[a['node']], info, a['order'], ())
            dicts.append(tup[:8 if tf == 3 else 6 if (tf == 2 and a['order'] == 0) else 7])
        else:
            dicts.append(dict(discriminator=disc, callable=None, args=(), kw={}, order=a['order'],
                              includepath=paths[a['node']], info=info, introspectables=()))
    got = []

    def go():
        for act in _impl['resolveConflicts'](dicts, state=st):
            got.append(_info_id(act['info']))
    out = _outcome(go, log, _disc_num(case))
    return [out, got, [_info_id(x['info']) for x in st.remaining_actions],
            [] if st.min_order is None else [st.min_order], st.start]


def run_impl(case):
    if not _impl:
        setup('quick')
    nr = len(_rounds(case))
    try:
        hist = _run_include(case) if case['mode'] == 'include' else _run_direct(case)
    except Exception as e:                      # declaring through the public API failed: keep the shape, show the failure
        hist = [[['EXC', 'declare:' + type(e).__name__, str(e)[:80]], []]] * nr
    main = hist[0]
    try:
        res = _run_resolve(case)
    except Exception as e:
        res = [['EXC', 'resolve:' + type(e).__name__], [], [], [], 0]
    return [main, res, hist[1:]]


# ------------------------------------------------------------------ judging
def _reduce(out):
    """what the property speaks about: outcome kind, the SET of contested discriminators, the phases of a refusal."""
    if out and out[0] == 1:
        return [1, sorted((k for k, _ in out[1]), key=lambda k: (str(type(k)), str(k)))]
    return out


def _reduce_spec(out):
    if out and out[0] == 1:
        return [1, sorted(out[1])]
    return out


def spec_holds(case, obs, spec):
    if spec is None:
        return None
    s_commit, s_exec, flags, later = spec
    # identities are distinct except for repeated plain-None declarations (valid() checks exactly that); for those the
    # Coq flag wf_ids is false although the specification -- every None-discriminated action runs -- applies unchanged
    ids_ok = bool(flags[0]) or valid(case)
    verdict = None
    rounds = [(obs[0], s_commit, s_exec, flags)] + [(o, r[0], r[1], r[2]) for o, r in zip(obs[2], later)]
    for (out, log), sc, sx, fl in rounds:
        if not ids_ok:
            continue
        got = [_reduce(out), log]
        # order=None is a declared way of saying "the default phase" (`order or 0`): the re-entrant reading of the
        # specification (spec_exec: phase = order or 0, no phase memo after a None-order action) is compared on such cases
        # too; the flat specification and the theorems keep to int orders (wf_orders)
        if fl[1] and fl[2] and got != [_reduce_spec(sc[0]), sc[1]]:
            return False
        if got != [_reduce_spec(sx[0]), sx[1]]:
            return False
        verdict = True
    return verdict


def classify(case, obs, spec):
    """DESIGN.md section 5 items 3 and 4 (both repaired in /tmp/repo_fixed)."""
    if spec is None:
        return None
    (out, log) = obs[0]
    s_exec = spec[1]
    if out and out[0] == 2 and s_exec[0][0] != 2:
        return 'C04-discarded-action-lingers'
    if out and out[0] == 1 and s_exec[0][0] != 1 or (out and out[0] == 1 and s_exec[0][0] == 1 and len(log) < len(s_exec[1])):
        ran = {e[1] for e in log if e[0] == 0}
        byid = {a['id']: a for a in _walk(case['actions'])}
        paths = _paths(case)
        for d, infos in out[1]:
            prior = [i for i in ran if byid[i]['disc'][1] == d]
            if not prior:
                return None
            base = paths[byid[prior[0]]['node']]
            others = [paths[a['node']] for a in byid.values() if a['disc'][1] == d and a['id'] != prior[0]]
            if not all(len(p) > len(base) and p[:len(base)] == base for p in others if p is not None):
                return None
        return 'C04-crossphase-override'
    return None


def nontrivial(case, obs):
    ds = [a['disc'][1] for a in _all_actions(case) if a['disc'][1] is not None]
    return len(ds) != len(set(ds))


def kinds(case, obs):
    (out, log), res = obs[0], obs[1]
    acts = list(_walk(case['actions']))
    k = [{0: 'done', 1: 'conflict', 2: 'late-refused', 3: 'crash'}.get(out[0], 'exc') if out else 'exc']
    k.append('mode-' + case['mode'])
    k.append('reentrant' if any(a['adds'] for a in acts) else 'flat')
    n = len(acts)
    k.append('actions-%s' % ('0' if n == 0 else '1-3' if n <= 3 else '4-7' if n <= 7 else '8+'))
    runs = sum(1 for e in log if e[0] == 0)
    if out and out[0] == 0 and runs < n:
        k.append('done-with-overrides')
    if out and out[0] == 0 and runs < n and any(a['adds'] for a in acts):
        k.append('done-with-overrides-reentrant')
    if any(a['disc'][0] == 1 for a in acts):
        k.append('has-deferred')
    if any(e[0] == 1 for e in log):
        k.append('deferred-forced')
    dn = [a for a in acts if a['disc'] == [1, None]]
    if dn:
        k.append('deferred-none')
        if len(dn) > 1:
            k.append('deferred-none-several')
        if any(a['disc'] == [0, None] for a in acts):
            k.append('deferred-none-with-plain-none')
    if len({a['order'] for a in acts}) > 1:
        k.append('multi-phase')
    if any(a['order'] is None for a in acts):
        k.append('order-none')
        if any(a['order'] == 0 for a in acts):
            k.append('order-none-mixed-with-0')
    fz = _falsy(case)
    if any(a['disc'][1] in fz for a in acts):
        k.append('falsy-discriminator')
        if any(a['disc'][1] in fz and a['disc'][0] == 1 for a in acts):
            k.append('falsy-discriminator-deferred')
        ds = [a['disc'][1] for a in acts if a['disc'][1] in fz]
        if len(ds) != len(set(ds)):
            k.append('falsy-discriminator-shared')
    if out and out[0] == 1:
        k.append('conflict-after-some-ran' if runs else 'conflict-before-any-ran')
        k.append('conflict-%d-discs' % min(len(out[1]), 3))
    nr = len(case.get('rounds', []))
    if nr:
        k.append('history-%d-commits' % (nr + 1))
        outs = [out] + [o for o, _ in obs[2]]
        if any(o and o[0] != 0 for o in outs[:-1]):
            k.append('history-commit-after-a-failed-one')
        first = {a['disc'][1] for a in _walk(case['actions'])} - {None}
        if any(a['disc'][1] in first for r in case['rounds'] for a in _walk(r)):
            k.append('history-redeclares-a-discriminator')
    ids = [a['id'] for a in _all_actions(case)]
    if len(ids) != len(set(ids)):
        k.append('repeated-declaration')
        if any(a['adds'] for a in _all_actions(case)):
            k.append('repeated-declaration-reentrant')
    cks = {a.get('ck', 0) for a in _all_actions(case)}
    if cks & {1, 2, 3}:
        k.append('callable-falsy-object')
        if any(a.get('ck', 0) in (1, 2, 3) and a['disc'][1] is not None for a in _all_actions(case)):
            k.append('callable-falsy-object-with-discriminator')
    if cks & {4, 5}:
        k.append('callable-partial-or-method')
    if 6 in cks:
        k.append('callable-none')
    specs = [sp for _, sp in case['nodes']]
    if any(a != b and b.startswith(a) for a in specs for b in specs):
        k.append('include-names-share-a-textual-prefix')
    if any(ch in sp for sp in specs for ch in '/:, '):
        k.append('include-name-contains-a-separator')
    if 7 in cks:
        k.append('callable-raises')
        if any(o and o[0] == 'EXC' and o[1] == 'ConfigurationExecutionError' for o in [out] + [o for o, _ in obs[2]]):
            k.append('callable-raises-reached')
    tfs = {a.get('tf', 0) for a in _all_actions(case)}
    if tfs & {1, 2, 3}:
        k.append('declared-as-tuple')
        if any(a.get('tf', 0) in (1, 2, 3) and a['adds'] for a in _all_actions(case)) or \
                any(b.get('tf', 0) in (1, 2, 3) for a in _all_actions(case) for b in a['adds']):
            k.append('declared-as-tuple-reentrant')
    if 4 in tfs:
        k.append('declared-as-dict')
    k.append('resolve-' + ({0: 'done', 1: 'conflict', 2: 'late'}.get(res[0][0], 'other') if res[0] else 'other'))
    return k


def describe(case):
    return case


def explain(item):
    return {'observed [outcome, log]': item['impl'][0] if item.get('impl') else None,
            'commit_spec / spec_exec / [wf_ids, wf_orders, flat]': item.get('spec'),
            'legend': 'outcome [0]=done [1,K]=conflict [2,order,min]=late refusal; log [0,id]=ran [1,id]=Deferred forced'}


# ------------------------------------------------------------------ targeted search
def targeted(broken, disagreements, rng):
    """all programs of <= 3 top-level actions (+ one re-entrant child) on the 3-node tree root/a/b,
    2 discriminators, 2 phases -- the small scope in which both section-5 defects live."""
    out = list(SEEDS)
    nodes = [[0, 'a'], [0, 'b']]
    opts = [(d, n, o) for d in (None, 1, 2) for n in (0, 1, 2) for o in (0, 5)]
    for n in (2, 3):
        for combo in itertools.product(opts, repeat=n):
            acts = [A(i, d, nd, o) for i, (d, nd, o) in enumerate(combo)]
            out.append({'mode': 'direct', 'nodes': nodes, 'actions': acts})
    for combo in itertools.product(opts, repeat=3):
        for child in ((None, 0, 5), (1, 0, 5), (1, 1, 0)):
            acts = [A(i, d, nd, o) for i, (d, nd, o) in enumerate(combo)]
            acts[-1] = dict(acts[-1], adds=[A(3, child[0], child[1], child[2])])
            out.append({'mode': 'direct', 'nodes': nodes, 'actions': acts})
    # the default phase spelled both ways (0 and None) on the tree root/a
    optsn = [(d, n, o) for d in (None, 1) for n in (0, 1) for o in (0, None, 5)]
    for combo in itertools.product(optsn, repeat=3):
        if any(o is None for _, _, o in combo):
            out.append({'mode': 'direct', 'nodes': [[0, 'a']], 'actions': [A(i, d, nd, o) for i, (d, nd, o) in enumerate(combo)]})
    # the same small scope on trees whose include names are textually related (a / ab; a, b / 'a/b')
    for nodes2 in ([[0, 'a'], [0, 'ab']], [[0, 'a'], [1, 'b'], [0, 'a/b']]):
        nn2 = len(nodes2)
        opts2 = [(d, n, o) for d in (None, 1) for n in range(nn2 + 1) for o in (0, 5)]
        for combo in itertools.product(opts2, repeat=2):
            out.append({'mode': 'direct', 'nodes': nodes2, 'actions': [A(i, d, nd, o) for i, (d, nd, o) in enumerate(combo)]})
            if nn2 == 2:
                out.append({'mode': 'include', 'nodes': [[0, 's1'], [0, 's1x']],
                            'actions': [A(i, d, nd, o) for i, (d, nd, o) in enumerate(combo)]})
    rest = out[len(SEEDS):]
    rng.shuffle(rest)
    return out[:len(SEEDS)] + rest[:12000]
