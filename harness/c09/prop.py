"""C09 -- auth-ticket cookies authenticate exactly what was issued, until they expire."""
import hashlib
import json
import os
import re
import warnings

from harness.common import build
from harness.c09 import c09facts
from harness.c09 import gen as G

ID = 'C09'
HERE = os.path.dirname(os.path.abspath(__file__))
CASES = {'quick': 6000, 'thorough': 200000}
PARALLEL = True
PROOF_TIMEOUT = 1500
ALLOWED_AXIOMS = ()
RULE = ('one request against one AuthTktCookieHelper configuration: a cookie value (issued by the real helper and then '
        'kept / edited / spliced / re-cased / re-quoted / given a non-ASCII character (each UTF-8 length class, literal or '
        'percent-escaped) in one chosen field, issued under another secret, algorithm or address, signed '
        'foreign fields, or garbage) x clock (incl. issue+timeout+{-1,0,1}, issue+reissue_time+{-1,0,1}) x a sequence '
        '(whole and +0.5 s; constant, or running: one second passes between the first and later readings of an operation) '
        'x a sequence of <= 6 identify/remember/forget calls on the helper -- in 22 % of the cases interleaved with calls on a '
        'SECOND helper (other secret / algorithm / address binding / cookie name) consulted for the same request --  response callbacks run, every issued cookie fed back into a fresh '
        'identify; the helper is built by AuthTktCookieHelper(...) or (30 %) AuthTktAuthenticationPolicy(...) with keywords '
        'equal to the documented default OMITTED in 45 % of the cases, integer arguments as int / decimal str / float, the '
        'secret as str or UTF-8 bytes, tokens as tuple / list / one-shot generator / iterator, remember() user ids also of '
        'types outside the encoder table (bool, None, float, tuple, str / int / bytes SUBCLASSES); through the policy its '
        'unauthenticated_userid on a fresh request is a further observation; in 14 % of the single-helper cases the application '
        'registers response callbacks of its own that call forget() / remember() while the callbacks run (before or after '
        'identify registered its reissue callback) and the ORDER of the Set-Cookie headers is compared; non-trivial = the request carries a cookie that reaches the digest comparison (fields parse) or the '
        'sequence issues a ticket; distinct by full case')
ASSUMPTIONS = [
    'hashlib is an oracle: H(alg, bytes) -> hexdigest and digest_size come from hashlib itself, per case, through '
    'query rounds driven by the model (never from the Pyramid code under test)',
    'clock values are whole or half seconds (time() floats are modelled at half-second resolution; the ticket stores '
    'int(issue time), so "issue time" in the spec is the floored one: a ticket really issued at t0+0.9 and presented at '
    't0+timeout+0.5 is rejected by the code although its true age is below the timeout -- a stated specification boundary); '
    'issue times are < 2^32 (eight hex digits) where acceptance is demanded',
    'hashalg ranges over names hashlib.new() accepts, including ones that are not attributes of the hashlib module '
    '(sha512_256, SHA256, sm3, md5-sha1 ...)',
    'validly signed tickets with FOREIGN contents may make identify raise and are outside the claim (int(\'abc\'), bad base64, '
    'invalid tokens) -- EXCEPT legacy tickets with user_data \'userid_type:unicode\' and valid tokens, which earlier releases '
    'issued for text user ids: they must yield that text (spec_legacy_unicode)',
    'cookie text comes out of WebOb\'s strict UTF-8 decoder, so it holds Unicode scalar values only (no lone surrogates)',
    'REMOTE_ADDR is a dotted-decimal IPv4 address with parts <= 255 or an IPv6 text containing ":" (latin-1), including '
    'IPv6 notations that embed a dotted quad (::ffff:a.b.c.d, 64:ff9b::a.b.c.d)',
    'int() digit strings stay below CPython\'s 4300-digit limit',
    'userid passed to remember() is int, str or bytes, or an object of any other type (modelled by its str(), computed '
    'with str() in the harness): the property names int / text / bytes only, so for other types the spec demands only that '
    'the issued ticket is accepted with the right timestamp and tokens (the correspondence compares the user id too)',
    'integer-valued constructor / remember arguments (timeout, reissue_time, max_age) are ints, decimal strings or '
    'whole floats: int() of them is the identity on the VALUE, which is what the model carries',
    'the spec compares token *sets* modulo empty strings: a ticket issued without tokens is reported with tokens [\'\']',
]
TRUSTED = [
    'translator harness/c09/translate.py: its PRIMITIVE TABLE (which Python leaf expression / idiom becomes which Gallina '
    'primitive of Model/C09_base.v, Lib/C09Base.v, Lib/Text.v, Lib/Percent.v, Lib/Utf8.v) and its control-flow rules; the '
    'control flow of parse_ticket, calculate_digest, encode_ip_timestamp, AuthTicket.digest/cookie_value, '
    'AuthTktCookieHelper.identify/remember (both branches of the type lookup)/forget/_get_cookies/__init__, '
    'AuthTktAuthenticationPolicy.__init__/unauthenticated_userid/remember/forget is NOT hand-modelled any more: it is '
    'regenerated from the source on every run and proved equal to the reference model (C09_generated_*_is_model); the '
    'constructors are typed by parameter NAME and taken in the source\'s parameter order, their literal defaults are '
    'regenerated too (C09_generated_defaults_are_documented)',
    'shape pins only for what is not translated: AuthTicket.__init__, BadTicket, b64encode, '
    'b64decode, util.strings_differ/text_/bytes_/ascii_, SimpleSerializer.loads/dumps',
    'coq/Lib/C09Base.v: CPython int(s, base) leniency, %08x / str(int), base64 (b64encode, lenient a2b_base64), UTF-8 '
    'errors=replace, urllib.parse.unquote on str -- modelled, validated by the correspondence run, not verified',
    'WebOb CookieProfile / request cookie parsing: oracle for the Set-Cookie text (headers are parsed back by WebOb)',
    'Unicode database (decimal digits / spaces accepted by int()): oracle table computed with int() itself',
]
TECHNIQUE = ('Coq proofs about a Gallina program whose control flow is translated from the Python source on every run '
             '(harness/c09/translate.py: fail-closed ast -> Gallina, leaves through a primitive table), proved equal to a '
             'hand-written reference model; hash function abstract (theorems hold for every H); regenerated constants; '
             'differential correspondence of the extracted REGENERATED program with a hashlib oracle')
LEVEL_TEXT = ('Machine-checked theorems for every cookie string, clock value (whole and half seconds, constant or running), configuration, '
              'interleaving of two helpers on one request and '
              'operation sequence, stated both about the reference model and literally about the program regenerated from '
              'src/pyramid/authentication.py on this run (..._generated); C09_generated_*_is_model prove function by function '
              '(one induction per loop) that the regenerated program is the reference model, so a semantics-preserving rewrite '
              'of the source regenerates a term the same proofs accept, while a semantic change makes an equality theorem fail '
              'and the correspondence / spec run supplies the replay.  Fifth round: the reissued ticket is VALID '
              '(C09_reissued_ticket_valid, C09_issued_reissue_chain: remember -> present -> reissue -> present again yields the '
              'same typed user id and tokens); construction is inside the model (C09_construct_is_model: the helper a caller '
              'gets from either constructor has exactly the configuration asked for, omitted keywords = documented defaults); '
              'the policy wrapper obeys the digest law and never raises on unsigned cookies (C09_policy_accept_implies_digest, '
              'C09_policy_total).  Sixth round: the identity of every accepted cookie is well formed '
              '(C09_accepted_identity_wellformed, so C09_reissued_ticket_valid_any needs no premise on it); unquote(quote(s)) = s '
              'and the ticket round trip for every scalar user-id text (C09_unquote_quote_scalar, C09_ticket_roundtrip_scalar); '
              'no valid token contains , or ! and the token field splits back (C09_valid_token_no_separator, '
              'C09_tokens_split_back, over the regenerated VALID_TOKEN classes); forget / remember from application response '
              'callbacks: its headers are the last on the response (C09_explicit_callback_is_final).  End to end: '
              'C09_policy_end_to_end (constructed policy -> remember -> cookie -> unauthenticated_userid = the remembered typed user '
              'id inside the timeout, None after, never a raise) and C09_accepted_is_issued_or_collision (an accepted cookie with the '
              'digest field of an issued ticket yields exactly the issued identity, or exhibits a collision of the keyed digest); C09_returned_headers_attrs / C09_reissued_cookie_attrs (the attribute '
              'clause from constructor keywords to every Set-Cookie of remember, forget and the reissue).  '
              'See harness/c09/NOTES.md.')
LEVEL_NOTE = ('Trusted: Coq kernel; the translator\'s primitive table and control-flow rules (anything outside subset / table is '
              'a broken tie, never a guess); Python harness; hashlib/WebOb/Unicode-database behaviour taken as oracles; pins for '
              'the few untranslated functions.  Premises visible in theorem statements: length (H a x) = digest length, H output '
              'is hex (scalar values, no leading quote), issue time < 2^32.')

ALGS = G.ALGS


def facts(src):
    return c09facts.facts(src)


# ------------------------------------------------------------------ implementation side
_impl = {}


class _Clock:
    t = 0
    ticking = False      # a running clock: the first reading of an operation shows t, every later one t + 1
    reads = 0

    def time(self):
        self.reads += 1
        if self.ticking and self.reads > 1:
            return self.t + 1
        return self.t


def setup(tier):
    if _impl:
        return
    warnings.simplefilter('ignore')
    import pyramid.authentication as A
    from pyramid.request import Request
    from pyramid.response import Response

    class Req(Request):
        @property
        def cookies(self):
            return self.environ['verif.cookies']

    clock = _Clock()
    A.time_mod = clock          # harness-side clock seam (time_mod.time)
    _impl.update(A=A, Request=Request, Req=Req, Response=Response, clock=clock)
    G.set_issuer(issue_origin, issue_foreign)


def _py_uval(u):
    if u[0] == 3:
        return G.other_object(u[1], u[2])      # an object of a type outside the encoder table (bool, subclass, ...)
    k, s = u
    if k == 0:
        return s
    if k == 1:
        return int(s)
    return s.encode('latin-1')


def _wire_uarg(u):
    """remember() argument on the wire: known types as they are, any other object by its str() (computed here)"""
    if u[0] == 3:
        return [3, str(G.other_object(u[1], u[2]))]
    return u


def _wire_uval(x):
    # EXACT types: identify() must hand back a plain int / str / bytes
    if type(x) is int:
        return [1, str(x)]
    if type(x) is bytes:
        return [2, x.decode('latin-1')]
    if type(x) is str:
        return [0, x]
    return [0, 'UNEXPECTED:' + type(x).__name__]


def _num(form, n):
    """an integer argument in the form a caller may write it: int, decimal str (settings files), float"""
    if form == 'str':
        return str(n)
    if form == 'float' and abs(n) < 2 ** 50:
        return float(n)
    return n


def _toks(form, toks):
    """the tokens argument as a tuple, a list, or a ONE-SHOT iterable"""
    if form == 'list':
        return list(toks)
    if form == 'gen':
        return (t for t in list(toks))
    if form == 'iter':
        return iter(list(toks))
    return tuple(toks)


def _mkreq(rq, name, cookie):
    r = _impl['Req'].blank('/', base_url='http://' + rq['host'])
    r.environ['REMOTE_ADDR'] = rq['ip']
    r.environ['verif.cookies'] = {} if cookie is None else {name: cookie}
    return r


def _parse_header(h):
    """Set-Cookie text -> ck tuple; the value is read back through WebOb's request cookie parser."""
    parts = h.split('; ')
    nv = parts[0]
    name, _raw = nv.split('=', 1)
    attrs = {}
    for p in parts[1:]:
        if '=' in p:
            k, v = p.split('=', 1)
            attrs[k.lower()] = v
        else:
            attrs[p.lower()] = True
    value = _impl['Request'].blank('/', headers={'Cookie': nv}).cookies.get(name)
    ma = attrs.get('max-age')
    deleted = (value == '' and ma == '0')
    return [name, [] if deleted else [value], [attrs['domain']] if 'domain' in attrs else [],
            ['del'] if deleted else ([int(ma)] if ma is not None else []),
            attrs.get('path', ''), 1 if attrs.get('secure') else 0, 1 if attrs.get('httponly') else 0,
            [attrs['samesite']] if 'samesite' in attrs else []]


def _cookies_of(headers):
    return [_parse_header(v) for k, v in headers if k.lower() == 'set-cookie']


def _idres(x):
    if x is None:
        return [0]
    return [1, x['timestamp'], _wire_uval(x['userid']), list(x['tokens']), x['userdata']]


def _ctor_args(cfg, case=None, **over):
    """(secret, keywords) for AuthTktCookieHelper / AuthTktAuthenticationPolicy: keywords marked in case['omit'] are
    left out (the generator marks only values equal to the documented default), the secret may go in as UTF-8 bytes"""
    kw = dict(cfg)
    kw.update(over)
    secret = kw.pop('secret')
    if case is not None:
        if case.get('secret_bytes'):
            secret = secret.encode('utf-8')
        for f in ('timeout', 'reissue_time', 'max_age'):
            if kw.get(f) is not None:
                kw[f] = _num(case.get('numform'), kw[f])      # '1200' as an .ini file gives it, or 1200.0
        for f, om in zip(G.OMIT_FIELDS, case.get('omit') or []):
            if om:
                kw.pop(f, None)
    return secret, kw


def _helper(cfg, case=None, **over):
    secret, kw = _ctor_args(cfg, case, **over)
    return _impl['A'].AuthTktCookieHelper(secret, **kw)


def issue_origin(o):
    """Issue a ticket with the real helper: returns the cookie value or None (remember raised)."""
    if not _impl:
        setup('quick')
    h = _impl['A'].AuthTktCookieHelper(o['secret'], hashalg=o['hashalg'], include_ip=True)
    _impl['clock'].t = o['t0'] + o.get('frac', 0)      # the ticket stores int(time)
    r = _mkreq({'host': 'example.com', 'ip': o['ip']}, 'auth_tkt', None)
    try:
        hs = h.remember(r, _py_uval(o['u']), tokens=tuple(o['tokens']))
    except Exception:
        return None
    return _cookies_of(hs)[0][1][0]


def issue_foreign(f):
    """A ticket signed with AuthTicket directly (arbitrary userid text / tokens / user_data)."""
    if not _impl:
        setup('quick')
    t = _impl['A'].AuthTicket(f['secret'], f['userid'], f['ip'], tokens=tuple(f['tokens']), user_data=f['user_data'],
                              time=f['t0'], hashalg=f['hashalg'])
    return t.cookie_value()


def run_impl(case):
    if not _impl:
        setup('quick')
    cfg, rq = case['cfg'], case['req']
    pol = None
    if case.get('via_policy'):
        # the policy wrapper is a second public entry point: its constructor builds the helper, its remember / forget /
        # unauthenticated_userid delegate to it
        secret, kw = _ctor_args(cfg, case)
        pol = _impl['A'].AuthTktAuthenticationPolicy(secret, **kw)
        h = pol.cookie
    else:
        h = _helper(cfg, case)
    hfb = _helper(cfg, {'secret_bytes': case.get('secret_bytes')}, reissue_time=None)
    tnow = rq['now'] + 0.5 if rq.get('half') else rq['now']     # float clock, as time.time() gives
    _impl['clock'].t = tnow
    if case.get('seam'):
        h.now = tnow
        hfb.now = tnow
    oc = []
    if case.get('origin'):
        v = issue_origin(case['origin'])
        oc = [] if v is None else [v]
        _impl['clock'].t = tnow
    req = _mkreq(rq, cfg['cookie_name'], rq['cookie'])
    h2 = None
    if case.get('second'):
        # a second helper consulted for the SAME request object (its own cookie name, or the same one)
        c2 = case['second']['cfg']
        h2 = _helper(c2)
        if case.get('seam'):
            h2.now = tnow
        if c2['cookie_name'] != cfg['cookie_name'] and case['second']['cookie'] is not None:
            req.environ['verif.cookies'][c2['cookie_name']] = case['second']['cookie']
    outs, fed = [], []
    clock = _impl['clock']
    for op in case['ops']:
        if op[0] in (6, 7):
            # the application registers a response callback that will forget / remember (and put the headers on the response)
            def app_cb(request, response, op=op):
                try:
                    if op[0] == 6:
                        hs = (pol or h).forget(request)
                    else:
                        kw = {'tokens': _toks(case.get('tokform'), op[3])}
                        if op[2] is not None:
                            kw['max_age'] = _num(case.get('numform'), op[2])
                        hs = (pol or h).remember(request, _py_uval(op[1]), **kw)
                except Exception:
                    return
                for k, v in hs:
                    response.headerlist.append((k, v))
            req.add_response_callback(app_cb)
            outs.append([4])
            continue
        second = 3 <= op[0] <= 5
        hh = h2 if second else h
        kind = op[0] % 3
        clock.reads, clock.ticking = 0, bool(rq.get('tick'))
        if kind == 0:
            try:
                outs.append([0, _idres(hh.identify(req))])
            except Exception:
                outs.append([0, [2]])
        else:
            try:
                if kind == 1:
                    kw = {'tokens': _toks(case.get('tokform'), op[3])}
                    if op[2] is not None:
                        kw['max_age'] = _num(case.get('numform'), op[2])
                    hs = (hh if second else (pol or h)).remember(req, _py_uval(op[1]), **kw)
                else:
                    hs = (hh if second else (pol or h)).forget(req)
                cks = _cookies_of(hs)
                outs.append([2, cks])
                fed += [c[1][0] for c in cks if c[1]]
            except Exception:
                outs.append([1])
    clock.ticking = False
    resp = _impl['Response']()
    n0 = len(resp.headerlist)
    try:
        req._process_response_callbacks(resp)
        rcks = _cookies_of(resp.headerlist[n0:])
    except Exception as e:
        rcks = ['CALLBACK-EXC', type(e).__name__]
    fed += [c[1][0] for c in rcks if isinstance(c, list) and c[1]]
    if pol is not None:
        # delegation: on a fresh request the policy reports exactly the user id the helper identifies
        ra, rb = _mkreq(rq, cfg['cookie_name'], rq['cookie']), _mkreq(rq, cfg['cookie_name'], rq['cookie'])
        try:
            a = pol.unauthenticated_userid(ra)
            a = ['uid', _wire_uval(a)] if a is not None else ['none']
        except Exception:
            a = ['raise']
        try:
            b = h.identify(rb)
            b = ['uid', _wire_uval(b['userid'])] if b else ['none']
        except Exception:
            b = ['raise']
        # the policy's answer is an observation of its own (the model answers with the regenerated wrapper)
        outs.append([3, {'none': [0], 'raise': [2]}.get(a[0]) or [1, a[1]]])
        if a != b:
            outs.append(['POLICY-DELEGATION', a, b])
    fb = []
    for v in fed:
        r2 = _mkreq(rq, cfg['cookie_name'], v)
        try:
            fb.append(_idres(hfb.identify(r2)))
        except Exception:
            fb.append([2])
    return [oc, outs, rcks, fb]


# ------------------------------------------------------------------ wire + hash oracle rounds
def _opt(x):
    return [] if x is None else [x]


def _cfg_wire(c):
    return [c['secret'], c['cookie_name'], c['secure'], c['include_ip'], _opt(c['timeout']), _opt(c['reissue_time']),
            _opt(c['max_age']), c['http_only'], c['path'], c['wild_domain'], c['parent_domain'], _opt(c['domain']),
            c['hashalg'], _opt(c['samesite'])]


def _host_domain(host):
    return host.split(':', 1)[0]      # request.domain (WebOb): host without the port


def _uni_tr(ch):
    """CPython's decimal/space-to-ASCII map for one code point >= 127, observed through int() itself."""
    try:
        return 48 + int(ch)
    except ValueError:
        pass
    try:
        int('1' + ch)
        return 32
    except ValueError:
        return 63


_RUN = re.compile(r'(?:%[0-9A-Fa-f]{2})+')


def _uni_table(cookie):
    if not cookie:
        return []
    chars = set(c for c in cookie if ord(c) >= 127)
    for m in _RUN.finditer(cookie):
        run = m.group(0)
        for k in range(0, len(run), 3):
            bs = bytes(int(run[i + 1:i + 3], 16) for i in range(k, len(run), 3))
            chars.update(c for c in bs.decode('utf-8', 'replace') if ord(c) >= 127)
    return [[ord(c), _uni_tr(c)] for c in sorted(chars)]


def _base_wire(case, htab):
    cfg, rq = case['cfg'], case['req']
    algs = {cfg['hashalg']}
    org = []
    o = case.get('origin')
    if o:
        algs.add(o['hashalg'])
        org = [[o['secret'], o['hashalg'], o['ip'], o['t0'], o['u'], list(o['tokens'])]]
    sec, sec_cookie = [], None
    if case.get('second'):
        c2 = case['second']['cfg']
        algs.add(c2['hashalg'])
        # the second helper reads its own cookie; with the same cookie name it reads the same value
        sec_cookie = rq['cookie'] if c2['cookie_name'] == cfg['cookie_name'] else case['second']['cookie']
        sec = [_cfg_wire(c2), _opt(sec_cookie)]
    dt = [[a, hashlib.new(a).digest_size] for a in sorted(algs)]
    ops = [[op[0]] if len(op) == 1 else [op[0], _wire_uarg(op[1]), _opt(op[2]), list(op[3])] for op in case['ops']]
    omit = [bool(x) for x in (case.get('omit') or [False] * len(G.OMIT_FIELDS))]
    return [_cfg_wire(cfg), [_opt(rq['cookie']), rq['ip'], _host_domain(rq['host']), rq['now'], bool(rq.get('half')), bool(rq.get('tick'))], ops, org,
            [dt, htab, _uni_table((rq['cookie'] or '') + (sec_cookie or ''))], sec,
            [bool(case.get('via_policy')), omit]]


def _answer(case, missing, htab, seen):
    secrets = {case['cfg']['secret'].encode('utf-8')}
    if case.get('second'):
        secrets.add(case['second']['cfg']['secret'].encode('utf-8'))
    if case.get('origin'):
        secrets.add(case['origin']['secret'].encode('utf-8'))
    for alg, msg in missing:
        m = msg.encode('latin-1')
        stage = [m]
        if (alg, m) not in seen:
            d1 = hashlib.new(alg, m).hexdigest().encode('ascii')
            stage += [d1 + s for s in secrets]      # second stage of the double digest, saves a round
        for q in stage:
            if (alg, q) not in seen:
                seen.add((alg, q))
                htab.append([alg, q, hashlib.new(alg, q).hexdigest()])


_cache = {}
_own_runner = [None]


def _key(case):
    return json.dumps(case, sort_keys=True, default=repr)


def _runner():
    if _own_runner[0] is None:
        from harness.common.main import Runner
        p = os.path.join(build.BUILD, ID, 'runner')
        _own_runner[0] = Runner(p) if os.path.exists(p) else False
    return _own_runner[0]


def prime(cases, max_rounds=10):
    """Hash-oracle rounds for many cases at once (batch mode of the extracted model)."""
    r = _runner()
    if not r:
        return
    st = {}
    for c in cases:
        k = _key(c)
        if k not in _cache and k not in st:
            st[k] = (c, [], set())
    pending = list(st)
    for _ in range(max_rounds):
        if not pending:
            break
        wires = [_base_wire(st[k][0], st[k][1]) for k in pending]
        try:
            raws = r.batch(wires)
        except Exception:
            return
        nxt = []
        for k, w, raw in zip(pending, wires, raws):
            if isinstance(raw, list) and len(raw) == 3 and raw[2]:
                _answer(st[k][0], raw[2], st[k][1], st[k][2])
                nxt.append(k)
            else:
                _cache[k] = w
        pending = nxt
    for k in pending:
        _cache[k] = _base_wire(st[k][0], st[k][1])


def to_wire(case):
    k = _key(case)
    if k not in _cache:
        r = _runner()
        htab, seen = [], set()
        w = _base_wire(case, htab)
        if r:
            for _ in range(12):
                raw = r.one(w)
                if not (isinstance(raw, list) and len(raw) == 3 and raw[2]):
                    break
                _answer(case, raw[2], htab, seen)
                w = _base_wire(case, htab)
        if len(_cache) > 400000:
            _cache.clear()
        _cache[k] = w
    return _cache[k]


def _fix_ck(c):
    c = list(c)
    if not c[1]:
        c[3] = ['del']
    return c


def from_wire(case, raw):
    if raw == [['bad']] or not isinstance(raw, list) or len(raw) != 3:
        return {'model': ['MODEL-BAD', raw], 'spec': None}
    model, spec, missing = raw
    if missing:
        return {'model': ['ORACLE-INCOMPLETE', len(missing)], 'spec': None}
    oc, outs, resp, fb = model
    outs = [[o[0], [_fix_ck(c) for c in o[1]]] if o[0] == 2 else o for o in outs]
    resp = [_fix_ck(c) for c in resp]
    spec = [spec[0], spec[1], [_fix_ck(c) for c in spec[2]], spec[3], [[_fix_ck(c) for c in f] for f in spec[4]], spec[5]]
    return {'model': [oc, outs, resp, fb], 'spec': spec}


# ------------------------------------------------------------------ generation
def generate(rng, tier, n):
    if not _impl:
        setup(tier)
    cases = [G.gen_case(rng) for _ in range(n)]
    prime(cases)
    return cases


def valid(case):
    return G.valid(case)


def describe(case):
    return case


# ------------------------------------------------------------------ judging
def _ids(obs):
    return [o[1] for o in obs[1] if o[0] == 0]


def _tokset(toks):
    return sorted(set(t for t in toks if t))


def _nonascii_digest(case):
    ck = case['req']['cookie']
    if ck is None:
        return False
    n = hashlib.new(case['cfg']['hashalg']).digest_size * 2
    return any(ord(c) >= 128 for c in ck.strip('"')[:n])


def _problems(case, obs, spec):
    """List of (clause, detail) for every clause of the property the observation breaks."""
    bad = []
    if not isinstance(obs, list) or len(obs) != 4 or (obs and obs[0] == 'HARNESS-EXC'):
        return [('harness', obs)]
    doks, expect, sresp, sattrs, final, legacy = spec
    oc, outs, resp, fb = obs
    multi = any(3 <= op[0] <= 5 for op in case['ops'])       # a second helper was consulted for this request
    regs = any(op[0] in (6, 7) for op in case['ops'])     # the application registered response callbacks of its own
    tick = 1 if case['req'].get('tick') else 0
    for o in outs:
        if o and o[0] == 'POLICY-DELEGATION':
            bad.append(('policy-delegation', o))
    pol_ans = [o[1] for o in outs if o and o[0] == 3]
    for r in pol_ans:
        # AuthTktAuthenticationPolicy.unauthenticated_userid on a fresh request: same law as identify
        if r == [2] and not doks[0]:
            bad.append(('never-raises', ['policy', r]))
        if r[0] == 1 and not doks[0]:
            bad.append(('digest-law', ['policy', r]))
        if expect[0] == 1:
            want = expect[1]
            if (not want and r != [0]) or (want and r != [1, want[1]]):
                bad.append(('issued-ticket-accepted' if want else 'expired-ticket-rejected', ['policy', r, want]))
    org = case.get('origin')
    ids = []
    for op, o in zip(case['ops'], outs):
        if o[0] != 0:
            continue
        r = o[1]
        dok = doks[1 if 3 <= op[0] <= 5 else 0]      # each helper answers for ITS secret / algorithm / address
        if op[0] < 3:
            ids.append(r)
        if r == [2] and not dok:      # a validly signed cookie with foreign contents is outside the claim
            bad.append(('never-raises', r))
        if r[0] == 1 and not dok:
            bad.append(('digest-law', [op[0], r]))
    if legacy and ids:
        # a validly signed LEGACY ticket (user_data 'userid_type:unicode', what earlier releases issued for text user ids):
        # the text user id inside the timeout window, nothing after; never a raise
        want, got = legacy[0], ids[0]
        if want == [0]:
            if got != [0]:
                bad.append(('legacy-unicode-ticket', [got, want]))
        elif got[0] != 1 or got[1] != want[1] or got[2] != want[2] or _tokset(got[3]) != _tokset(want[3]):
            bad.append(('legacy-unicode-ticket', [got, want]))
    if expect[0] == 1 and ids:
        want = expect[1]
        got = ids[0]
        if not want:
            if got != [0]:
                bad.append(('expired-ticket-rejected', got))
        else:
            if got[0] != 1 or got[1] != want[0] or got[2] != want[1] or _tokset(got[3]) != _tokset(want[2]):
                bad.append(('issued-ticket-accepted', [got, want]))
    elif org:
        allowed = [org['u']] + ([case['other_u']] if case.get('other_u') else [])
        for got in ids:
            if got[0] == 1 and (got[2] not in allowed or
                                (got[2] == org['u'] and _tokset(got[3]) != _tokset(org['tokens']))):
                bad.append(('other-identity', got))
    # reissue
    if resp and resp[0] == 'CALLBACK-EXC':
        bad.append(('callback-raises', resp))
    elif multi:
        return bad        # shared request flags of two helpers: the reissue / attribute clauses are stated for one helper
    elif regs:
        # application callbacks: when the one registered last forgets (or re-remembers) the user, its headers are the last
        # ones on the response (C09_explicit_callback_is_final); the rest is compared with the model only
        if final and resp[len(resp) - len(final[0]):] != final[0]:
            bad.append(('forget-or-remember-callback-is-final', [resp, final[0]]))
        return bad
    elif resp != sresp:
        bad.append(('reissue', [resp, sresp]))
    # issued cookies: attributes, and they identify as what was remembered
    k = 0
    for op, o in zip(case['ops'], outs):
        if o[0] == 2:
            for c in o[1]:
                want_ma = ['del'] if not c[1] else ([op[2]] if op[0] == 1 and op[2] is not None else sattrs[6])
                if [c[0], c[2], c[4], c[5], c[6], c[7]] != [sattrs[0], sattrs[1], sattrs[2], sattrs[3], sattrs[4], sattrs[5]] \
                        or c[3] != want_ma:
                    bad.append(('cookie-attributes', c))
                if c[1]:
                    got = fb[k] if k < len(fb) else None
                    k += 1
                    to = case['cfg']['timeout']
                    if op[0] == 1 and (to is None or to >= 0) and 0 <= case['req']['now'] < 2 ** 32:
                        # an object outside the encoder table (op[1][0] == 3): the property names int / text / bytes only,
                        # so only acceptance, timestamp and tokens are demanded of it (the correspondence compares the rest)
                        if not got or got[0] != 1 or got[1] != case['req']['now'] or (op[1][0] != 3 and got[2] != op[1]) \
                                or _tokset(got[3]) != _tokset(op[3]):
                            bad.append(('remember-roundtrip', [got, op]))
    if isinstance(resp, list) and resp and resp[0] != 'CALLBACK-EXC':
        first = [r for r in ids if r[0] == 1]
        for c in resp:
            if [c[0], c[2], c[4], c[5], c[6], c[7]] != [sattrs[0], sattrs[1], sattrs[2], sattrs[3], sattrs[4], sattrs[5]] \
                    or c[3] != (sattrs[6] if c[1] else ['del']):
                bad.append(('cookie-attributes', c))
            if c[1]:
                got = fb[k] if k < len(fb) else None
                k += 1
                to = case['cfg']['timeout']
                if first and (to is None or to >= 0) and 0 <= case['req']['now'] + tick < 2 ** 32:
                    if not got or got[0] != 1 or got[1] != case['req']['now'] + tick or got[2] != first[0][2] \
                            or _tokset(got[3]) != _tokset(first[0][3]):
                        bad.append(('reissued-ticket-valid', [got, first[0]]))
    return bad


def spec_holds(case, obs, spec):
    if spec is None:
        return None
    return not _problems(case, obs, spec)


def classify(case, obs, spec):
    if spec is None:
        return None
    pr = _problems(case, obs, spec)
    clauses = sorted(set(p[0] for p in pr))
    if clauses == ['never-raises'] and _nonascii_digest(case):
        return 'C09-nonascii-digest-typeerror'
    # (C09-legacy-unicode-userid-raises is repaired in /repo 6504010: a raise on a legacy ticket is a plain violation again)
    if clauses and set(clauses) <= {'reissue'} and any(op[0] == 1 for op in case['ops']) and not any(op[0] >= 3 for op in case['ops']):  # (codes 3..7)
        ops = case['ops']
        first_id = min((i for i, op in enumerate(ops) if op[0] == 0), default=None)
        if first_id is not None and any(op[0] == 1 for op in ops[:first_id]) and not any(op[0] == 2 for op in ops) \
                and not any(op[0] == 1 for op in ops[first_id:]):
            return 'C09-remember-then-identify-reissue'
    return None


def explain(item):
    try:
        return {'broken_clauses': _problems(item['case'], item['impl'], item['spec'])} if item.get('spec') else None
    except Exception as e:
        return {'explain-failed': repr(e)}


def nontrivial(case, obs):
    if not isinstance(obs, list) or len(obs) != 4:
        return False
    issued = any(o[0] == 2 and any(c[1] for c in o[1]) for o in obs[1]) or bool(obs[2])
    return issued or case.get('kind', '') not in ('none', 'garbage')


def kinds(case, obs):
    ks = ['src:' + case.get('kind', '?')]
    if not isinstance(obs, list) or len(obs) != 4:
        return ks + ['harness-exc']
    ids = _ids(obs)
    if ids:
        ks.append('identify:' + {0: 'none', 1: 'accepted', 2: 'raised'}[ids[0][0]])
        if ids[0][0] == 1:
            ks.append('userid-type:' + {0: 'str', 1: 'int', 2: 'bytes'}[ids[0][2][0]])
    ks.append('ops:%d' % len(case['ops']))
    for o in obs[1]:
        if o[0] == 1:
            ks.append('remember:raised')
        elif o[0] == 2:
            ks.append('issued' if any(c[1] for c in o[1]) else 'forgot')
    ks.append('response-cookies:%d' % (len(obs[2]) if isinstance(obs[2], list) else -1))
    ks.append('alg:' + case['cfg']['hashalg'])
    if case.get('clock'):
        ks.append('clock:' + case['clock'])
    if case['req'].get('half'):
        ks.append('clock-fraction:.5')
    if case.get('via_policy'):
        ks.append('via-AuthTktAuthenticationPolicy')
    if case.get('second'):
        ks.append('second-helper:' + ('same-cookie-name' if case['second']['cfg']['cookie_name'] == case['cfg']['cookie_name']
                                      else 'own-cookie'))
    if case['req'].get('tick'):
        ks.append('running-clock')
    if any(case.get('omit') or []):
        ks.append('ctor-keywords-omitted:%d' % sum(1 for x in case['omit'] if x))
    if case.get('secret_bytes'):
        ks.append('secret-as-bytes')
    if case.get('numform') in ('str', 'float'):
        ks.append('int-arguments-as:' + case['numform'])
    if case.get('tokform') and any(len(op) == 4 for op in case['ops']):
        ks.append('tokens-as:' + case['tokform'])
    if any(op[0] in (6, 7) for op in case['ops']):
        ks.append('app-response-callback:' + '+'.join(sorted(set({6: 'forget', 7: 'remember'}[op[0]] for op in case['ops']
                                                                  if op[0] in (6, 7)))))
    for op in case['ops']:
        if len(op) == 4 and op[1][0] == 3:
            ks.append('userid-other-type:' + op[1][1])
    if case['cfg']['include_ip']:
        ks.append('ip:' + ('v6' if ':' in case['req']['ip'] else 'v4'))
    return ks


def targeted(broken, disagreements, rng):
    if not _impl:
        setup('quick')
    cases = G.targeted_cases(rng)
    prime(cases)
    return cases


# ------------------------------------------------------------------ shrinking
_DEFAULT_CFG = {'cookie_name': 'auth_tkt', 'secure': False, 'include_ip': False, 'timeout': None, 'reissue_time': None,
                'max_age': None, 'http_only': False, 'path': '/', 'wild_domain': True, 'parent_domain': False,
                'domain': None, 'samesite': 'Lax'}


def shrinks(case):
    """Structured candidates: fewer ops, default configuration, plain request, simpler remember arguments."""
    def w(**kw):
        c = dict(case)
        c.update(kw)
        return c
    ops = case['ops']
    for i in range(len(ops)):
        yield w(ops=ops[:i] + ops[i + 1:])
    for k, dv in _DEFAULT_CFG.items():
        if case['cfg'][k] != dv:
            yield w(cfg=dict(case['cfg'], **{k: dv}))
    if case['req'].get('tick'):
        yield w(req=dict(case['req'], tick=False))
    if case.get('second') and not any(3 <= op[0] <= 5 for op in ops):
        yield w(second=None)
    if case.get('via_policy'):
        yield w(via_policy=False)
    if case.get('seam'):
        yield w(seam=False)
    if any(case.get('omit') or []):
        yield w(omit=None)
    if case.get('secret_bytes'):
        yield w(secret_bytes=False)
    if case.get('numform') in ('str', 'float'):
        yield w(numform='int')
    if case.get('tokform') not in (None, 'tuple'):
        yield w(tokform='tuple')
    if case.get('other_u') is not None:
        yield w(other_u=None)
    rq = case['req']
    if rq['host'] != 'example.com':
        yield w(req=dict(rq, host='example.com'))
    if not case['cfg']['include_ip'] and rq['ip'] != '127.0.0.1':
        yield w(req=dict(rq, ip='127.0.0.1'))
    for i, op in enumerate(ops):
        if op[0] == 1:
            for cand in ([1, [0, 'bob'], None, []], [1, op[1], None, op[3]], [1, op[1], op[2], []]):
                if cand != op:
                    yield w(ops=ops[:i] + [cand] + ops[i + 1:])
    ck = rq['cookie']
    if ck:
        n = hashlib.new(case['cfg']['hashalg']).digest_size * 2
        tail = ck[n + 8:]
        if len(tail) > 3 and tail != 'x!!':
            yield w(req=dict(rq, cookie=ck[:n + 8] + 'x!!'))
        for i in range(min(len(ck), n)):
            if ord(ck[i]) < 128 and ck[i] != 'a':
                yield w(req=dict(rq, cookie=ck[:i] + 'a' + ck[i + 1:]))
                break
