"""Fail-closed facts extractor for C09 (auth-ticket cookies)."""
import ast
import os
import re
from harness.common import facts as F

HERE = os.path.dirname(os.path.abspath(__file__))
AUTH = 'pyramid/authentication.py'

CMP = {ast.Lt: 'CLt', ast.LtE: 'CLe', ast.Gt: 'CGt', ast.GtE: 'CGe', ast.Eq: 'CEq', ast.NotEq: 'CNe'}

DEFAULTS = dict(timeout_cmp='CLt', reissue_cmp='CGt', ts_width=8, ts_field=8, ts_base=16, digest_mult=2,
                strip_ch='"', bang='!', comma=',', pipe='|', userid_typename='userid_type:', default_ip='0.0.0.0',
                tok_first=[ord(c) for c in 'ABCDEFGHIJKLMNOPQRSTUVWXYZabcdefghijklmnopqrstuvwxyz'],
                tok_rest=[ord(c) for c in 'ABCDEFGHIJKLMNOPQRSTUVWXYZabcdefghijklmnopqrstuvwxyz0123456789+_-'],
                tok_dollar=True, enc_int=('int', 'EStr'), enc_str=('b64unicode', 'EB64Utf8'),
                enc_bytes=('b64str', 'EB64'),
                decoders=[('int', 'DInt'), ('unicode', 'DUtf8'), ('b64unicode', 'DB64Utf8'), ('b64str', 'DB64')],
                quote_safe='/')


def _is_self_attr(n, name):
    return isinstance(n, ast.Attribute) and isinstance(n.value, ast.Name) and n.value.id == 'self' and n.attr == name


def _name(n, name):
    return isinstance(n, ast.Name) and n.id == name


def _expand_class(body):
    """'A-Za-z0-9+_-' -> sorted code points (no escapes / negation supported)."""
    if body.startswith('^') or '\\' in body:
        raise ValueError('character class %r' % body)
    out, i = set(), 0
    while i < len(body):
        if i + 2 < len(body) and body[i + 1] == '-':
            a, b = ord(body[i]), ord(body[i + 2])
            if a > b:
                raise ValueError('range')
            out.update(range(a, b + 1))
            i += 3
        else:
            out.add(ord(body[i]))
            i += 1
    return sorted(out)


def _dec_kind(node):
    if isinstance(node, ast.Name) and node.id == 'int':
        return 'DInt'
    src = ast.unparse(node)
    return {'lambda x: utf_8_decode(x)[0]': 'DUtf8',
            # the repaired legacy entry: parse_ticket hands a str, an earlier decoder in the chain may hand bytes
            'lambda x: x if isinstance(x, str) else utf_8_decode(x)[0]': 'DUtf8Text',
            'lambda x: utf_8_decode(b64decode(x))[0]': 'DB64Utf8',
            'lambda x: b64decode(x)': 'DB64'}.get(src)


def _enc_kind(node):
    if isinstance(node, ast.Name) and node.id == 'str':
        return 'EStr'
    src = ast.unparse(node)
    return {'lambda x: b64encode(utf_8_encode(x)[0])': 'EB64Utf8', 'lambda x: b64encode(x)': 'EB64'}.get(src)


def extract(src, problems):
    v = dict(DEFAULTS)

    soft = v.setdefault('_soft', [])

    def need(cond, what, covered=False):
        # covered=True: the constant is also spelled out by the regenerated program (harness/c09/translate.py) and
        # compared with the model by the generated-equals-model theorems, so a matcher miss keeps the default and
        # is only noted; everything else is fail-closed
        if not cond:
            if covered:
                soft.append(what)
            else:
                problems.append('fact unrecognised: ' + what)
        return cond

    try:
        m = F.Module(src, AUTH)
    except Exception as e:
        problems.append('cannot parse %s: %r' % (AUTH, e))
        return v
    # ---- identify
    idf = m.find('AuthTktCookieHelper.identify')
    found_t = found_r = False
    tn = ips = pipes = None
    if need(idf is not None, 'identify missing'):
        for n in ast.walk(idf):
            if isinstance(n, ast.If):
                t = n.test
                if isinstance(t, ast.BoolOp) and isinstance(t.op, ast.And) and len(t.values) == 2 \
                        and _is_self_attr(t.values[0], 'timeout') and isinstance(t.values[1], ast.Compare):
                    c = t.values[1]
                    if len(c.ops) == 1 and isinstance(c.left, ast.BinOp) and isinstance(c.left.op, ast.Add) \
                            and isinstance(c.left.left, ast.Name) and _is_self_attr(c.left.right, 'timeout') \
                            and isinstance(c.comparators[0], ast.Name) and type(c.ops[0]) in CMP:
                        v['timeout_cmp'] = CMP[type(c.ops[0])]
                        found_t = True
                if isinstance(t, ast.Compare) and len(t.ops) == 1 and isinstance(t.left, ast.BinOp) \
                        and isinstance(t.left.op, ast.Sub) and isinstance(t.left.left, ast.Name) \
                        and isinstance(t.left.right, ast.Name) and _is_self_attr(t.comparators[0], 'reissue_time') \
                        and type(t.ops[0]) in CMP:
                    v['reissue_cmp'] = CMP[type(t.ops[0])]
                    found_r = True
            if isinstance(n, ast.Assign) and len(n.targets) == 1 and isinstance(n.targets[0], ast.Name):
                if isinstance(n.value, ast.Constant) and isinstance(n.value.value, str):
                    if re.fullmatch(r'\d+(\.\d+){3}', n.value.value):
                        ips = n.value.value
                    elif n.value.value.endswith(':'):
                        tn = n.value.value
                if isinstance(n.value, ast.Call) and isinstance(n.value.func, ast.Attribute) and n.value.func.attr == 'split':
                    a = n.value.args
                    if len(a) == 1 and isinstance(a[0], ast.Constant):
                        pipes = a[0].value
        need(found_t, 'identify: timeout test `self.timeout and (timestamp + self.timeout) OP now`', covered=True)
        need(found_r, 'identify: reissue test `(now - timestamp) OP self.reissue_time`', covered=True)
        if need(isinstance(tn, str) and tn, 'identify: userid_typename literal', covered=True):
            v['userid_typename'] = tn
        if need(isinstance(ips, str) and ips, 'identify: default remote_addr literal', covered=True):
            v['default_ip'] = ips
        if need(isinstance(pipes, str) and len(pipes) == 1, "identify: user_data.split('|')", covered=True):
            v['pipe'] = pipes
    # ---- remember: same default ip, 'userid_type:%s'
    rem = m.find('AuthTktCookieHelper.remember')
    if need(rem is not None, 'remember missing'):
        ip2 = fmt = None
        for n in ast.walk(rem):
            if isinstance(n, ast.Assign) and len(n.targets) == 1:
                if isinstance(n.value, ast.Constant) and isinstance(n.value.value, str) \
                        and re.fullmatch(r'\d+(\.\d+){3}', n.value.value):
                    ip2 = n.value.value
                if isinstance(n.value, ast.BinOp) and isinstance(n.value.op, ast.Mod) \
                        and isinstance(n.value.left, ast.Constant) and isinstance(n.value.right, ast.Name):
                    fmt = n.value.left.value
        need(ip2 == v['default_ip'], 'remember: default remote_addr differs from identify', covered=True)
        need(fmt == v['userid_typename'] + '%s', "remember: user_data = 'userid_type:%s' % encoding", covered=True)
    # ---- cookie_value f-string
    cv = m.find('AuthTicket.cookie_value')
    ok = False
    if cv is not None:
        for n in ast.walk(cv):
            if isinstance(n, ast.FormattedValue) and ast.unparse(n.value) == 'int(self.time)' and n.format_spec is not None:
                spec = ''.join(x.value for x in n.format_spec.values if isinstance(x, ast.Constant))
                mm = re.fullmatch(r'(?:0(\d+))?x', spec)
                if mm:
                    v['ts_width'] = int(mm.group(1) or 0)
                    ok = True
        j = [n for n in ast.walk(cv) if isinstance(n, ast.Call) and isinstance(n.func, ast.Name) and n.func.id == 'quote']
        if need(len(j) == 1 and len(j[0].args) == 1 and not j[0].keywords, 'cookie_value: quote(self.userid) with default safe', covered=True):
            v['quote_safe'] = '/'
    need(ok, "cookie_value: f'{int(self.time):0Nx}' timestamp format", covered=True)
    init = m.find('AuthTicket.__init__')
    okj = False
    if init is not None:
        for n in ast.walk(init):
            if isinstance(n, ast.Assign) and ast.unparse(n.targets[0]) == 'self.tokens':
                c = n.value
                if isinstance(c, ast.Call) and isinstance(c.func, ast.Attribute) and c.func.attr == 'join' \
                        and isinstance(c.func.value, ast.Constant) and isinstance(c.func.value.value, str) \
                        and len(c.func.value.value) == 1:
                    v['comma'] = c.func.value.value
                    okj = True
    need(okj, "AuthTicket.__init__: self.tokens = ','.join(tokens)", covered=True)
    # ---- parse_ticket
    pt = m.find('parse_ticket')
    if need(pt is not None, 'parse_ticket missing'):
        mult = base = strip = dname = None
        widths, bangs, commas = set(), set(), set()
        for n in ast.walk(pt):
            if isinstance(n, ast.Assign) and isinstance(n.targets[0], ast.Name) and isinstance(n.value, ast.BinOp) \
                    and isinstance(n.value.op, ast.Mult) and isinstance(n.value.right, ast.Constant) \
                    and isinstance(n.value.left, ast.Attribute) and n.value.left.attr == 'digest_size' \
                    and ast.unparse(n.value.left.value).startswith('hashlib.new('):
                mult = n.value.right.value
                dname = n.targets[0].id
            if isinstance(n, ast.BinOp) and isinstance(n.op, ast.Add) and isinstance(n.left, ast.Name) \
                    and isinstance(n.right, ast.Constant) and isinstance(n.right.value, int):
                widths.add((n.left.id, n.right.value))
            if isinstance(n, ast.Call) and isinstance(n.func, ast.Name) and n.func.id == 'int' and len(n.args) == 2 \
                    and isinstance(n.args[1], ast.Constant):
                base = n.args[1].value
            if isinstance(n, ast.Call) and isinstance(n.func, ast.Attribute) and n.func.attr == 'strip' \
                    and len(n.args) == 1 and isinstance(n.args[0], ast.Constant):
                strip = n.args[0].value
            if isinstance(n, ast.Call) and isinstance(n.func, ast.Attribute) and n.func.attr == 'split':
                a = n.args
                if len(a) == 2 and isinstance(a[0], ast.Constant) and isinstance(a[1], ast.Constant) and a[1].value == 1:
                    bangs.add(a[0].value)
                elif len(a) == 1 and isinstance(a[0], ast.Constant):
                    commas.add(a[0].value)
            if isinstance(n, ast.Compare) and len(n.ops) == 1 and isinstance(n.ops[0], ast.In) \
                    and isinstance(n.left, ast.Constant):
                bangs.add(n.left.value)
        if need(isinstance(mult, int) and mult >= 0, 'parse_ticket: digest_size = hashlib.new(hashalg).digest_size * K', covered=True):
            v['digest_mult'] = mult
        widths = set(w for nm, w in widths if nm == dname)
        if need(len(widths) == 1 and all(isinstance(w, int) and w >= 0 for w in widths), 'parse_ticket: digest_size + W slices', covered=True):
            v['ts_field'] = widths.pop()
        if need(base in (10, 16), 'parse_ticket: int(..., 16)', covered=True):
            v['ts_base'] = base
        if need(isinstance(strip, str) and len(strip) == 1, "parse_ticket: strip('\"')", covered=True):
            v['strip_ch'] = strip
        if need(len(bangs) == 1 and all(isinstance(b, str) and len(b) == 1 for b in bangs), "parse_ticket: split('!', 1)", covered=True):
            v['bang'] = bangs.pop()
        need(commas == {v['comma']}, "parse_ticket: tokens.split(',') matches the join separator", covered=True)
    # ---- VALID_TOKEN
    try:
        e = m.const_expr('VALID_TOKEN')
        pat = e.args[0].value
        assert ast.unparse(e.func) == 're.compile' and len(e.args) == 1 and not e.keywords
        mm = re.fullmatch(r'\^\[([^\]]+)\]\[([^\]]+)\]\*(\$|\\Z)', pat)
        v['tok_first'] = _expand_class(mm.group(1))
        v['tok_rest'] = _expand_class(mm.group(2))
        v['tok_dollar'] = mm.group(3) == '$'
    except Exception as ex:
        problems.append('fact unrecognised: VALID_TOKEN pattern (%r)' % (ex,))
    # ---- encoder / decoder tables
    cls = m.find('AuthTktCookieHelper')
    decs = encs = None
    if cls is not None:
        for st in cls.body:
            if isinstance(st, ast.Assign) and len(st.targets) == 1 and isinstance(st.value, ast.Dict):
                if _name(st.targets[0], 'userid_type_decoders'):
                    decs = st.value
                if _name(st.targets[0], 'userid_type_encoders'):
                    encs = st.value
    if need(decs is not None, 'userid_type_decoders dict'):
        out = []
        for k, val in zip(decs.keys, decs.values):
            kind = _dec_kind(val)
            if not (isinstance(k, ast.Constant) and isinstance(k.value, str) and kind):
                problems.append('fact unrecognised: decoder entry %s' % ast.unparse(k))
                continue
            out.append((k.value, kind))
        v['decoders'] = out
    if need(encs is not None, 'userid_type_encoders dict'):
        seen = {}
        for k, val in zip(encs.keys, encs.values):
            if isinstance(k, ast.Name) and isinstance(val, ast.Tuple) and len(val.elts) == 2 \
                    and isinstance(val.elts[0], ast.Constant) and _enc_kind(val.elts[1]):
                seen[k.id] = (val.elts[0].value, _enc_kind(val.elts[1]))
            else:
                problems.append('fact unrecognised: encoder entry %s' % ast.unparse(k))
        if need(set(seen) == {'int', 'str', 'bytes'}, 'encoders for exactly int, str, bytes'):
            v['enc_int'], v['enc_str'], v['enc_bytes'] = seen['int'], seen['str'], seen['bytes']
    return v


def emit(v):
    t = F.coq_text
    lines = [F.HEADER, 'Require Import Verif.Lib.Text Verif.Lib.Percent Verif.Lib.Utf8 Verif.Lib.C09Base Verif.Model.C09_base.\n']
    lines.append('Definition timeout_cmp : cmpop := %s.\n' % v['timeout_cmp'])
    lines.append('Definition reissue_cmp : cmpop := %s.\n' % v['reissue_cmp'])
    for k in ('ts_width', 'ts_field', 'digest_mult'):
        lines.append('Definition %s : nat := %d.\n' % (k, v[k]))
    lines.append('Definition ts_base : N := %d%%N.\n' % v['ts_base'])
    for k in ('strip_ch', 'bang', 'comma', 'pipe'):
        lines.append('Definition %s : N := %d%%N.\n' % (k, ord(v[k])))
    for k in ('userid_typename', 'default_ip', 'quote_safe'):
        lines.append('Definition %s : text := %s.\n' % (k, t(v[k])))
    for k in ('tok_first', 'tok_rest'):
        lines.append('Definition %s : list N := [%s]%%N.\n' % (k, '; '.join(str(c) for c in v[k])))
    lines.append('Definition tok_dollar : bool := %s.\n' % F.coq_bool(v['tok_dollar']))
    for k in ('enc_int', 'enc_str', 'enc_bytes'):
        lines.append('Definition %s : text * enckind := (%s, %s).\n' % (k, t(v[k][0]), v[k][1]))
    lines.append('Definition decoders : list (text * deckind) := [%s].\n'
                 % '; '.join('(%s, %s)' % (t(a), b) for a, b in v['decoders']))
    return ''.join(lines)


# pinned: only what is NOT translated (harness/c09/translate.py regenerates the rest on every run)
PINS = {
    # (both constructors and the policy wrapper -- a second public entry point, also driven by the harness -- are
    # translated since the fifth round)
    AUTH: ['b64encode', 'b64decode', 'AuthTicket.__init__', 'BadTicket', 'BadTicket.__init__'],
    'pyramid/util.py': ['strings_differ', 'text_', 'bytes_', 'ascii_', 'SimpleSerializer.loads', 'SimpleSerializer.dumps'],
}


# ---- what the primitive table relies on outside function bodies: module-level bindings and class bodies
MODULE_BINDINGS = {
    # name -> the one statement that may bind it at module level (ast.unparse of that statement, or a prefix for defs)
    'base64': 'import base64', 'hashlib': 'import hashlib', 'time_mod': 'import time as time_mod',
    'warnings': 'import warnings', 're': 'import re',
    'utf_8_decode': 'from codecs import utf_8_decode, utf_8_encode', 'utf_8_encode': 'from codecs import utf_8_decode, utf_8_encode',
    'quote': 'from urllib.parse import quote, unquote', 'unquote': 'from urllib.parse import quote, unquote',
    'CookieProfile': 'from webob.cookies import CookieProfile',
    'SimpleSerializer': 'from pyramid.util import SimpleSerializer, ascii_, bytes_, strings_differ, text_',
    'ascii_': 'from pyramid.util import SimpleSerializer, ascii_, bytes_, strings_differ, text_',
    'bytes_': 'from pyramid.util import SimpleSerializer, ascii_, bytes_, strings_differ, text_',
    'strings_differ': 'from pyramid.util import SimpleSerializer, ascii_, bytes_, strings_differ, text_',
    'text_': 'from pyramid.util import SimpleSerializer, ascii_, bytes_, strings_differ, text_',
    'VALID_TOKEN': 'VALID_TOKEN = ', 'b64encode': 'def b64encode', 'b64decode': 'def b64decode',
    'AuthTicket': 'class AuthTicket', 'BadTicket': 'class BadTicket', 'parse_ticket': 'def parse_ticket',
    'calculate_digest': 'def calculate_digest', 'encode_ip_timestamp': 'def encode_ip_timestamp',
    'AuthTktCookieHelper': 'class AuthTktCookieHelper', 'AuthTktAuthenticationPolicy': '@implementer(IAuthenticationPolicy)\nclass AuthTktAuthenticationPolicy',
}
# class bodies without their methods and docstrings (class-level attributes the table relies on; the two userid tables
# are facts of their own), plus bases and decorators
CLASS_SKELETONS = {
    'AuthTicket': ('', []),
    'BadTicket': ('Exception', []),
    'AuthTktCookieHelper': ('', ['parse_ticket = staticmethod(parse_ticket)', 'AuthTicket = AuthTicket', 'BadTicket = BadTicket',
                                 'now = None', 'userid_type_decoders = <dict>', 'userid_type_encoders = <dict>']),
    'AuthTktAuthenticationPolicy': ('CallbackAuthenticationPolicy', []),
}
UTIL_BINDINGS = {'text_': 'def text_', 'bytes_': 'def bytes_', 'ascii_': 'def ascii_', 'strings_differ': 'def strings_differ',
                 'SimpleSerializer': 'class SimpleSerializer', 'compare_digest': 'from hmac import compare_digest'}


def _bound_names(st):
    if isinstance(st, (ast.Import, ast.ImportFrom)):
        return [(a.asname or a.name).split('.')[0] for a in st.names]
    if isinstance(st, (ast.FunctionDef, ast.ClassDef, ast.AsyncFunctionDef)):
        return [st.name]
    if isinstance(st, (ast.Assign, ast.AugAssign, ast.AnnAssign)):
        out = []
        for t in (st.targets if isinstance(st, ast.Assign) else [st.target]):
            out += [n.id for n in ast.walk(t) if isinstance(n, ast.Name)]
        return out
    if isinstance(st, (ast.If, ast.Try, ast.With, ast.For, ast.While)):
        out = []
        for ch in ast.walk(st):
            if ch is not st and isinstance(ch, (ast.Import, ast.ImportFrom, ast.FunctionDef, ast.ClassDef, ast.Assign)):
                out += _bound_names(ch)
        return out
    return []


def check_bindings(tree, expected, where, problems):
    seen = {}
    for st in tree.body:
        for nm in _bound_names(st):
            if nm in expected:
                seen.setdefault(nm, []).append(ast.unparse(st))
    for nm, want in expected.items():
        got = seen.get(nm, [])
        if len(got) != 1 or not got[0].startswith(want):
            problems.append('%s: module-level binding of %s is %s (the primitive table relies on `%s`)'
                            % (where, nm, [g.split('\n')[0][:60] for g in got] or 'missing', want.split('\n')[-1]))
    if any(isinstance(st, ast.ImportFrom) and any(a.name == '*' for a in st.names) for st in tree.body):
        problems.append('%s: star import' % where)


def check_skeletons(m, problems):
    for cname, (bases, attrs) in CLASS_SKELETONS.items():
        node = m.find(cname)
        if node is None or not isinstance(node, ast.ClassDef):
            problems.append('class %s missing' % cname)
            continue
        got_bases = ', '.join(ast.unparse(b) for b in node.bases)
        got = []
        for st in node.body:
            if isinstance(st, (ast.FunctionDef, ast.AsyncFunctionDef)):
                if st.decorator_list:
                    problems.append('class %s: decorated method %s' % (cname, st.name))
                continue
            if isinstance(st, ast.Expr) and isinstance(st.value, ast.Constant) and isinstance(st.value.value, str):
                continue
            if isinstance(st, ast.Assign) and isinstance(st.value, ast.Dict):
                got.append('%s = <dict>' % ast.unparse(st.targets[0]))
            else:
                got.append(ast.unparse(st))
        if got_bases != bases or got != attrs or node.keywords:
            problems.append('class %s: bases / class-level statements changed: (%s) %s' % (cname, got_bases, got))


def facts(src):
    from harness.c09 import translate
    problems = []
    summary = F.check_shapes(src, os.path.join(HERE, 'pins.json'), problems)
    v = extract(src, problems)
    soft = v.pop('_soft', [])
    summary.update({k: (val if not isinstance(val, list) or len(val) < 8 else '%d items' % len(val)) for k, val in v.items()})
    if soft:
        summary['facts kept at their default (covered by the regenerated program)'] = soft
    try:
        ma = F.Module(src, AUTH)
        check_bindings(ma.tree, MODULE_BINDINGS, AUTH, problems)
        check_skeletons(ma, problems)
        check_bindings(F.Module(src, 'pyramid/util.py').tree, UTIL_BINDINGS, 'pyramid/util.py', problems)
    except Exception as e:
        problems.append('bindings / class skeleton check failed: %r' % (e,))
    gen, tproblems, tsummary, _ = translate.translate_tree(src)
    problems += tproblems
    summary.update(tsummary)
    return {'coq': emit(v) + gen, 'summary': summary, 'problems': problems}


if __name__ == '__main__':
    import json
    import sys
    src = sys.argv[1]
    if len(sys.argv) > 2 and sys.argv[2] == 'pins':
        print(json.dumps(F.compute_pins(src, PINS), indent=1))
    else:
        r = facts(src)
        print(r['coq'])
        print(r['problems'])
