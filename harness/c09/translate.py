"""C09 translator: Python ast of the auth-ticket functions of src/pyramid/authentication.py -> Gallina
definitions gen_* emitted into coq/Gen/Facts_C09.v on every run (called from prop.facts).

Fail-closed: a statement outside the SUBSET, an expression outside the PRIMITIVE TABLE, a typing surprise
-> Problem; the caller records a broken tie and emits the stored fallback text (gen_fallback.json).

=== CONTROL FLOW (mechanical, continuation passing; nothing is looked up) ===============================
  block s1; s2; ..     the translation of s1 receives the rest of the block as its continuation
  x = e                let x_n := [e] in ..          (fresh name per assignment; reassignment may change type)
  x op= e              let x_n := [x op e] in ..
  if c: A else: B      branches that end in return/raise get no continuation; if both fall through the rest of
                       the block becomes a JOIN POINT  let k_n := fun v1 .. vm => <rest> in if [c] then <A; k_n ..>
                       else <B; k_n ..>  over the variables (and request state / dict entries) assigned in A or B;
                       `a and b` in a test is split into nested ifs, `not` swaps branches, a statically known
                       test (table) keeps one branch
  tests on optional values   `x is None`, `x is not None`, truthiness of an Optional -> match x with None => ..
                       | Some v => .. with x NARROWED to v in the non-None branch (also through a bool variable
                       that was assigned `x is not None`)
  try: <one assignment whose right side is a PARTIAL primitive raising E> except E: Hnd
                       match [prim] with Some v (or constructor pattern) => <rest> | None => <Hnd> end
  partial primitive outside try   its failure is the function's own `raise` result (Problem if it has none)
  for x in e: B        (fix loop_n (l : list _) (carried ..) {struct l} := match l with [] => <rest>
                       | x :: t => <B ; loop_n t carried'> end) [e] carried ;  carried = variables assigned in B
                       that exist before the loop (a `str` that the body turns into a decoded value enters as VStr)
  return e / raise X   the function's result constructors (per-function table below)
  def f(..) + request.add_response_callback(f)   one idiom (the closure text is compared with the reference shape)

=== PRIMITIVE TABLE (trusted) ==========================================================================
see PRIMS / the e_* methods: every entry names the Python leaf and the Gallina term it becomes.
"""
import ast
import json
import os

HERE = os.path.dirname(os.path.abspath(__file__))
AUTH = 'pyramid/authentication.py'


class Problem(Exception):
    pass


COQTY = {'text': 'text', 'bool': 'bool', 'oZ': 'option Z', 'otext': 'option text'}


def lit(s):
    if isinstance(s, bytes):
        cs = list(s)
    else:
        cs = [ord(c) for c in s]
    return '([' + '; '.join(str(c) for c in cs) + ']%N : text)' if cs else '([] : text)'


def U(node):
    return ast.unparse(node)


class V:
    """a translated value: Gallina term + type tag (+ compile-time structure for dicts / objects)"""
    def __init__(self, term, ty, extra=None):
        self.term, self.ty, self.extra = term, ty, extra

    def __repr__(self):
        return 'V(%s : %s)' % (self.term, self.ty)


# type tags: text bytes Z nat dbl(doubled Z: clock values) bool ip uval texts otext oZ cks st erased
# none (the literal None) opt:<ty> pair encpair deckind enckind tuple dict obj hasher


class Fn:
    """translation of one function"""

    def __init__(self, tr, name, node, params, ret, raises=None, uses_state=False):
        self.tr, self.name, self.node = tr, name, node
        self.params, self.ret, self.raises, self.uses_state = params, ret, raises, uses_state
        self.n = 0
        self.mode = 'plain'      # 'init': a constructor -- stores on self are collected, the end builds the record
        self.end = None          # env -> term for control reaching the end of the function (implicit `return None`)
        self.kwarg = None        # the value a `**kw` parameter stands for (policy wrappers), or None: not allowed

    def fresh(self, base):
        self.n += 1
        return '%s_%d' % (''.join(c for c in base if c.isalnum() or c == '_') or 'v', self.n)

    # ------------------------------------------------------------------ expressions
    def E(self, e, env):
        m = getattr(self, 'e_' + type(e).__name__, None)
        if m is None:
            raise Problem('%s: expression outside the table: %s' % (self.name, U(e)))
        return m(e, env)

    def e_Name(self, e, env):
        if e.id in env:
            return env[e.id]
        raise Problem('%s: unbound or out-of-table name %s' % (self.name, e.id))

    def e_Constant(self, e, env):
        v = e.value
        if v is None:
            return V('None', 'none')
        if v is True or v is False:
            return V('true' if v else 'false', 'bool')
        if isinstance(v, int):
            return V('%d%%Z' % v, 'Z')
        if isinstance(v, str):
            return V(lit(v), 'text')
        if isinstance(v, bytes):
            return V(lit(v), 'bytes')
        raise Problem('%s: constant %r' % (self.name, v))

    def e_Tuple(self, e, env):
        vs = [self.E(x, env) for x in e.elts]
        return V(None, 'tuple', vs)

    def e_List(self, e, env):
        vs = [self.E(x, env) for x in e.elts]
        if not vs:
            return V('([] : list text)', 'texts')
        return V(None, 'pylist', vs)

    def e_Dict(self, e, env):
        d = {}
        for k, v in zip(e.keys, e.values):
            if not (isinstance(k, ast.Constant) and isinstance(k.value, str)):
                raise Problem('%s: dict key %s' % (self.name, U(k)))
            d[k.value] = self.E(v, env)
        return V(None, 'dict', d)

    def e_BinOp(self, e, env):
        a, b = self.E(e.left, env), self.E(e.right, env)
        op = type(e.op)
        if op is ast.Add:
            if a.ty in ('text', 'bytes') and b.ty == a.ty:
                return V('(%s ++ %s)' % (a.term, b.term), a.ty)
            if a.ty == 'Z' and b.ty == 'Z':
                return V('(%s + %s)%%Z' % (a.term, b.term), 'Z')
            if a.ty == 'ip' and b.ty == 'text' and ('in', 58, a.term) in env.get('$facts', set()):
                return V('(ip6_text %s ++ %s)' % (a.term, b.term), 'text')          # ip + str (under ':' in ip)
            if a.ty == 'nat' and b.ty == 'Z' and isinstance(e.right, ast.Constant):
                return V('(%s + %d)%%nat' % (a.term, e.right.value), 'nat')
        if op is ast.Sub:
            if a.ty == 'dbl' and b.ty == 'Z':
                return V('(%s - 2 * %s)%%Z' % (a.term, b.term), 'dbl')
            if a.ty == 'Z' and b.ty == 'Z':
                return V('(%s - %s)%%Z' % (a.term, b.term), 'Z')
        if op is ast.Mult and a.ty == 'nat' and isinstance(e.right, ast.Constant) and isinstance(e.right.value, int):
            return V('(%s * %d)%%nat' % (a.term, e.right.value), 'nat')
        if op is ast.BitAnd and a.ty == 'Z' and b.ty == 'Z':
            return V('(Z.land %s %s)' % (a.term, b.term), 'Z')
        if op is ast.RShift and a.ty == 'Z' and b.ty == 'Z':
            return V('(Z.shiftr %s %s)' % (a.term, b.term), 'Z')
        if op is ast.Mod and a.ty == 'text' and isinstance(e.left, ast.Constant) and b.ty == 'text' \
                and e.left.value.endswith('%s') and e.left.value.count('%') == 1:
            return V('(%s ++ %s)' % (lit(e.left.value[:-2]), b.term), 'text')      # 'lit%s' % x
        raise Problem('%s: operator in %s (%s, %s)' % (self.name, U(e), a.ty, b.ty))

    def e_JoinedStr(self, e, env):
        parts = []
        for p in e.values:
            if isinstance(p, ast.Constant):
                parts.append(lit(p.value))
            elif isinstance(p, ast.FormattedValue) and p.conversion == -1:
                v = self.E(p.value, env)
                spec = ''
                if p.format_spec is not None:
                    if not all(isinstance(x, ast.Constant) for x in p.format_spec.values):
                        raise Problem('%s: format spec' % self.name)
                    spec = ''.join(x.value for x in p.format_spec.values)
                if spec == '' and v.ty == 'text':
                    parts.append(v.term)
                elif v.ty == 'Z' and len(spec) >= 3 and spec[0] == '0' and spec[-1] == 'x' and spec[1:-1].isdigit():
                    parts.append('(hex_pad %d (Z.to_N %s))' % (int(spec[1:-1]), v.term))   # format(n, '0Wx'), n >= 0
                elif v.ty == 'Z' and spec == 'x':
                    parts.append('(hex_pad 0 (Z.to_N %s))' % v.term)
                else:
                    raise Problem('%s: f-string field %s' % (self.name, U(p)))
            else:
                raise Problem('%s: f-string part' % self.name)
        return V('(' + ' ++ '.join(parts) + ')', 'text')

    def e_Compare(self, e, env):
        if len(e.ops) != 1:
            raise Problem('%s: chained comparison' % self.name)
        op, l, r = type(e.ops[0]), e.left, e.comparators[0]
        if op in (ast.In, ast.NotIn):
            a, b = self.E(l, env), self.E(r, env)
            if isinstance(l, ast.Constant) and isinstance(l.value, str) and len(l.value) == 1:
                if b.ty == 'text':
                    t = '(memN %d %s)' % (ord(l.value), b.term)
                elif b.ty == 'ip' and l.value == ':':
                    t = '(is_ip6 %s)' % b.term                                   # ':' in ip
                else:
                    raise Problem('%s: membership %s' % (self.name, U(e)))
                return V(t if op is ast.In else '(negb %s)' % t, 'bool', ('in', ord(l.value), b.term, op is ast.In))
            raise Problem('%s: membership %s' % (self.name, U(e)))
        a, b = self.E(l, env), self.E(r, env)
        # numbers; a clock value (dbl) against integers is compared on doubled values
        def dbl(v):
            return v.term if v.ty == 'dbl' else '(2 * %s)%%Z' % v.term
        if {a.ty, b.ty} <= {'Z', 'dbl'} and op in (ast.Lt, ast.LtE, ast.Gt, ast.GtE):
            x, y = (dbl(a), dbl(b)) if 'dbl' in (a.ty, b.ty) else (a.term, b.term)
            f = {ast.Lt: 'Z.ltb %s %s', ast.LtE: 'Z.leb %s %s', ast.Gt: 'Z.ltb %s %s', ast.GtE: 'Z.leb %s %s'}[op]
            if op in (ast.Gt, ast.GtE):
                x, y = y, x
            return V('(' + f % (x, y) + ')', 'bool')
        if a.ty == 'nat' and b.ty == 'Z' and op is ast.Gt and isinstance(r, ast.Constant):
            return V('(Nat.ltb %d %s)' % (r.value, a.term), 'bool', ('count>', r.value, a.extra))
        raise Problem('%s: comparison %s (%s, %s)' % (self.name, U(e), a.ty, b.ty))

    def e_Subscript(self, e, env):
        sl = e.slice
        if isinstance(sl, ast.Slice):
            v = self.E(e.value, env)
            if v.ty != 'text' or sl.step is not None:
                raise Problem('%s: slice %s' % (self.name, U(e)))
            lo = self.E(sl.lower, env) if sl.lower is not None else None
            hi = self.E(sl.upper, env) if sl.upper is not None else None
            for x in (lo, hi):
                if x is not None and x.ty != 'nat':
                    raise Problem('%s: slice bound %s' % (self.name, U(e)))
            if lo is None and hi is not None:
                return V('(firstn %s %s)' % (hi.term, v.term), 'text')              # s[:n]
            if lo is not None and hi is None:
                return V('(skipn %s %s)' % (lo.term, v.term), 'text')               # s[n:]
            if lo is not None and hi is not None:
                return V('(slice %s %s %s)' % (lo.term, hi.term, v.term), 'text')   # s[a:b]
            raise Problem('%s: slice %s' % (self.name, U(e)))
        v = self.E(e.value, env)
        if v.ty == 'identity' and isinstance(sl, ast.Constant) and sl.value in v.extra:
            return v.extra[sl.value]                                              # identity['userid'] ..
        if v.ty == 'erased' and v.term == 'environ' and isinstance(sl, ast.Constant) and sl.value == 'REMOTE_ADDR':
            return V('(remote_addr r)', 'ip')                                      # environ['REMOTE_ADDR']
        if v.ty == 'split1' and isinstance(sl, ast.Constant) and sl.value == 1:
            c, s, sterm = v.extra
            if ('count>1', c, sterm) in env.get('$facts', set()):
                return V('(snd (split1_tot %d %s))' % (c, sterm), 'text')           # s.split(c, 1)[1] when s.count(c) > 1
            raise Problem('%s: %s not dominated by a count test' % (self.name, U(e)))
        raise Problem('%s: subscript %s' % (self.name, U(e)))

    def e_Attribute(self, e, env):
        nar = env.get('$narrow', {})
        if (U(e.value), e.attr) in nar:
            return nar[(U(e.value), e.attr)]
        v = self.E(e.value, env)
        if v.ty == 'hasher' and e.attr == 'digest_size':
            return V('(dsz %s)' % v.extra[0], 'nat')                               # hashlib.new(alg).digest_size
        key = (v.ty if v.ty in ('erased', 'obj') else None, v.term if v.ty == 'erased' else None, e.attr)
        if v.ty == 'erased':
            t = self.tr.attrs.get((v.term, e.attr))
            if t is not None:
                return V(t[0], t[1], t[2] if len(t) > 2 else None)
        if v.ty == 'obj' and e.attr in v.extra:
            return v.extra[e.attr]
        raise Problem('%s: attribute %s' % (self.name, U(e)))

    def e_IfExp(self, e, env):
        # only `A if x is None else B` / `.. is not None ..` on an optional: match with narrowing
        t = e.test
        if isinstance(t, ast.Compare) and len(t.ops) == 1 and isinstance(t.ops[0], (ast.Is, ast.IsNot)) \
                and isinstance(t.comparators[0], ast.Constant) and t.comparators[0].value is None \
                and isinstance(t.left, ast.Name):
            x = self.E(t.left, env)
            if x.ty.startswith('o') and x.ty in ('oZ', 'otext'):
                inner = x.ty[1:]
                nv = self.fresh(t.left.id)
                env2 = dict(env)
                env2[t.left.id] = V(nv, inner)
                none_e, some_e = (e.body, e.orelse) if isinstance(t.ops[0], ast.Is) else (e.orelse, e.body)
                a = self.E(none_e, env)
                b = self.E(some_e, env2)
                a, b = self.unify(a, b)
                return V('(match %s with None => %s | Some %s => %s end)' % (x.term, a.term, nv, b.term), a.ty)
        raise Problem('%s: conditional expression %s' % (self.name, U(e)))

    def unify(self, a, b):
        if a.ty == b.ty:
            return a, b
        def up(v, ty):
            if v.ty == 'none' and ty.startswith('o'):
                return V('None', ty)
            if ty == 'o' + v.ty:
                return V('(Some %s)' % v.term, ty)
            if v.ty == 'text' and ty == 'ip':
                return V('(ip_lit %s)' % v.term, 'ip')
            if v.ty == 'text' and ty == 'uval':
                return V('(VStr %s)' % v.term, 'uval')
            if v.ty == 'uval' and ty == 'uarg':
                return V('(UKnown %s)' % v.term, 'uarg')       # a value of one of the three table types
            if v.ty == 'uarg' and ty == 'uval':
                return V('(uarg_val %s)' % v.term, 'uval')
            return None
        for ty in (a.ty, b.ty, 'o' + a.ty, 'o' + b.ty):
            x, y = (a if a.ty == ty else up(a, ty)), (b if b.ty == ty else up(b, ty))
            if x is not None and y is not None:
                return x, y
        raise Problem('%s: branches give %s and %s' % (self.name, a.ty, b.ty))

    def coerce(self, v, ty):
        if v.ty == ty:
            return v
        if (v.ty, ty) == ('uval', 'uarg'):
            return V('(UKnown %s)' % v.term, 'uarg')
        if (v.ty, ty) == ('uarg', 'uval'):
            return V('(uarg_val %s)' % v.term, 'uval')
        a, _ = self.unify(v, V('_', ty))
        if a.ty != ty:
            raise Problem('%s: %s where %s is needed' % (self.name, v.ty, ty))
        return a

    def e_Call(self, e, env):
        return self.tr.call(self, e, env)

    # ------------------------------------------------------------------ statements
    def falls(self, body):
        """does control reach the end of this block?"""
        for s in body:
            if isinstance(s, (ast.Return, ast.Raise, ast.Continue)):
                return False
            if isinstance(s, ast.If) and not self.falls(s.body) and not self.falls(s.orelse):
                return False
            if isinstance(s, ast.Try) and not self.falls(s.body) and all(not self.falls(h.body) for h in s.handlers):
                return False
        return True

    def assigned(self, body, acc=None):
        acc = [] if acc is None else acc
        for s in body:
            if isinstance(s, ast.Assign):
                for t in s.targets:
                    self.targets(t, acc)
            elif isinstance(s, ast.AugAssign):
                self.targets(s.target, acc)
            elif isinstance(s, (ast.If,)):
                self.assigned(s.body, acc)
                self.assigned(s.orelse, acc)
            elif isinstance(s, ast.Try):
                self.assigned(s.body, acc)
                for h in s.handlers:
                    self.assigned(h.body, acc)
            elif isinstance(s, ast.For):
                self.assigned(s.body, acc)
            elif isinstance(s, ast.Delete):
                for t in s.targets:
                    self.targets(t, acc)
            elif isinstance(s, ast.Expr) and isinstance(s.value, ast.Call) and isinstance(s.value.func, ast.Attribute) \
                    and isinstance(s.value.func.value, ast.Name):
                if s.value.func.attr in ('append', 'update'):
                    if s.value.func.value.id not in acc:
                        acc.append(s.value.func.value.id)
                if s.value.func.attr == 'add_response_callback' and '$st' not in acc:
                    acc.append('$st')
        return acc

    def targets(self, t, acc):
        if isinstance(t, ast.Name):
            if t.id not in acc:
                acc.append(t.id)
        elif isinstance(t, ast.Tuple):
            for x in t.elts:
                self.targets(x, acc)
        elif isinstance(t, ast.Subscript) and isinstance(t.value, ast.Name):
            nm = t.value.id
            if isinstance(t.slice, ast.Constant) and isinstance(t.slice.value, str):
                nm = '%s.%s' % (t.value.id, t.slice.value)          # dict entry as a pseudo-variable
            if nm not in acc:
                acc.append(nm)
        elif isinstance(t, ast.Attribute) and isinstance(t.value, ast.Name) and t.value.id in ('request',):
            if '$st' not in acc:
                acc.append('$st')

    def block(self, body, env, k):
        """k(env) -> term for falling off the end"""
        if not body:
            return k(env)
        s, rest = body[0], body[1:]
        m = getattr(self, 's_' + type(s).__name__, None)
        if m is None:
            raise Problem('%s: statement outside the subset: %s' % (self.name, U(s).split('\n')[0]))
        return m(s, rest, env, k)

    def bind(self, env, name, v, body_of):
        """let name_n := v in body_of(env')   (compile-time values are just rebound)"""
        env = dict(env)
        if v.ty == 'dict':
            for kk in [x for x in env if x.startswith(name + '.')]:
                del env[kk]
            for kk, vv in v.extra.items():
                env['%s.%s' % (name, kk)] = vv
        if v.term is None or v.ty in ('erased', 'none', 'dict', 'obj', 'tuple', 'pylist', 'hasher', 'split1', 'optalias', 'identity', 'kwpair'):
            env[name] = v
            return body_of(env)
        if v.term.isidentifier() or v.term in ('true', 'false'):
            env[name] = v
            return body_of(env)
        n = self.fresh(name)
        env[name] = V(n, v.ty, v.extra)
        return '(let %s := %s in\n %s)' % (n, v.term, body_of(env))

    def s_Pass(self, s, rest, env, k):
        return self.block(rest, env, k)

    def s_Expr(self, s, rest, env, k):
        if isinstance(s.value, ast.Constant) and isinstance(s.value.value, str):
            return self.block(rest, env, k)           # docstring
        return self.tr.expr_stmt(self, s, rest, env, k)

    def s_Assign(self, s, rest, env, k):
        if len(s.targets) != 1:
            raise Problem('%s: multiple assignment' % self.name)
        return self.assign(s.targets[0], s.value, rest, env, k, None)

    def s_AugAssign(self, s, rest, env, k):
        if not isinstance(s.target, ast.Name) or not isinstance(s.op, ast.Add):
            raise Problem('%s: augmented assignment %s' % (self.name, U(s)))
        val = ast.BinOp(left=ast.Name(id=s.target.id, ctx=ast.Load()), op=ast.Add(), right=s.value)
        return self.assign(s.target, val, rest, env, k, None)

    def assign(self, target, value, rest, env, k, handler):
        """handler: (exception names, term builder) of an enclosing try, or None"""
        if isinstance(target, ast.Attribute) or isinstance(target, ast.Subscript):
            return self.tr.store(self, target, value, rest, env, k)
        if isinstance(target, ast.Name) and isinstance(value, ast.Compare) and len(value.ops) == 1 \
                and isinstance(value.ops[0], ast.IsNot) and isinstance(value.comparators[0], ast.Constant) \
                and value.comparators[0].value is None:
            nt = self.tr.narrow_test(self, value, env)
            if nt is None:
                raise Problem('%s: %s' % (self.name, U(value)))
            env2 = dict(env)
            env2[target.id] = V(None, 'optalias', nt)          # a bool that stands for `x is not None`
            return self.block(rest, env2, k)
        if isinstance(value, ast.Call) and U(value.func) == 'self.cookie.identify' and isinstance(target, ast.Name) \
                and len(value.args) == 1 and not value.keywords and U(value.args[0]) == 'request' and '$st' in env:
            # result = self.cookie.identify(request): None | the identity dict | it raised
            st2, ts, u, tk, ud = [self.fresh(x) for x in ('st', 'ts', 'u', 'tk', 'ud')]
            envS, envN, envR = dict(env), dict(env), dict(env)
            for e2 in (envS, envN, envR):
                e2['$st'] = V(st2, 'st')
            envS[target.id] = V(None, 'identity', {'timestamp': V(ts, 'Z'), 'userid': V(u, 'uval'),
                                                   'tokens': V(tk, 'texts'), 'userdata': V(ud, 'text')})
            envN[target.id] = V('None', 'none')
            return ('(match (gen_identify c %s %s) with\n | (%s, ISome %s %s %s %s) => %s\n | (%s, INone) => %s\n | (%s, IRaise) => %s end)'
                    % (env['$r'].term, env['$st'].term, st2, ts, u, tk, ud, self.block(rest, envS, k),
                       st2, self.block(rest, envN, k), st2, self.raise_term('Exception', envR)))
        part = self.tr.partial(self, value, env)           # partial primitive? -> (scrutinee, pattern, bindings, exc)
        if part is not None:
            scrut, pat, binds, exc = part(target)
            if handler is not None and (exc in handler[0] or 'Exception' in handler[0]):
                fail = handler[1](env)
            else:
                fail = self.raise_term(exc, env)
            env2 = dict(env)
            for nm, v in binds.items():
                env2[nm] = v
            return '(match %s with\n | %s => %s\n | %s => %s end)' % (
                scrut, pat, self.block(rest, env2, k), '_', fail)
        if isinstance(value, ast.Call) and U(value.func) == 'time_mod.time' and not value.args and not value.keywords \
                and isinstance(target, ast.Name):
            # one reading of the clock: the value now, every later reading through (later ..)
            R = env['$r'].term
            env = dict(env)
            env['$r'] = V('(later %s)' % R, 'req')
            return self.bind(env, target.id, V('(now2 %s)' % R, 'dbl', R), lambda e2: self.block(rest, e2, k))
        v = self.E(value, env)
        if v.ty == 'obj' and v.extra.get('$clock'):
            env = dict(env)
            env['$r'] = V('(later %s)' % env['$r'].term, 'req')      # AuthTicket() without time= reads the clock
        if isinstance(target, ast.Name):
            return self.bind(env, target.id, v, lambda e2: self.block(rest, e2, k))
        if isinstance(target, ast.Tuple) and all(isinstance(x, ast.Name) for x in target.elts):
            return self.tr.unpack(self, target, v, rest, env, k)
        raise Problem('%s: assignment target %s' % (self.name, U(target)))

    def raise_term(self, exc, env):
        if self.raises is None:
            raise Problem('%s: an uncaught %s is possible here and the function has no modelled raise' % (self.name, exc))
        return self.raises(exc, env)

    def s_Return(self, s, rest, env, k):
        v = self.E(s.value, env) if s.value is not None else V('None', 'none')
        return self.ret(self, v, env, s.value)

    def s_Raise(self, s, rest, env, k):
        exc = s.exc
        name = None
        if isinstance(exc, ast.Call):
            name = U(exc.func).split('.')[-1]
        return self.raise_term(name or 'Exception', env)

    def s_Try(self, s, rest, env, k):
        if s.orelse or s.finalbody or len(s.body) != 1 or not isinstance(s.body[0], ast.Assign) or len(s.handlers) != 1:
            raise Problem('%s: try statement outside the subset' % self.name)
        h = s.handlers[0]
        names = [U(h.type).split('.')[-1]] if h.type is not None else ['Exception']
        if self.falls(h.body):
            raise Problem('%s: except handler that falls through' % self.name)
        handler = (names, lambda e2: self.block(h.body, e2, lambda e3: '?'))
        a = s.body[0]
        if self.tr.partial(self, a.value, env) is None:
            raise Problem('%s: try around a total expression: %s' % (self.name, U(a.value)))
        return self.assign(a.targets[0], a.value, rest, env, k, handler)

    # ---- if
    def s_If(self, s, rest, env, k):
        return self.cond(s.test, s.body, s.orelse, rest, env, k)

    def cond(self, test, A, B, rest, env, k):
        # not / and / or splitting
        if isinstance(test, ast.UnaryOp) and isinstance(test.op, ast.Not):
            return self.cond(test.operand, B, A, rest, env, k)
        if isinstance(test, ast.BoolOp) and isinstance(test.op, ast.And):
            # if a and b: A else: B   ==   if a: (if b: A else: B) else: B
            inner = ast.If(test=test.values[1] if len(test.values) == 2 else ast.BoolOp(op=ast.And(), values=test.values[1:]),
                           body=A or [ast.Pass()], orelse=B)
            return self.cond(test.values[0], [inner], B, rest, env, k)
        if isinstance(test, ast.BoolOp) and isinstance(test.op, ast.Or):
            inner = ast.If(test=test.values[1] if len(test.values) == 2 else ast.BoolOp(op=ast.Or(), values=test.values[1:]),
                           body=A, orelse=B)
            return self.cond(test.values[0], A, [inner], rest, env, k)
        fa, fb = self.falls(A), self.falls(B)
        if fa and fb and rest:
            # JOIN POINT over what the branches assign: first pass records the arrivals, second emits
            names = self.assigned(A + B)
            arrivals = []

            def krec(e2):
                arrivals.append(e2)
                return '?'
            saved = self.n
            self.cond_core(test, A, B, env, krec)
            self.n = saved
            if not arrivals:
                raise Problem('%s: join without arrivals' % self.name)
            if len(set(e2['$r'].term for e2 in arrivals)) != 1:
                raise Problem('%s: the clock is read on only one branch of a conditional' % self.name)
            def get(e2, n):
                if n in e2:
                    return e2[n]
                return V('None', 'none') if '.' in n else None       # an absent dict entry
            common = [n for n in names
                      if all(get(e2, n) is not None and (self.joinable(get(e2, n)) or get(e2, n).ty == 'none')
                             for e2 in arrivals) and any(get(e2, n).ty != 'none' for e2 in arrivals)]
            ptys = {}
            for n in common:
                ty = get(arrivals[0], n).ty
                for e2 in arrivals[1:]:
                    ty = self.unify(V('_', ty), V('_', get(e2, n).ty))[0].ty
                ptys[n] = ty
            kn = self.fresh('k')

            def kjoin(e2):
                args = [self.coerce(get(e2, n), ptys[n]).term for n in common]
                return '(%s%s)' % (kn, ''.join(' ' + a for a in args) or ' tt')
            t_then_else = self.cond_core(test, A, B, env, kjoin)
            env2 = dict(env)
            env2.pop('$facts', None)
            env2['$r'] = arrivals[0]['$r']
            for n in names:                       # compile-time values (dicts ..) must agree to survive
                if n not in common:
                    vals = [e2.get(n) for e2 in arrivals]
                    if all(v is not None and v.ty == 'dict' for v in vals):
                        env2[n] = self.join_dicts(vals, arrivals, env)
                    elif n in env2 and any(e2.get(n) is not env.get(n) for e2 in arrivals):
                        del env2[n]
            params = []
            for n in common:
                pn = self.fresh(n.strip('$'))
                env2[n] = V(pn, ptys[n])
                params.append(pn)
            body = self.block(rest, env2, k)
            return '(let %s := fun %s => %s in\n %s)' % (kn, ' '.join(params) or '(_ : unit)', body, t_then_else)
        return self.cond_core(test, A + (rest if fa else []), B + (rest if fb else []), env, k)

    def join_dicts(self, vals, arrivals, env):
        raise Problem('%s: a dict is modified under a condition in a way the table does not cover' % self.name)

    def joinable(self, v):
        return v.term is not None and v.ty not in ('erased', 'dict', 'obj', 'tuple', 'pylist', 'hasher', 'split1', 'none', 'optalias',
                                                   'identity', 'kwpair')

    def cond_core(self, test, A, B, env, k):
        """test is atomic here"""
        st = self.tr.static_test(self, test, env)
        if st is True:
            return self.block(A, env, k)
        if st is False:
            return self.block(B, env, k)
        nar = self.tr.narrow_test(self, test, env)        # (scrutinee, inner type, rebinding(env, var), truthy-extra, none_is_true)
        if nar is not None:
            scrut, inner, rebind, extra_cond, none_branch_is_A = nar
            nv = self.fresh('v')
            envS = rebind(dict(env), V(nv, inner))
            some_body, none_body = (B, A) if none_branch_is_A else (A, B)
            if extra_cond is not None:
                t_some = '(if %s then %s else %s)' % (extra_cond(nv), self.block(some_body, envS, k), self.block(none_body, envS, k))
            else:
                t_some = self.block(some_body, envS, k)
            return '(match %s with\n | Some %s => %s\n | None => %s end)' % (scrut, nv, t_some, self.block(none_body, env, k))
        c = self.E(test, env)
        if c.ty == 'text':
            c = V('(nonempty %s)' % c.term, 'bool')                             # truthiness of a str
        if c.ty != 'bool':
            raise Problem('%s: test %s of type %s' % (self.name, U(test), c.ty))
        envA, envB = dict(env), dict(env)
        if c.extra and c.extra[0] == 'in':
            tgt = envA if c.extra[3] else envB
            tgt['$facts'] = set(env.get('$facts', set())) | {('in', c.extra[1], c.extra[2])}
        if c.extra and c.extra[0] == 'count>' and c.extra[1] == 1 and c.extra[2]:
            envA['$facts'] = set(env.get('$facts', set())) | {('count>1',) + tuple(c.extra[2])}
        return '(if %s then %s else %s)' % (c.term, self.block(A, envA, k), self.block(B, envB, k))

    # ---- for
    def s_For(self, s, rest, env, k):
        if s.orelse or not isinstance(s.target, ast.Name):
            raise Problem('%s: for statement outside the subset' % self.name)
        it = self.E(s.iter, env)
        if it.ty != 'texts':
            raise Problem('%s: loop over %s' % (self.name, it.ty))
        carried = [n for n in self.assigned(s.body) if n in env and n != s.target.id]
        return self.loop(s, rest, env, k, it, carried, {})

    def loop(self, s, rest, env, k, it, carried, force):
        ln, l, x, t = self.fresh('loop'), self.fresh('l'), self.fresh(s.target.id), self.fresh('t')
        envL = dict(env)
        envL.pop('$facts', None)
        params = []
        for n in carried:
            v = env[n]
            ty = force.get(n, v.ty)
            pn = self.fresh(n.strip('$'))
            envL[n] = V(pn, ty)
            params.append((n, pn, ty))
        # names first assigned in the body are local to one iteration
        envB = dict(envL)
        envB[s.target.id] = V(x, 'text')
        retry = {}

        def kbody(e2):
            if e2['$r'].term != envB['$r'].term:
                raise Problem('%s: the clock is read inside a loop' % self.name)
            args = []
            for n, pn, ty in params:
                v = e2[n]
                if v.ty != ty:
                    try:
                        v = self.coerce(v, ty)
                    except Problem:
                        retry[n] = v.ty
                        return '?'
                args.append(v.term)
            return '(%s %s%s)' % (ln, t, ''.join(' ' + a for a in args))
        self._loopk = getattr(self, '_loopk', []) + [kbody]
        try:
            body = self.block(s.body, envB, kbody)
        finally:
            self._loopk = self._loopk[:-1]
        if retry:
            if force:
                raise Problem('%s: loop-carried variable changes type' % self.name)
            return self.loop(s, rest, env, k, it, carried, retry)
        envR = dict(envL)
        for n in list(envR):
            if n not in env:
                del envR[n]
        after = self.block(rest, envR, k)
        inits = [self.coerce(env[n], ty).term for n, pn, ty in params]
        return '((fix %s (%s : list text)%s {struct %s} :=\n match %s with\n | [] => %s\n | %s :: %s => %s\n end) %s%s)' % (
            ln, l, ''.join(' %s' % pn for n, pn, ty in params), l, l, after, x, t, body, it.term,
            ''.join(' ' + i for i in inits))

    def s_Continue(self, s, rest, env, k):
        if not getattr(self, '_loopk', None):
            raise Problem('%s: continue outside a loop' % self.name)
        return self._loopk[-1](env)

    def s_FunctionDef(self, s, rest, env, k):
        return self.tr.nested_def(self, s, rest, env, k)

    def s_Delete(self, s, rest, env, k):
        return self.tr.delete(self, s, rest, env, k)

    # ------------------------------------------------------------------ whole function
    def translate(self):
        env = {}
        args = self.node.args
        pos = [a.arg for a in args.args]
        if args.vararg or args.kwonlyargs or args.posonlyargs or (args.kwarg and self.kwarg is None) \
                or (self.kwarg is not None and not args.kwarg) or any(d is not None for d in args.kw_defaults):
            raise Problem('%s: signature' % self.name)
        if args.kwarg:
            env[args.kwarg.arg] = self.kwarg
        if len(pos) != len(self.params):
            raise Problem('%s: %d parameters, table expects %d' % (self.name, len(pos), len(self.params)))
        for nm, (term, ty) in zip(pos, self.params):
            env[nm] = V(term, ty)
        if self.uses_state:
            env['$st'] = V('st', 'st')
        env['$r'] = V('r', 'req')            # the request as the clock shows it now (bumped by every clock reading)
        env['$facts'] = set()
        if self.node.decorator_list:
            raise Problem('%s: decorated' % self.name)

        def end(e2):
            if self.end is not None:
                return self.end(e2)
            raise Problem('%s: control reaches the end of the function' % self.name)
        return self.block(self.node.body, env, end)

    def translate_init(self, types):
        """a constructor: -> (header, body).  Parameters are typed BY NAME through `types` (erased ones are dropped from
        the header); the generated function takes them in the SOURCE's order; `self.x = e` stores are collected and
        self.end builds the result from them."""
        args = self.node.args
        names = [a.arg for a in args.args]
        if not names or names[0] != 'self' or args.vararg or args.kwarg or args.kwonlyargs or args.posonlyargs \
                or self.node.decorator_list:
            raise Problem('%s: signature' % self.name)
        env = {'self': V('self', 'erased'), '$r': V('r', 'req'), '$facts': set()}
        header = []
        for nm in names[1:]:
            ty = types.get(nm)
            if ty is None:
                raise Problem('%s: parameter %s is outside the table' % (self.name, nm))
            if ty == 'erased':
                env[nm] = V(nm, 'erased')
                continue
            env[nm] = V('a_' + nm, ty)
            header.append('(a_%s : %s)' % (nm, COQTY[ty]))
        self.mode = 'init'

        def end(e2):
            return self.end(e2)
        return ' '.join(header) + ' : cfg * ck', self.block(self.node.body, env, end)

    def defaults_call(self, types, gname):
        """(gname a_secret <the literal defaults of the other parameters, in the source's order>)"""
        args = self.node.args
        names = [a.arg for a in args.args][1:]
        dfl = dict(zip(reversed(names), reversed(args.defaults)))
        out = []
        for nm in names:
            ty = types.get(nm)
            if ty == 'erased':
                continue
            if nm not in dfl:
                if nm != 'secret':
                    raise Problem('%s: parameter %s has no default' % (self.name, nm))
                out.append('a_secret')
                continue
            if not isinstance(dfl[nm], ast.Constant):
                raise Problem('%s: computed default %s=%s' % (self.name, nm, U(dfl[nm])))
            out.append(self.coerce(self.E(dfl[nm], {}), ty).term)
        return '(%s %s)' % (gname, ' '.join(out))


# ====================================================================== the primitive table
class Tr:
    def __init__(self, module):
        self.m = module
        # attributes of erased objects:  (object tag, attribute) -> (term, type[, extra])
        self.attrs = {
            ('self', 'secret'): ('(secret c)', 'text'), ('self', 'cookie_name'): ('(cookie_name c)', 'text'),
            ('self', 'hashalg'): ('(hashalg c)', 'text'), ('self', 'include_ip'): ('(include_ip c)', 'bool'),
            ('self', 'timeout'): ('(timeout c)', 'oZ'), ('self', 'reissue_time'): ('(reissue_time c)', 'oZ'),
            ('self', 'max_age'): ('(max_age c)', 'oZ'), ('self', 'domain'): ('(domain c)', 'otext'),
            ('self', 'parent_domain'): ('(parent_domain c)', 'bool'), ('self', 'wild_domain'): ('(wild_domain c)', 'bool'),
            ('self', 'secure'): ('(secure c)', 'bool'),
            ('self', 'now'): ('None', 'none'),        # test seam: the harness sets it to the same clock or leaves None
            ('request', 'environ'): ('environ', 'erased'),
            ('request', 'domain'): ('(cur_domain r)', 'text'),
            # AuthTicket instance (fields assigned in the pinned __init__)
            ('ticket', 'secret'): ('sec', 'text'), ('ticket', 'userid'): ('userid', 'text'), ('ticket', 'ip'): ('ip', 'ip'),
            ('ticket', 'tokens'): ('(join [comma] toks)', 'text'), ('ticket', 'user_data'): ('ud', 'text'),
            ('ticket', 'time'): ('(Z.of_N t)', 'Z'), ('ticket', 'hashalg'): ('alg', 'text'),
        }

    # ------------------------------------------------------------------ calls (total primitives)
    def call(self, fn, e, env):
        f = e.func
        args = e.args
        kw = {k.arg: k.value for k in e.keywords}
        src = U(f)
        A = lambda i: fn.E(args[i], env)
        if isinstance(f, ast.Name):
            nm = f.id
            if nm in env:
                raise Problem('%s: call of the local name %s (it shadows a table entry)' % (fn.name, nm))
            if nm == 'int' and len(args) == 1 and not kw:
                v = A(0)
                if v.ty == 'Z':
                    return v                                              # int(<int>)
                if v.ty == 'dbl' and v.extra:
                    return V('(now %s)' % v.extra, 'Z')                    # int(time()): floor of the clock
            if nm == 'str' and len(args) == 1 and A(0).ty == 'Z':
                return V('(dec_of_Z %s)' % A(0).term, 'text')             # str(<int>)
            if nm == 'str' and len(args) == 1 and A(0).ty == 'uarg':
                return V('(VStr (str_other %s))' % A(0).term, 'uval')     # str(<object of a type outside the table>)
            if nm == 'int' and len(args) == 1 and not kw and A(0).ty == 'Z':
                return A(0)
            if nm == 'len' and len(args) == 1 and A(0).ty == 'text':
                return V('(length %s)' % A(0).term, 'nat')
            if nm in ('bytes_',) and len(args) in (1, 2):
                v = A(0)
                if len(args) == 2:
                    if not (isinstance(args[1], ast.Constant) and args[1].value == 'utf-8'):
                        raise Problem('%s: bytes_ encoding %s' % (fn.name, U(args[1])))
                    if v.ty == 'text':
                        return V('(encode %s)' % v.term, 'bytes')          # bytes_(s, 'utf-8')
                    if v.ty == 'bytes':
                        return v
                elif v.ty in ('text', 'bytes'):
                    return V(v.term, 'bytes')                               # bytes_(s): latin-1 of code points < 256
            if nm == 'text_' and len(args) == 1 and A(0).ty == 'text':
                return A(0)                                                 # text_(str)
            if nm == 'unquote' and len(args) == 1 and not kw and A(0).ty == 'text':
                return V('(unquote_str %s)' % A(0).term, 'text')
            if nm == 'quote' and len(args) == 1 and not kw and A(0).ty == 'text':
                return V('(quote_str [47]%%N %s)' % A(0).term, 'text')      # default safe='/'
            if nm == 'strings_differ' and len(args) == 2:
                return V('(strings_differ %s %s)' % (A(0).term, A(1).term), 'bool')
            if nm == 'calculate_digest' and len(args) == 7 and not kw:
                vs = [A(i) for i in range(7)]
                return V('(gen_calculate_digest %s)' % ' '.join(v.term for v in vs), 'text')
            if nm == 'encode_ip_timestamp' and len(args) == 2:
                return V('(gen_encode_ip_timestamp %s %s)' % (A(0).term, A(1).term), 'bytes')
            if nm == 'hasattr' and len(args) == 2 and isinstance(args[1], ast.Constant) and A(0).term == 'request':
                st = env['$st'].term
                if args[1].value == '_authtkt_reissued':
                    return V('(reissued %s)' % st, 'bool')
                if args[1].value == '_authtkt_reissue_revoked':
                    return V('(revoked %s)' % st, 'bool')
            if nm == 'filter' and len(args) == 2 and isinstance(args[0], ast.Constant) and args[0].value is None \
                    and A(1).ty == 'texts':
                return V('(filter nonempty %s)' % A(1).term, 'texts')      # filter(None, <list of str>)
            if nm in ('list', 'tuple') and len(args) == 1 and A(0).ty == 'texts':
                return A(0)
            if nm == 'isinstance' and len(args) == 2 and U(args[1]) == 'str' and A(0).ty == 'text':
                return V('true', 'bool', ('static', True))
            if nm == 'type' and len(args) == 1 and A(0).ty in ('uval', 'uarg'):
                return V(A(0).term, 'typeof', A(0).ty)
            if nm == 'AuthTktCookieHelper' and fn.mode == 'init':
                return self.helper_call(fn, e, env)
            if nm == 'CookieProfile' and fn.mode == 'init' and not args:
                want = {'cookie_name': 'text', 'secure': 'bool', 'max_age': 'oZ', 'httponly': 'bool', 'path': 'text',
                        'samesite': 'otext'}
                if set(kw) != set(want) | {'serializer'} or U(kw['serializer']) != 'SimpleSerializer()':
                    raise Problem('%s: CookieProfile keywords %s' % (fn.name, sorted(kw)))
                return V(None, 'obj', {k2: fn.coerce(fn.E(kw[k2], env), ty) for k2, ty in want.items()})
        if isinstance(f, ast.Attribute):
            recv = f.value
            meth = f.attr
            root = f
            while isinstance(root, ast.Attribute):
                root = root.value
            if isinstance(root, ast.Name) and root.id in ('hashlib', 'time_mod', 'warnings', 'VALID_TOKEN') and root.id in env:
                raise Problem('%s: the local name %s shadows a module the table relies on' % (fn.name, root.id))
            # ''.join(map(chr, X))
            if meth == 'join' and isinstance(recv, ast.Constant) and recv.value == '' and len(args) == 1 \
                    and isinstance(args[0], ast.Call) and U(args[0].func) == 'map' and U(args[0].args[0]) == 'chr':
                inner = args[0].args[1]
                if isinstance(inner, ast.Call) and U(inner.func) == 'map' and U(inner.args[0]) == 'int' \
                        and isinstance(inner.args[1], ast.Call) and isinstance(inner.args[1].func, ast.Attribute) \
                        and inner.args[1].func.attr == 'split' and U(inner.args[1].args[0]) == "'.'":
                    ip = fn.E(inner.args[1].func.value, env)
                    if ip.ty == 'ip':
                        return V('(ip4_parts %s)' % ip.term, 'bytes')      # ''.join(map(chr, map(int, ip.split('.'))))
                v = fn.E(inner, env)
                if v.ty == 'tuple' and all(x.ty == 'Z' for x in v.extra):
                    return V('[%s]' % '; '.join('Z.to_N %s' % x.term for x in v.extra), 'bytes')
            if src == 'hashlib.new' and len(args) == 1:
                return V(None, 'hasher', (A(0).term, None))
            if src == 'time_mod.time' and not args:
                raise Problem('%s: a clock reading must be the whole right side of an assignment' % fn.name)
            if src == 'request.cookies.get' and len(args) == 1 and A(0).term == '(cookie_name c)':
                return V('(cookie r)', 'otext')
            if src == 'self.userid_type_decoders.get' and len(args) == 1 and A(0).ty == 'text':
                return V('(lookup_text %s decoders)' % A(0).term, 'odec')
            if src == 'self.userid_type_encoders.get' and len(args) == 1 and isinstance(args[0], ast.Name) \
                    and args[0].id == 'str' and 'str' not in env:
                return V('enc_str', 'encpair')                              # .get(str): the entry of the str type
            if src == 'self.userid_type_encoders.get' and len(args) == 1 and A(0).ty == 'typeof':
                if A(0).extra == 'uarg':
                    # .get(type(x)) for an arbitrary object: None unless its type is exactly int / str / bytes
                    return V('(enc_of_arg enc_int enc_str enc_bytes %s)' % A(0).term, 'oencpair')
                return V('(enc_of enc_int enc_str enc_bytes %s)' % A(0).term, 'encpair', ('static', True))
            if src == 'self.cookie.remember' and len(args) == 2 and U(args[0]) == 'request' and '$st' in env \
                    and len(e.keywords) == 1 and e.keywords[0].arg is None and isinstance(e.keywords[0].value, ast.Name) \
                    and env.get(e.keywords[0].value.id) is not None and env[e.keywords[0].value.id].ty == 'kwpair':
                ma, tk = env[e.keywords[0].value.id].extra                  # **kw forwarded unchanged
                u = fn.coerce(A(1), 'uarg')
                return V('(gen_remember c %s %s %s %s %s)' % (env['$r'].term, env['$st'].term, u.term, ma.term, tk.term), 'hdrres')
            if src == 'self.cookie.forget' and len(args) == 1 and U(args[0]) == 'request' and not e.keywords and '$st' in env:
                return V('(gen_forget c %s %s)' % (env['$r'].term, env['$st'].term), 'hdrres')
            if src == 'VALID_TOKEN.match' and len(args) == 1 and A(0).ty == 'text':
                return V('(regex_match tok_first tok_rest tok_dollar %s)' % A(0).term, 'bool')
            if src == 'self.cookie_profile' and len(args) == 1:
                return V('profile', 'erased')
            if src == 'self._get_cookies' and len(args) in (2, 3):
                val = fn.coerce(A(1), 'otext')
                ma = fn.coerce(A(2), 'oZ') if len(args) == 3 else V('None', 'oZ')
                return V('(gen_get_cookies c r %s %s)' % (val.term, ma.term), 'cks')
            if src == 'profile.get_headers' and len(args) == 1 and len(e.keywords) == 1 and e.keywords[0].arg is None:
                d = e.keywords[0].value
                if isinstance(d, ast.Name) and env.get(d.id) is not None and env[d.id].ty == 'dict':
                    keys = set(k[len(d.id) + 1:] for k in env if k.startswith(d.id + '.'))
                    if not keys <= {'domains', 'max_age'} or 'domains' not in keys:
                        raise Problem('%s: get_headers keywords %s' % (fn.name, sorted(keys)))
                    dom = env[d.id + '.domains']
                    if dom.ty != 'pylist' or len(dom.extra) != 1:
                        raise Problem('%s: domains=%s' % (fn.name, dom))
                    domv = fn.coerce(dom.extra[0], 'otext')
                    ma = fn.coerce(env[d.id + '.max_age'], 'oZ').term if d.id + '.max_age' in env else 'None'
                    val = fn.coerce(A(0), 'otext')
                    # CookieProfile(cookie_name, secure, max_age, httponly, path, samesite) of the pinned __init__
                    return V('[mkCk (cookie_name c) %s %s (match %s with Some m => Some m | None => max_age c end) '
                             '(path c) (secure c) (http_only c) (samesite c)]' % (val.term, domv.term, ma), 'cks')
            v = None
            try:
                v = fn.E(recv, env)
            except Problem:
                v = None
            if v is not None:
                if v.ty == 'hasher' and meth == 'hexdigest' and not args and v.extra[1] is not None:
                    return V('(H %s %s)' % (v.extra[0], v.extra[1]), 'text')
                if v.ty == 'hasher' and meth == 'digest_size':
                    pass
                if v.ty == 'text' and meth == 'strip' and len(args) == 1 and isinstance(args[0], ast.Constant) \
                        and len(args[0].value) == 1:
                    return V('(strip_char %d %s)' % (ord(args[0].value), v.term), 'text')
                if v.ty == 'text' and meth == 'split' and len(args) == 1 and isinstance(args[0], ast.Constant) \
                        and len(args[0].value) == 1:
                    return V('(split_on %d %s)' % (ord(args[0].value), v.term), 'texts')
                if v.ty == 'text' and meth == 'split' and len(args) == 2 and isinstance(args[0], ast.Constant) \
                        and len(args[0].value) == 1 and isinstance(args[1], ast.Constant) and args[1].value == 1:
                    return V(None, 'split1', (ord(args[0].value), v, v.term))
                if v.ty == 'text' and meth == 'count' and len(args) == 1 and isinstance(args[0], ast.Constant) \
                        and len(args[0].value) == 1:
                    return V('(count_char %d %s)' % (ord(args[0].value), v.term), 'nat', (ord(args[0].value), v.term))
                if v.ty == 'text' and meth == 'startswith' and len(args) == 1 and A(0).ty == 'text':
                    return V('(startswith %s %s)' % (A(0).term, v.term), 'bool')
                if v.ty == 'obj' and meth in ('cookie_value', 'digest') and not args:
                    o = v.extra
                    return V('(gen_ticket_%s %s)' % (meth, ' '.join(o[x].term for x in
                                                                   ('hashalg', 'ip', 't', 'secret', 'userid', 'tokens', 'user_data'))), 'text')
        if src == 'self.digest' and not args and ('ticket', 'secret') in self.attrs and fn.name.startswith('AuthTicket'):
            return V('(gen_ticket_digest alg ip t sec userid toks ud)', 'text')
        if src == 'self.AuthTicket' and len(args) == 3 and set(kw) == {'tokens', 'user_data', 'cookie_name', 'secure', 'hashalg'}:
            # AuthTicket(secret, userid, ip, tokens=, user_data=, cookie_name=, secure=, hashalg=): time omitted ->
            # time_mod.time() in the pinned __init__; cookie_name / secure are only stored
            o = {'secret': A(0), 'userid': A(1), 'ip': fn.coerce(A(2), 'ip'), 'tokens': fn.E(kw['tokens'], env),
                 'user_data': fn.E(kw['user_data'], env), 'hashalg': fn.E(kw['hashalg'], env),
                 't': V('(Z.to_N (now %s))' % env['$r'].term, 'N'), '$clock': True}
            if o['tokens'].ty != 'texts' or o['userid'].ty != 'text':
                raise Problem('%s: AuthTicket arguments' % fn.name)
            return V(None, 'obj', o)
        raise Problem('%s: call outside the table: %s' % (fn.name, U(e)))

    def helper_call(self, fn, e, env):
        """AuthTktCookieHelper(<positional>, <keywords>) inside a constructor: the arguments arranged in the order of the
        helper's own signature (read from the source), omitted ones filled with the helper's literal defaults"""
        node = self.m.find('AuthTktCookieHelper.__init__') if self.m is not None else None
        if node is None:
            raise Problem('%s: AuthTktCookieHelper.__init__ missing' % fn.name)
        names = [a.arg for a in node.args.args][1:]
        dfl = dict(zip(reversed(names), reversed(node.args.defaults)))
        given = {}
        if len(e.args) > len(names):
            raise Problem('%s: too many positional arguments' % fn.name)
        for nm, a in zip(names, e.args):
            given[nm] = a
        for kk in e.keywords:
            if kk.arg is None or kk.arg not in names or kk.arg in given:
                raise Problem('%s: keyword %s of the helper call' % (fn.name, kk.arg))
            given[kk.arg] = kk.value
        out = []
        for nm in names:
            ty = HELPER_TYPES.get(nm)
            if ty is None:
                raise Problem('%s: helper parameter %s is outside the table' % (fn.name, nm))
            if nm in given:
                v = fn.E(given[nm], env)
            elif nm in dfl and isinstance(dfl[nm], ast.Constant):
                v = fn.E(dfl[nm], {})
            else:
                raise Problem('%s: helper parameter %s is not supplied' % (fn.name, nm))
            out.append(fn.coerce(v, ty).term)
        return V('(gen_helper_init %s)' % ' '.join(out), 'helper')

    # ------------------------------------------------------------------ partial primitives (may raise)
    def partial(self, fn, value, env):
        """-> None or a function target -> (scrutinee, success pattern, bindings, exception name)"""
        if not isinstance(value, ast.Call):
            return None
        f, args = value.func, value.args
        src = U(f)
        kw = {k.arg: k.value for k in value.keywords}
        if src == 'int' and len(args) == 2 and isinstance(args[1], ast.Constant) and args[1].value in (10, 16):
            v = fn.E(args[0], env)
            if v.ty != 'text':
                raise Problem('%s: int() of %s' % (fn.name, v.ty))

            def mk(target, v=v, base=args[1].value):
                n = fn.fresh(target.id)
                return ('(py_int uni %d %s)' % (base, v.term), 'Some %s' % n, {target.id: V(n, 'Z')}, 'ValueError')
            return mk
        if isinstance(f, ast.Attribute) and f.attr == 'split' and len(args) == 2:
            v = fn.E(value, env)
            if v.ty == 'split1':
                c, sv, sterm = v.extra

                def mk(target, c=c, sterm=sterm):
                    if not (isinstance(target, ast.Tuple) and len(target.elts) == 2):
                        raise Problem('%s: split(.., 1) must be unpacked into two names' % fn.name)
                    a, b = fn.fresh(target.elts[0].id), fn.fresh(target.elts[1].id)
                    return ('(split1 %d %s)' % (c, sterm), 'Some (%s, %s)' % (a, b),
                            {target.elts[0].id: V(a, 'text'), target.elts[1].id: V(b, 'text')}, 'ValueError')
                if ('in', c, sterm) in env.get('$facts', set()):
                    return None
                return mk
        if src == 'self.parse_ticket' and len(args) == 4:
            vs = [fn.E(a, env) for a in args]
            vs[2] = fn.coerce(vs[2], 'ip')

            def mk(target, vs=vs):
                if not (isinstance(target, ast.Tuple) and len(target.elts) == 4):
                    raise Problem('%s: parse_ticket result must be unpacked into four names' % fn.name)
                ns = [fn.fresh(x.id) for x in target.elts]
                tys = ['Z', 'text', 'texts', 'text']
                return ('(gen_parse_ticket %s)' % ' '.join(v.term for v in vs), 'POk %s' % ' '.join(ns),
                        {x.id: V(n, ty) for x, n, ty in zip(target.elts, ns, tys)}, 'BadTicket')
            return mk
        if src == 'ascii_' and len(args) == 1:
            v = fn.E(args[0], env)
            if v.ty == 'text':
                def mk(target, v=v):
                    n = fn.fresh(target.id)
                    return ('(ascii_opt %s)' % v.term, 'Some %s' % n, {target.id: V(n, 'text')}, 'UnicodeEncodeError')
                return mk
        if isinstance(f, ast.Name) and f.id in env and env[f.id].ty == 'deckind' and len(args) == 1:
            v = fn.coerce(fn.E(args[0], env), 'uval')

            def mk(target, v=v, kd=env[f.id]):
                n = fn.fresh(target.id)
                return ('(apply_dec uni %s %s)' % (kd.term, v.term), 'Some %s' % n, {target.id: V(n, 'uval')}, 'Exception')
            return mk
        if isinstance(f, ast.Name) and f.id in env and env[f.id].ty == 'enckind' and len(args) == 1:
            v = fn.E(args[0], env)
            if v.ty == 'uarg':
                v = fn.coerce(v, 'uval')
            if v.ty == 'uval':
                def mk(target, v=v, kd=env[f.id]):
                    n = fn.fresh(target.id)
                    return ('(apply_enc %s %s)' % (kd.term, v.term), 'Some %s' % n, {target.id: V(n, 'text')}, 'Exception')
                return mk
        if src == 'self.remember' and len(args) == 2 and set(kw) == {'max_age', 'tokens'}:
            u = fn.coerce(fn.E(args[1], env), 'uarg')
            ma = fn.coerce(fn.E(kw['max_age'], env), 'oZ')
            tk = fn.E(kw['tokens'], env)
            if tk.ty != 'texts':
                raise Problem('%s: remember(tokens=%s)' % (fn.name, tk.ty))

            def mk(target, u=u, ma=ma, tk=tk):
                st2, hs = fn.fresh('st'), fn.fresh(target.id)
                env['$st_after'] = V(st2, 'st')
                return ('(gen_remember c %s %s %s %s %s)' % (env['$r'].term, env['$st'].term, u.term, ma.term, tk.term),
                        '(%s, Some %s)' % (st2, hs), {target.id: V(hs, 'cks'), '$st': V(st2, 'st')}, 'Exception')
            return mk
        return None

    # ------------------------------------------------------------------ tuple unpacking of total values
    def unpack(self, fn, target, v, rest, env, k):
        names = [x.id for x in target.elts]
        if v.ty == 'split1' and len(names) == 2:
            c, sv, sterm = v.extra
            if ('in', c, sterm) not in env.get('$facts', set()):
                raise Problem('%s: unguarded split(.., 1) unpacking' % fn.name)
            a, b = fn.fresh(names[0]), fn.fresh(names[1])          # the separator occurs: the split has two parts
            env2 = dict(env)
            env2[names[0]], env2[names[1]] = V(a, 'text'), V(b, 'text')
            return "(let '(%s, %s) := split1_tot %d %s in\n %s)" % (a, b, c, sterm, fn.block(rest, env2, k))
        if v.ty == 'encpair' and len(names) == 2:
            a, b = fn.fresh(names[0]), fn.fresh(names[1])
            env2 = dict(env)
            env2[names[0]], env2[names[1]] = V(a, 'text'), V(b, 'enckind')
            return "(let '(%s, %s) := %s in\n %s)" % (a, b, v.term, fn.block(rest, env2, k))
        raise Problem('%s: tuple unpacking of %s' % (fn.name, v.ty))

    # ------------------------------------------------------------------ stores: request flags, dict entries
    def store(self, fn, target, value, rest, env, k):
        if fn.mode == 'init' and isinstance(target, ast.Attribute) and U(target.value) == 'self':
            v = fn.E(value, env)
            if v.ty not in ('erased', 'obj', 'helper') and not fn.joinable(v):
                raise Problem('%s: self.%s = %s' % (fn.name, target.attr, v.ty))
            env2 = dict(env)
            env2['self.' + target.attr] = v                                  # collected; fn.end builds the record
            return fn.block(rest, env2, k)
        if isinstance(target, ast.Attribute) and U(target.value) == 'request' and target.attr in (
                '_authtkt_reissue_revoked', '_authtkt_reissued'):
            if not (isinstance(value, ast.Constant) and value.value is True):
                raise Problem('%s: request flag set to %s' % (fn.name, U(value)))
            setter = 'set_revoked' if target.attr == '_authtkt_reissue_revoked' else 'set_reissued'
            return fn.bind(env, '$st', V('(%s %s true)' % (setter, env['$st'].term), 'st'), lambda e2: fn.block(rest, e2, k))
        if isinstance(target, ast.Subscript) and isinstance(target.value, ast.Name) \
                and isinstance(target.slice, ast.Constant) and isinstance(target.slice.value, str):
            d = env.get(target.value.id)
            if d is not None and d.ty == 'erased' and d.term == 'environ' and target.slice.value in (
                    'REMOTE_USER_TOKENS', 'REMOTE_USER_DATA', 'AUTH_TYPE'):
                fn.E(value, env)                                     # must be translatable, then erased (not observed)
                return fn.block(rest, env, k)
            if d is not None and d.ty == 'dict':
                v = fn.E(value, env)
                env2 = dict(env)
                env2['%s.%s' % (target.value.id, target.slice.value)] = v
                return fn.block(rest, env2, k)
        raise Problem('%s: store %s' % (fn.name, U(target)))

    def delete(self, fn, s, rest, env, k):
        if len(s.targets) == 1 and U(s.targets[0]) == 'request._authtkt_reissue_revoked':
            # del of an absent attribute raises AttributeError: only after it was set on every path
            return fn.bind(env, '$st', V('(set_revoked %s false)' % env['$st'].term, 'st'), lambda e2: fn.block(rest, e2, k))
        raise Problem('%s: del %s' % (fn.name, U(s)))

    REISSUE_CLOSURE = ("def reissue_authtkt(request, response):\n    if not hasattr(request, '_authtkt_reissue_revoked'):\n"
                       "        for (k, v) in headers:\n            response.headerlist.append((k, v))")

    def nested_def(self, fn, s, rest, env, k):
        # def f(request, response): if not hasattr(request, '_authtkt_reissue_revoked'): for k, v in HS: response.headerlist.append((k, v))
        a = [x.arg for x in s.args.args]
        ok = len(a) == 2 and len(s.body) == 1 and isinstance(s.body[0], ast.If) and not s.body[0].orelse
        if ok:
            i = s.body[0]
            ok = U(i.test) == "not hasattr(%s, '_authtkt_reissue_revoked')" % a[0] and len(i.body) == 1 \
                and isinstance(i.body[0], ast.For) and isinstance(i.body[0].iter, ast.Name) \
                and isinstance(i.body[0].target, ast.Tuple) and len(i.body[0].target.elts) == 2 \
                and len(i.body[0].body) == 1 \
                and U(i.body[0].body[0]) == '%s.headerlist.append((%s, %s))' % (
                    a[1], i.body[0].target.elts[0].id, i.body[0].target.elts[1].id)
        if not ok:
            raise Problem('%s: nested function %s is not the reissue callback idiom' % (fn.name, s.name))
        hs = env.get(s.body[0].body[0].iter.id)
        if hs is None or hs.ty != 'cks':
            raise Problem('%s: the callback appends %s' % (fn.name, s.body[0].body[0].iter.id))
        env2 = dict(env)
        env2[s.name] = V(hs.term, 'callback')
        return fn.block(rest, env2, k)

    def expr_stmt(self, fn, s, rest, env, k):
        e = s.value
        if isinstance(e, ast.Call):
            src = U(e.func)
            if src == 'warnings.warn':
                return fn.block(rest, env, k)
            if src == 'request.add_response_callback' and len(e.args) == 1 and isinstance(e.args[0], ast.Name) \
                    and env.get(e.args[0].id) is not None and env[e.args[0].id].ty == 'callback':
                return fn.bind(env, '$st', V('(push_callback %s %s)' % (env['$st'].term, env[e.args[0].id].term), 'st'),
                               lambda e2: fn.block(rest, e2, k))
            if isinstance(e.func, ast.Attribute) and isinstance(e.func.value, ast.Name):
                nm, meth = e.func.value.id, e.func.attr
                v = env.get(nm)
                if v is not None and v.ty == 'hasher' and meth == 'update' and len(e.args) == 1 and v.extra[1] is None:
                    x = fn.E(e.args[0], env)
                    if x.ty != 'bytes':
                        raise Problem('%s: hash update with %s' % (fn.name, x.ty))
                    env2 = dict(env)
                    env2[nm] = V(None, 'hasher', (v.extra[0], x.term))
                    return fn.block(rest, env2, k)
                if v is not None and v.ty == 'texts' and meth == 'append' and len(e.args) == 1:
                    x = fn.E(e.args[0], env)
                    if x.ty != 'text':
                        raise Problem('%s: append of %s' % (fn.name, x.ty))
                    return fn.bind(env, nm, V('(%s ++ [%s])' % (v.term, x.term), 'texts'), lambda e2: fn.block(rest, e2, k))
        raise Problem('%s: expression statement %s' % (fn.name, U(s)))

    # ------------------------------------------------------------------ tests
    def static_test(self, fn, test, env):
        if isinstance(test, ast.Compare) and len(test.ops) == 1 and isinstance(test.ops[0], (ast.Is, ast.IsNot)) \
                and isinstance(test.comparators[0], ast.Constant) and test.comparators[0].value is None:
            try:
                v = fn.E(test.left, env)
            except Problem:
                return None
            if v.ty == 'none':
                return isinstance(test.ops[0], ast.Is)
            if v.ty == 'identity':
                return isinstance(test.ops[0], ast.IsNot)      # a dict is not None
            return None
        try:
            v = fn.E(test, env)
        except Problem:
            return None
        if v.extra and isinstance(v.extra, tuple) and v.extra[0] == 'static':
            return v.extra[1]
        if v.ty == 'none':
            return False                   # truthiness of None
        if v.ty == 'identity':
            return True                    # the identity dict is never empty
        if isinstance(test, ast.Compare) and len(test.ops) == 1 and isinstance(test.ops[0], (ast.Is, ast.IsNot)):
            return None
        return None

    def narrow_test(self, fn, test, env):
        """tests on Optional values -> (scrutinee, inner type, rebind, extra condition on the value, None-branch-is-then)"""
        def target_of(x):
            # the expression whose value is optional, with the way to rebind it
            if isinstance(x, ast.Name) and x.id in env:
                v = env[x.id]
                if v.ty == 'optalias':
                    return None
                return v, (lambda e2, nv, n=x.id: dict(e2, **{n: nv}))
            if isinstance(x, ast.Attribute):
                v = fn.E(x, env)
                key = (U(x.value), x.attr)

                def rb(e2, nv, key=key):
                    e2 = dict(e2)
                    d = dict(e2.get('$narrow', {}))
                    d[key] = nv
                    e2['$narrow'] = d
                    return e2
                nar = env.get('$narrow', {})
                if key in nar:
                    return None
                return v, rb
            return None
        if isinstance(test, ast.Compare) and len(test.ops) == 1 and isinstance(test.ops[0], (ast.Is, ast.IsNot)) \
                and isinstance(test.comparators[0], ast.Constant) and test.comparators[0].value is None:
            t = target_of(test.left)
            if t is None:
                raise Problem('%s: test %s' % (fn.name, U(test)))
            v, rb = t
            if v.ty == 'none':
                return None
            if v.ty in ('oZ', 'otext', 'oencpair'):
                return (v.term, v.ty[1:], rb, None, isinstance(test.ops[0], ast.Is))
            raise Problem('%s: `is None` on %s' % (fn.name, v.ty))
        t = None
        if isinstance(test, (ast.Name, ast.Attribute)):
            try:
                t = target_of(test)
            except Problem:
                t = None
        if isinstance(test, ast.Name) and test.id in env and env[test.id].ty == 'optalias':
            return env[test.id].extra
        if t is not None:
            v, rb = t
            if v.ty == 'oZ':
                return (v.term, 'Z', rb, lambda nv: '(negb (Z.eqb %s 0))' % nv, False)      # truthiness of Optional[int]
            if v.ty == 'otext':
                return (v.term, 'text', rb, lambda nv: '(nonempty %s)' % nv, False)      # truthiness of Optional[str]
            if v.ty == 'odec':
                return (v.term, 'deckind', rb, None, False)
            if v.ty == 'oencpair':
                return (v.term, 'encpair', rb, None, False)      # a 2-tuple is truthy
        return None


# ====================================================================== per-function table and driver
def _ret_term(fn, v, env, node):
    return v.term


def _ret_parse(fn, v, env, node):
    if v.ty == 'tuple' and [x.ty for x in v.extra] == ['Z', 'text', 'texts', 'text']:
        return '(POk %s)' % ' '.join(x.term for x in v.extra)
    raise Problem('parse_ticket returns %s' % v.ty)


def _raise_parse(exc, env):
    if exc == 'BadTicket':
        return 'PBad'
    raise Problem('parse_ticket: an uncaught %s is possible' % exc)


def _ret_hdr(fn, v, env, node):
    if v.ty != 'cks':
        raise Problem('%s returns %s' % (fn.name, v.ty))
    return '(%s, Some %s)' % (env['$st'].term, v.term)


def _raise_hdr(exc, env):
    return '(%s, None)' % env['$st'].term


def _ret_identify(fn, v, env, node):
    st = env['$st'].term
    if v.ty == 'none':
        return '(%s, INone)' % st
    if v.ty == 'dict' and isinstance(node, ast.Name):
        keys = sorted(k[len(node.id) + 1:] for k in env if k.startswith(node.id + '.'))
        if keys != ['timestamp', 'tokens', 'userdata', 'userid']:
            raise Problem('identify: identity keys %s' % keys)
        g = lambda kk: env['%s.%s' % (node.id, kk)]
        ts, u, tk, ud = g('timestamp'), fn.coerce(g('userid'), 'uval'), g('tokens'), g('userdata')
        if (ts.ty, tk.ty, ud.ty) != ('Z', 'texts', 'text'):
            raise Problem('identify: identity value types')
        return '(%s, ISome %s %s %s %s)' % (st, ts.term, u.term, tk.term, ud.term)
    raise Problem('identify returns %s' % v.ty)


def _raise_identify(exc, env):
    return '(%s, IRaise)' % env['$st'].term


def _ret_puid(fn, v, env, node):
    st = env['$st'].term
    if v.ty == 'none':
        return '(%s, UNone)' % st
    if v.ty == 'uval':
        return '(%s, USome %s)' % (st, v.term)
    raise Problem('%s returns %s' % (fn.name, v.ty))


def _raise_puid(exc, env):
    return '(%s, URaise)' % env['$st'].term


def _ret_hdrres(fn, v, env, node):
    if v.ty != 'hdrres':
        raise Problem('%s returns %s' % (fn.name, v.ty))
    return v.term


# constructor parameters, typed by name
HELPER_TYPES = {'secret': 'text', 'cookie_name': 'text', 'secure': 'bool', 'include_ip': 'bool', 'timeout': 'oZ',
                'reissue_time': 'oZ', 'max_age': 'oZ', 'http_only': 'bool', 'path': 'text', 'wild_domain': 'bool',
                'hashalg': 'text', 'parent_domain': 'bool', 'domain': 'otext', 'samesite': 'otext'}
POLICY_TYPES = dict(HELPER_TYPES, callback='erased', debug='erased')
HELPER_SELF = {'secret': 'text', 'cookie_name': 'text', 'secure': 'bool', 'include_ip': 'bool', 'timeout': 'oZ',
               'reissue_time': 'oZ', 'max_age': 'oZ', 'wild_domain': 'bool', 'parent_domain': 'bool', 'domain': 'otext',
               'hashalg': 'text'}


def _end_helper(fn):
    def end(env):
        stored = set(k[5:] for k in env if k.startswith('self.'))
        if stored != set(HELPER_SELF) | {'cookie_profile'}:
            raise Problem('%s: attributes stored on self: %s' % (fn.name, sorted(stored)))
        g = lambda nm: fn.coerce(env['self.' + nm], HELPER_SELF[nm]).term
        prof = env['self.cookie_profile']
        if prof.ty != 'obj':
            raise Problem('%s: self.cookie_profile = %s' % (fn.name, prof.ty))
        p = lambda nm: prof.extra[nm].term
        # cfg: what identify / remember / _get_cookies read from self, and (path, http_only, samesite) from the profile
        return ('(mkCfg %s %s %s %s %s %s %s %s %s %s %s %s %s %s, mkCk %s None None %s %s %s %s %s)' % (
            g('secret'), g('cookie_name'), g('secure'), g('include_ip'), g('timeout'), g('reissue_time'), g('max_age'),
            p('httponly'), p('path'), g('wild_domain'), g('parent_domain'), g('domain'), g('hashalg'), p('samesite'),
            p('cookie_name'), p('max_age'), p('path'), p('secure'), p('httponly'), p('samesite')))
    return end


def _end_policy(fn):
    def end(env):
        stored = set(k[5:] for k in env if k.startswith('self.'))
        if stored != {'cookie', 'callback', 'debug'} or env['self.cookie'].ty != 'helper' \
                or env['self.callback'].ty != 'erased' or env['self.debug'].ty != 'erased':
            raise Problem('%s: attributes stored on self: %s' % (fn.name, sorted(stored)))
        return env['self.cookie'].term
    return end


SELF_REQ = [('self', 'erased'), ('request', 'erased')]
POLICY_FUNCS = [
    ('gen_policy_userid', 'AuthTktAuthenticationPolicy.unauthenticated_userid', '(c : cfg) (r : req) (st : state) : state * ures',
     SELF_REQ, _ret_puid, _raise_puid, True, 'end-none'),
    ('gen_policy_remember', 'AuthTktAuthenticationPolicy.remember',
     '(c : cfg) (r : req) (st : state) (u : uarg) (ma : option Z) (toks : list text) : state * option (list ck)',
     SELF_REQ + [('u', 'uarg')], _ret_hdrres, None, True, 'kw'),
    ('gen_policy_forget', 'AuthTktAuthenticationPolicy.forget', '(c : cfg) (r : req) (st : state) : state * option (list ck)',
     SELF_REQ, _ret_hdrres, None, True, None),
]
INIT_FUNCS = [
    ('gen_helper_init', 'gen_helper_defaults', 'AuthTktCookieHelper.__init__', HELPER_TYPES, _end_helper),
    ('gen_policy_init', 'gen_policy_defaults', 'AuthTktAuthenticationPolicy.__init__', POLICY_TYPES, _end_policy),
]
# name -> (qualified python name, header, [(term, type) per positional parameter], ret, raises, uses request state)
FUNCS = [
    ('gen_encode_ip_timestamp', 'encode_ip_timestamp', '(ip : ipaddr) (ts : Z) : list N',
     [('ip', 'ip'), ('ts', 'Z')], _ret_term, None, False),
    ('gen_calculate_digest', 'calculate_digest', '(ip : ipaddr) (ts : Z) (sec userid tokens user_data alg : text) : text',
     [('ip', 'ip'), ('ts', 'Z'), ('sec', 'text'), ('userid', 'text'), ('tokens', 'text'), ('user_data', 'text'),
      ('alg', 'text')], _ret_term, None, False),
    ('gen_ticket_digest', 'AuthTicket.digest',
     '(alg : text) (ip : ipaddr) (t : N) (sec userid : text) (toks : list text) (ud : text) : text',
     [('ticket', 'erased')], _ret_term, None, False),
    ('gen_ticket_cookie_value', 'AuthTicket.cookie_value',
     '(alg : text) (ip : ipaddr) (t : N) (sec userid : text) (toks : list text) (ud : text) : text',
     [('ticket', 'erased')], _ret_term, None, False),
    ('gen_parse_ticket', 'parse_ticket', '(sec ticket : text) (ip : ipaddr) (alg : text) : pres',
     [('sec', 'text'), ('ticket', 'text'), ('ip', 'ip'), ('alg', 'text')], _ret_parse, _raise_parse, False),
    ('gen_get_cookies', 'AuthTktCookieHelper._get_cookies',
     '(c : cfg) (r : req) (value : option text) (ma : option Z) : list ck',
     SELF_REQ + [('value', 'otext'), ('ma', 'oZ')], _ret_term, None, False),
    ('gen_forget', 'AuthTktCookieHelper.forget', '(c : cfg) (r : req) (st : state) : state * option (list ck)',
     SELF_REQ, _ret_hdr, _raise_hdr, True),
    ('gen_remember', 'AuthTktCookieHelper.remember',
     '(c : cfg) (r : req) (st : state) (u : uarg) (ma : option Z) (toks : list text) : state * option (list ck)',
     SELF_REQ + [('u', 'uarg'), ('ma', 'oZ'), ('toks', 'texts')], _ret_hdr, _raise_hdr, True),
    ('gen_identify', 'AuthTktCookieHelper.identify', '(c : cfg) (r : req) (st : state) : state * idres',
     SELF_REQ, _ret_identify, _raise_identify, True),
]
# every source function whose control flow is regenerated on every run (coverage_map.py reads this); the nested
# reissue callback is matched structurally (Tr.nested_def, fail-closed) as part of translating identify
TRANSLATED = ['%s:%s' % (AUTH, q) for _, q, _, _, _, _, _ in FUNCS] + [
    AUTH + ':AuthTktCookieHelper.identify.reissue_authtkt'] + ['%s:%s' % (AUTH, x[1]) for x in POLICY_FUNCS] + [
    '%s:%s' % (AUTH, x[2]) for x in INIT_FUNCS]


def translate_tree(src_root):
    """-> (coq text of the generated section, problems, summary)"""
    from harness.common import facts as F
    problems, summary = [], {}
    fb_path = os.path.join(HERE, 'gen_fallback.json')
    try:
        with open(fb_path) as f:
            fallback = json.load(f)
    except Exception:
        fallback = {}
    try:
        m = F.Module(src_root, AUTH)
    except Exception as e:
        problems.append('translator: cannot parse %s: %r' % (AUTH, e))
        m = None
    tr = Tr(m)
    defs = []
    for gname, qual, header, params, ret, raises, uses_state in FUNCS:
        body = None
        if m is not None:
            node = m.find(qual)
            if node is None:
                problems.append('translator: %s no longer exists' % qual)
            else:
                try:
                    body = Fn(tr, qual, node, params, ret, raises, uses_state).translate()
                    summary['translated:' + qual] = '%d lines' % (body.count('\n') + 1)
                except Problem as e:
                    problems.append('translator: ' + str(e))
                except Exception as e:          # a translator bug must never pass silently
                    if os.environ.get('C09_TR_DEBUG'):
                        raise
                    problems.append('translator: internal error on %s: %r' % (qual, e))
        if body is None:
            body = fallback.get(gname)
            summary['translated:' + qual] = 'FALLBACK'
            if body is None:
                problems.append('translator: no fallback text for %s' % gname)
                body = '_'
        defs.append((gname, header, body))
    # ---- constructors (header generated from the source's signature) and the policy wrappers
    def attempt(gname, qual, build):
        out = None
        if m is not None:
            node = m.find(qual)
            if node is None:
                problems.append('translator: %s no longer exists' % qual)
            else:
                try:
                    out = build(node)
                    summary['translated:' + qual] = '%d lines' % (out[-1].count('\n') + 1)
                except Problem as e:
                    problems.append('translator: ' + str(e))
                except Exception as e:
                    if os.environ.get('C09_TR_DEBUG'):
                        raise
                    problems.append('translator: internal error on %s: %r' % (qual, e))
        if out is None:
            out = fallback.get(gname)
            summary['translated:' + qual] = 'FALLBACK'
            if not isinstance(out, list):
                problems.append('translator: no fallback text for %s' % gname)
                out = None
        return out
    dyn = {}
    for gname, dname, qual, types, mk_end in INIT_FUNCS:
        def build(node, gname=gname, dname=dname, qual=qual, types=types, mk_end=mk_end):
            fn = Fn(tr, qual, node, [], None, None, False)
            fn.end = mk_end(fn)
            header, body = fn.translate_init(types)
            return [header, body, fn.defaults_call(types, gname)]
        out = attempt(gname, qual, build)
        if out is not None:
            dyn[gname] = out
            defs.append((gname, out[0], out[1]))
            defs.append((dname, '(a_secret : text) : cfg * ck', out[2]))
    for gname, qual, header, params, ret, raises, uses_state, flag in POLICY_FUNCS:
        def build(node, qual=qual, params=params, ret=ret, raises=raises, uses_state=uses_state, flag=flag):
            fn = Fn(tr, qual, node, params, ret, raises, uses_state)
            if flag == 'end-none':
                fn.end = lambda e2: ret(fn, V('None', 'none'), e2, None)
            if flag == 'kw':
                fn.kwarg = V(None, 'kwpair', (V('ma', 'oZ'), V('toks', 'texts')))      # max_age= / tokens= as given
            return [fn.translate()]
        out = attempt(gname, qual, build)
        if out is not None:
            dyn[gname] = out
            defs.append((gname, header, out[0]))
    coq = ('\n(* ---- regenerated from src/pyramid/authentication.py by harness/c09/translate.py: control flow translated\n'
           '   mechanically, leaves through the primitive table (see that file) ---- *)\n'
           'Section Gen.\nVariable H : text -> list N -> text.\nVariable dsz : text -> nat.\nVariable uni : N -> N.\n'
           '\n')
    for gname, header, body in defs:
        coq += 'Definition %s %s :=\n %s.\n\n' % (gname, header, body)
    coq += 'End Gen.\n'
    bodies = {g: b for g, _, b in defs if g not in dyn and not g.endswith('_defaults')}
    bodies.update(dyn)
    return coq, problems, summary, bodies


if __name__ == '__main__':
    import sys
    sys.path[:0] = ['/verif']
    coq, problems, summary, bodies = translate_tree(sys.argv[1])
    if '--write-fallback' in sys.argv:
        if problems:
            print('not written:', problems)
        else:
            with open(os.path.join(HERE, 'gen_fallback.json'), 'w') as f:
                json.dump(bodies, f, indent=1, sort_keys=True)
            print('fallback written')
    else:
        print(coq)
        print(problems)
