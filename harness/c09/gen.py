"""Case generator for C09.  All randomness comes from the rng handed in."""
import hashlib

import hashlib as _hl


def _known(names):
    out = []
    for a in names:
        try:
            _hl.new(a)
            out.append(a)
        except Exception:
            pass
    return out


# the documented domain of hashalg is "whatever hashlib.new() accepts": besides the usual attribute names also names that
# hashlib.new() knows but that are NOT attributes of the module (OpenSSL spellings, truncated SHA-512 variants, ...)
ALGS = ['md5', 'sha1', 'sha256', 'sha512', 'sha3_224'] + _known(['sha512_256', 'SHA256', 'sha512_224', 'sm3', 'md5-sha1'])
SECRETS = ['sec', 'another secret', 'sécrèt€', 'x' * 40, '']
HOSTS = ['example.com', 'www.example.com', 'a.b.example.com:8080', 'localhost', '127.0.0.1:6543']
IPS4 = ['0.0.0.0', '127.0.0.1', '10.1.2.3', '192.168.255.254', '8.8.8.8']
# also IPv6 notations that embed a dotted quad (IPv4-mapped / NAT64: what a dual-stack listener reports for IPv4 clients):
# they contain BOTH ':' and '.'
IPS6 = ['::1', '2001:db8::ff00:42:8329', 'fe80::1%eth0', '::ffff:192.0.2.7', '64:ff9b::10.1.2.3']
TOKENS_OK = ['a', 'b+c', 'A_1-x', 'admin', 'Zz9', 'x\n']
TOKENS_BAD = ['1a', 'a b', 'é', '', 'a,b', 'a!b', '_x']
_issue = [None, None]
# one character per UTF-8 length class / Unicode property that the string handling distinguishes:
# latin-1, two-byte above U+00FF, three-byte, fullwidth digit, astral, arabic-indic digit, NBSP-like space
UNI = ['\u00e9', '\u0101', '\u20ac', '\uff11', '\U0001F600', '\u0660', '\u2003', '\u00ff', '\u0100']


def issue0(o):
    """issue with the real helper; an exception while issuing is a result (None), never a generator crash"""
    try:
        return _issue[0](o)
    except Exception:
        return None


def issue1(f):
    try:
        return _issue[1](f)
    except Exception:
        return None


def spell(rng, ch):
    """a character literally, or percent-escaped as its UTF-8 bytes (upper / lower hex)"""
    r = rng.random()
    if r < 0.5:
        return ch
    fmt = '%%%02X' if r < 0.8 else '%%%02x'
    return ''.join(fmt % b for b in ch.encode('utf-8'))


def set_issuer(f, g):
    _issue[0], _issue[1] = f, g


def gen_uval(rng):
    r = rng.random()
    if r < 0.34:
        return [1, str(rng.choice([0, 1, -1, 7, 42, -12345, 2 ** 31, 2 ** 64 + 3, -2 ** 70, rng.randrange(10 ** 6)]))]
    if r < 0.72:
        return [0, rng.choice(['bob', 'alice', '', 'a!b', 'x,y|z', '100%', 'userid_type:int', 'Québec',
                               '€\U0001F600', 'a b+c/d=e', '12', ' 7 ', 'A' * rng.randrange(1, 40),
                               ''.join(chr(rng.choice([33, 37, 44, 124, 65, 97, 48, 233, 0x4e2d, 32, 34]))
                                       for _ in range(rng.randrange(1, 8)))])]
    return [2, rng.choice(['', 'bob', '\xff\x00', '\x80abc', '!,|%', ''.join(chr(rng.randrange(256))
                                                                          for _ in range(rng.randrange(1, 12)))])]


# ---- objects of a type outside the encoder table (the lookup is by EXACT type): form + payload -> the object
class StrSub(str):
    pass


class IntSub(int):
    pass


class BytesSub(bytes):
    pass


OTHER_FORMS = {
    'bool': lambda p: p == 'True',
    'none': lambda p: None,
    'float': lambda p: float(p),
    'strsub': lambda p: StrSub(p),
    'intsub': lambda p: IntSub(int(p)),
    'bytessub': lambda p: BytesSub(p.encode('latin-1')),
    'tuple': lambda p: (p,),
}


def other_object(form, payload):
    return OTHER_FORMS[form](payload)


def gen_other(rng):
    form = rng.choice(['bool', 'bool', 'none', 'float', 'strsub', 'strsub', 'intsub', 'intsub', 'bytessub', 'tuple'])
    p = {'bool': ['True', 'False'], 'none': ['None'], 'float': ['1.5', '-0.0', '1e+30', '7.0'],
         'strsub': ['bob', '', '12', 'Québec', '€'], 'intsub': ['0', '7', '-3', '123456789012345678901'],
         'bytessub': ['bob', '\xff\x00', ''], 'tuple': ['a']}[form]
    return [3, form, rng.choice(p)]


# constructor keywords in the order of the model's mask; the documented defaults
OMIT_FIELDS = ['cookie_name', 'secure', 'include_ip', 'timeout', 'reissue_time', 'max_age', 'http_only', 'path',
               'wild_domain', 'parent_domain', 'domain', 'hashalg', 'samesite']
DOC_DEFAULTS = {'cookie_name': 'auth_tkt', 'secure': False, 'include_ip': False, 'timeout': None, 'reissue_time': None,
                'max_age': None, 'http_only': False, 'path': '/', 'wild_domain': True, 'parent_domain': False,
                'domain': None, 'hashalg': 'sha512', 'samesite': 'Lax'}


def gen_omit(rng, cfg):
    """which keywords the caller leaves out: only ones whose value is the documented default"""
    if rng.random() < 0.55:
        return None
    p = rng.choice([0.5, 0.9, 1.0])
    om = [cfg[f] == DOC_DEFAULTS[f] and type(cfg[f]) is type(DOC_DEFAULTS[f]) and rng.random() < p for f in OMIT_FIELDS]
    return om if any(om) else None


def gen_tokens(rng, bad_ok=True):
    if rng.random() < 0.35:
        return []
    toks = [rng.choice(TOKENS_OK) for _ in range(rng.choice([1, 1, 2, 3]))]
    if bad_ok and rng.random() < 0.08:
        toks.insert(rng.randrange(len(toks) + 1), rng.choice(TOKENS_BAD))
    return toks


def gen_cfg(rng):
    if rng.random() < 0.12:
        # a configuration close to the documented defaults (so that most keywords can be omitted)
        c = dict(DOC_DEFAULTS, secret=rng.choice(SECRETS[:4]))
        for f in rng.sample(OMIT_FIELDS, rng.choice([0, 1, 2, 3])):
            c[f] = gen_cfg(rng)[f]
        return c
    return {
        'secret': rng.choice(SECRETS[:4]) if rng.random() < 0.97 else '',
        'cookie_name': rng.choice(['auth_tkt', 'auth_tkt', 'tk']),
        'secure': rng.random() < 0.3,
        'include_ip': rng.random() < 0.4,
        'timeout': rng.choice([None, None, 10, 1200, 1, 0, 86400]) if rng.random() < 0.97 else -5,
        'reissue_time': rng.choice([None, 0, 3, 120, 100000]),
        'max_age': rng.choice([None, None, 77, 0, 31536000]),
        'http_only': rng.random() < 0.3,
        'path': rng.choice(['/', '/', '/app', '/a/b']),
        'wild_domain': rng.random() < 0.7,
        'parent_domain': rng.random() < 0.3,
        'domain': rng.choice([None, None, None, 'example.org', '']),
        'hashalg': rng.choice(ALGS),
        'samesite': rng.choice(['Lax', 'Lax', 'Strict', None]),
    }


def gen_ip(rng):
    r = rng.random()
    if r < 0.6:
        return rng.choice(IPS4)
    if r < 0.75:
        return '.'.join(str(rng.randrange(256)) for _ in range(4))
    return rng.choice(IPS6)


def gen_ops(rng):
    r = rng.random()
    if r < 0.45:
        return [[0]]
    if r < 0.5:
        return []
    n = rng.choice([2, 2, 3, 3, 4, 5])
    ops = []
    for _ in range(n):
        q = rng.random()
        if q < 0.5:
            ops.append([0])
        elif q < 0.85:
            u = gen_other(rng) if rng.random() < 0.15 else gen_uval(rng)
            ops.append([1, u, rng.choice([None, None, 5, 0, 3600]), gen_tokens(rng)])
        else:
            ops.append([2])
    return ops


def _dlen(alg):
    return hashlib.new(alg).digest_size * 2


PRINTABLE = ''.join(chr(c) for c in range(32, 127))


def edit_cookie(rng, c, n, other):
    """One edit of an issued cookie value; returns (label, new value)."""
    bang = c.find('!')
    bounds = sorted(set(x for x in [0, n - 1, n, n + 1, n + 7, n + 8, n + 9, bang - 1, bang, bang + 1, len(c) - 1]
                        if 0 <= x < len(c)))
    k = rng.choice(['subst', 'subst-b', 'insert', 'delete', 'trunc', 'splice', 'upper-digest', 'recase-ts', 'pct',
                    'quotes', 'ts-lenient', 'ts-neg', 'nonascii-digest', 'uni-digit', 'swap-fields', 'append',
                    'uni-field', 'uni-field', 'uni-field'])
    pos = rng.choice(bounds) if rng.random() < 0.6 else rng.randrange(len(c))
    if k == 'uni-field':
        # a non-ASCII character (each UTF-8 length class), literal or percent-escaped, inserted into or substituted
        # inside ONE field of the ticket: digest | timestamp | userid | tokens | user_data
        cuts = [0, min(n, len(c)), min(n + 8, len(c))]
        p = n + 8
        while True:
            q = c.find('!', p)
            if q < 0:
                break
            cuts.append(q)
            p = q + 1
        cuts.append(len(c))
        cuts = sorted(set(cuts))
        fi = rng.choice([2, 2, 2] + list(range(len(cuts) - 1))) if len(cuts) > 3 else rng.randrange(max(1, len(cuts) - 1))
        fi = min(fi, len(cuts) - 2)
        lo, hi = cuts[fi], cuts[fi + 1]
        if fi >= 3:
            lo += 1                     # after the '!'
        lo = min(lo, hi)
        q = rng.randint(lo, hi)
        sp = spell(rng, rng.choice(UNI))
        if rng.random() < 0.6 or q >= hi:
            return k, c[:q] + sp + c[q:]
        return k, c[:q] + sp + c[q + 1:]
    if k == 'subst':
        ch = rng.choice(PRINTABLE)
        return k, c[:pos] + ch + c[pos + 1:]
    if k == 'subst-b':
        ch = rng.choice('!%,|"0aF \t_+-xé')
        return k, c[:pos] + ch + c[pos + 1:]
    if k == 'insert':
        return k, c[:pos] + rng.choice(PRINTABLE + 'é１') + c[pos:]
    if k == 'delete':
        return k, c[:pos] + c[pos + 1:]
    if k == 'trunc':
        return k, c[:pos]
    if k == 'splice' and other:
        cut = rng.choice([n, n + 8, bang + 1, pos])
        return k, c[:cut] + other[cut:] if rng.random() < 0.5 else other[:cut] + c[cut:]
    if k == 'upper-digest':
        return k, c[:n].upper() + c[n:]
    if k == 'recase-ts':
        return k, c[:n] + c[n:n + 8].upper() + c[n + 8:]
    if k == 'pct':
        # re-spell one userid character as %XX (or %xx): decodes to the same fields
        if bang > n + 8:
            p = rng.randrange(n + 8, bang)
            if c[p] != '%' and (p < 1 or c[p - 1] != '%') and (p < 2 or c[p - 2] != '%'):
                h = '%%%02X' % ord(c[p])
                return k, c[:p] + (h if rng.random() < 0.5 else h.lower()) + c[p + 1:]
        return 'quotes', '"' + c + '"'
    if k == 'quotes':
        return k, rng.choice(['"', '""', '']) + c + rng.choice(['"', '"""'])
    if k == 'ts-lenient':
        ts = c[n:n + 8]
        try:
            v = int(ts, 16)
        except ValueError:
            return 'append', c + '!'
        forms = ['%+08x' % v, ' %07x' % v, '%07x ' % v, '0x%06x' % v, '0X%06X' % v, '\t%06x\n' % v, '%07x_' % v,
                 '_%07x' % v, '0_%06x' % v, '0x_%05x' % v, '%x' % v, ' +0x%04x' % v, '%08x' % (v + 1), '0b%06x' % v,
                 '%03x__%03x' % (v >> 12, v & 0xfff), '%03x_%04x' % (v >> 16, v & 0xffff)]
        f = rng.choice(forms)
        return k, c[:n] + f + c[n + 8:]
    if k == 'ts-neg':
        ts = c[n:n + 8]
        return k, c[:n] + '-' + ts[1:] + c[n + 8:]
    if k == 'nonascii-digest':
        p = rng.randrange(0, max(1, n))
        return k, c[:p] + rng.choice('é€１') + c[p + 1:]
    if k == 'uni-digit':
        # fullwidth / arabic-indic digits and unicode spaces in the timestamp field: int() accepts them
        ts = list(c[n:n + 8])
        for i, ch in enumerate(ts):
            if ch.isdigit() and rng.random() < 0.5:
                ts[i] = chr(rng.choice([0xff10, 0x0660, 0x06f0]) + int(ch))
        if rng.random() < 0.3 and ts and ts[0] == '0':
            ts[0] = rng.choice('  \u0085')
        return k, c[:n] + ''.join(ts) + c[n + 8:]
    if k == 'swap-fields':
        parts = c[n + 8:].split('!')
        rng.shuffle(parts)
        return k, c[:n + 8] + '!'.join(parts)
    return 'append', c + rng.choice(['!', '|userid_type:int', ',admin', ' ', '"', '!x!y'])


def gen_garbage(rng):
    r = rng.random()
    if r < 0.3:
        return ''.join(rng.choice(PRINTABLE) for _ in range(rng.choice([0, 1, 5, 31, 32, 33, 40, 41, 48, 80, 150])))
    if r < 0.6:
        n = rng.choice([32, 40, 64, 128, 56])
        return ''.join(rng.choice('0123456789abcdef') for _ in range(n)) + '%08x' % rng.randrange(2 ** 32) + \
            rng.choice(['bob!', 'bob!a,b!', '!', '', 'Ym9i!userid_type:b64unicode', '5!userid_type:int', '%ZZ!x!y',
                        spell(rng, rng.choice(UNI)) + '!', 'bob' + spell(rng, rng.choice(UNI)) + '!a!userid_type:int',
                        'x!' + spell(rng, rng.choice(UNI)) + '!y', 'x!a!' + spell(rng, rng.choice(UNI)),
                        spell(rng, rng.choice(UNI)) * 3 + '!!'])
    if r < 0.8:
        return ''.join(chr(rng.choice([34, 33, 37, 48, 65, 102, 32, 0xe9, 0x20ac, 0xff11, 0x1F600, 9, 95, 43, 45]))
                       for _ in range(rng.randrange(0, 90)))
    return rng.choice(['', '"', '""', '!', '!!', '%', 'None', '0' * 200, 'é' * 50])


FOREIGN_UD = ['userid_type:int', 'userid_type:unicode', 'userid_type:unicode', 'userid_type:unicode', 'userid_type:b64unicode', 'userid_type:b64str',
              'userid_type:float', '', 'x|userid_type:int|y', 'userid_type:b64str|userid_type:int',
              'userid_type:int|userid_type:int', 'a!b', '|', 'userid_type:', 'userid_type:b64unicode|userid_type:b64str',
              'userid_type:b64str|userid_type:unicode', 'userid_type:b64str|userid_type:b64str']
FOREIGN_UID = ['€uro', '\u0101b', '\U0001F600', '12', ' 42 ', '1_0', '+7', '-0', '0x10', '١٢', '1__0', 'abc', '', 'Ym9i', 'Ym9i\n', 'Ym9',
               'Y Q==', 'YQ==YQ==', '/wA=', '!!!!', 'Y=Q=', '=', '4pyT', 'w6k=', 'wyg=', '7aCA', 'MTI=', 'IDcg',
               'bob', 'a!b', 'Québec', '1' * 30, '%41', 'TVRJPQ==', 'TVE9PQ==']


def gen_case(rng):
    cfg = gen_cfg(rng)
    ip = gen_ip(rng)
    host = rng.choice(HOSTS)
    t0 = rng.choice([1700000000, 1700000000, 1234567890, rng.randrange(2 ** 32), 1000, 0, 255, 2 ** 32 - 1])
    kind_r = rng.random()
    origin = None
    other_u = None
    cookie = None
    clock = None
    kind = 'none'
    eff_ip = ip if cfg['include_ip'] else '0.0.0.0'
    if kind_r < 0.07:
        kind = 'none'
    elif kind_r < 0.17:
        kind = 'garbage'
        cookie = gen_garbage(rng)
    elif kind_r < 0.30:
        kind = 'foreign'
        f = {'secret': cfg['secret'], 'hashalg': cfg['hashalg'], 'ip': eff_ip, 't0': t0,
             'userid': rng.choice(FOREIGN_UID), 'tokens': rng.choice([[], ['a'], ['a', 'b'], ['1x'], ['a', '', 'b'], ['']]),
             'user_data': rng.choice(FOREIGN_UD)}
        cookie = issue1(f)
        if cookie is None:
            kind = 'issue-raised'
        elif rng.random() < 0.15:
            kind = 'foreign-edited'
            _, cookie = edit_cookie(rng, cookie, _dlen(cfg['hashalg']), None)
    else:
        origin = {'secret': cfg['secret'], 'hashalg': cfg['hashalg'], 'ip': eff_ip, 't0': t0,
                  'u': gen_uval(rng), 'tokens': gen_tokens(rng, bad_ok=False)}
        if rng.random() < 0.2:
            origin['frac'] = rng.choice([0.25, 0.5, 0.999])      # issued at a fractional time: int() floors it
        kind = 'issued'
        d = rng.random()
        if d < 0.08:
            origin['secret'] = rng.choice([s for s in SECRETS if s != cfg['secret']])
            kind = 'other-secret'
        elif d < 0.14:
            origin['hashalg'] = rng.choice([a for a in ALGS if a != cfg['hashalg']])
            kind = 'other-alg'
        elif d < 0.20 and cfg['include_ip']:
            origin['ip'] = rng.choice([x for x in IPS4 + IPS6 if x != ip])
            kind = 'other-ip'
        elif d < 0.23:
            origin['t0'] = t0 = rng.choice([2 ** 32, 2 ** 32 + 5, 2 ** 36 + 1234])
            kind = 'hex8-overflow'
        cookie = issue0(origin)
        if cookie is None:
            kind = 'issue-raised'
        elif kind == 'issued' and rng.random() < 0.45:
            other = None
            other_u = None
            if rng.random() < 0.5:
                o2 = dict(origin, u=gen_uval(rng), t0=t0 + rng.choice([0, 1, 4096]))
                other = issue0(o2)
                other_u = o2['u']
            lab, cookie = edit_cookie(rng, cookie, _dlen(cfg['hashalg']), other)
            kind = 'edited:' + lab
    # clock
    to, rt = cfg['timeout'], cfg['reissue_time']
    choices = [('same', t0), ('later', t0 + rng.choice([1, 5, 100, 5000, 10 ** 6])), ('earlier', max(0, t0 - 7))]
    if to:
        choices += [('timeout-1', t0 + to - 1), ('timeout+0', t0 + to), ('timeout+1', t0 + to + 1)] * 2
    if rt is not None:
        choices += [('reissue-1', t0 + rt - 1), ('reissue+0', t0 + rt), ('reissue+1', t0 + rt + 1)] * 3
    clock, now = rng.choice(choices)
    now = max(0, now)
    seam = rng.random() < 0.3
    second = None
    ops = gen_ops(rng)
    if rng.random() < 0.22:
        # a second helper consulted for the same request: differs in secret / algorithm / address binding / cookie name /
        # timeout (sometimes not at all); its cookie is the same value (copied ticket), nothing, or another issued ticket
        c2 = dict(cfg)
        for f in rng.sample(['secret', 'hashalg', 'include_ip', 'cookie_name', 'timeout', 'none'], rng.choice([1, 1, 2])):
            if f == 'secret':
                c2['secret'] = rng.choice([x for x in SECRETS if x != cfg['secret']])
            elif f == 'hashalg':
                c2['hashalg'] = rng.choice([a for a in ALGS if a != cfg['hashalg']])
            elif f == 'include_ip':
                c2['include_ip'] = not cfg['include_ip']
            elif f == 'cookie_name':
                c2['cookie_name'] = 'tk' if cfg['cookie_name'] != 'tk' else 'auth_tkt'
            elif f == 'timeout':
                c2['timeout'] = rng.choice([None, 1, 1200])
        ck2 = rng.choice([cookie, cookie, None, cookie[:-1] if cookie else None])
        second = {'cfg': c2, 'cookie': ck2}
        # interleave: some operations go to the second helper (codes 3 4 5), typically after the first one answered
        if not ops:
            ops = [[0]]
        ops = ops[:4]
        extra = [[3]] if rng.random() < 0.7 else [[rng.choice([3, 5])]]
        if rng.random() < 0.3:
            extra.append([4, gen_uval(rng), None, gen_tokens(rng, bad_ok=False)])
        for e in extra:
            ops.insert(rng.randint(1, len(ops)) if rng.random() < 0.8 else 0, e)
        ops = ops[:6]
    if second is None and rng.random() < 0.14:
        # the application registers response callbacks of its own (logout / re-login performed while the callbacks run)
        if not ops:
            ops = [[0]]
        for _ in range(rng.choice([1, 1, 2])):
            reg = [6] if rng.random() < 0.6 else [7, gen_uval(rng), rng.choice([None, None, 5]), gen_tokens(rng)]
            ops.insert(rng.randint(0, len(ops)), reg)
        ops = ops[:7]
    case = {'cfg': cfg, 'req': {'cookie': cookie, 'ip': ip, 'host': host, 'now': now, 'half': rng.random() < 0.25,
                                'tick': (not seam) and rng.random() < 0.25},
            'second': second, 'ops': ops,
            'origin': origin, 'other_u': other_u, 'kind': kind, 'clock': clock, 'seam': seam,
            'via_policy': rng.random() < 0.3,
            'omit': gen_omit(rng, cfg), 'secret_bytes': rng.random() < 0.15,
            'tokform': rng.choice(['tuple', 'tuple', 'list', 'gen', 'iter']),
            'numform': rng.choice(['int', 'int', 'int', 'str', 'float'])}
    return case


def valid(case):
    try:
        cfg, rq = case['cfg'], case['req']
        if cfg['hashalg'] not in ALGS or not isinstance(cfg['secret'], str):
            return False
        if not isinstance(rq['now'], int) or rq['now'] < 0 or rq['now'] >= 2 ** 40:
            return False
        if rq['ip'] not in IPS4 + IPS6 and not all(p.isdigit() and int(p) < 256 for p in rq['ip'].split('.')):
            return False
        if rq['host'] not in HOSTS or cfg['cookie_name'] not in ('auth_tkt', 'tk') or cfg['path'] not in ('/', '/app', '/a/b'):
            return False
        if rq['cookie'] is not None and not isinstance(rq['cookie'], str):
            return False
        if rq.get('half', False) not in (True, False):
            return False
        for k in ('timeout', 'reissue_time', 'max_age'):
            if cfg[k] is not None and not (isinstance(cfg[k], int) and -10 <= cfg[k] < 2 ** 40):
                return False
        if cfg['domain'] not in (None, '', 'example.org') or cfg['samesite'] not in ('Lax', 'Strict', None):
            return False
        sec = case.get('second')
        for op in case['ops']:
            if op[0] not in (0, 1, 2, 3, 4, 5, 6, 7):
                return False
            long_op = op[0] in (1, 4, 7)
            if long_op and (len(op) != 4 or not _uval_ok(op[1]) or not all(isinstance(t, str) for t in op[3])):
                return False
            if not long_op and len(op) != 1:
                return False
            if 3 <= op[0] <= 5 and not sec:
                return False
            if op[0] in (6, 7) and sec:
                return False
        if sec:
            c2 = sec['cfg']
            if set(c2) != set(cfg) or c2['hashalg'] not in ALGS or c2['cookie_name'] not in ('auth_tkt', 'tk') \
                    or not isinstance(c2['secret'], str) or c2['path'] != cfg['path'] or c2['domain'] != cfg['domain'] \
                    or c2['samesite'] != cfg['samesite']:
                return False
            for k in ('timeout', 'reissue_time', 'max_age'):
                if c2[k] is not None and not (isinstance(c2[k], int) and -10 <= c2[k] < 2 ** 40):
                    return False
            if sec['cookie'] is not None and not isinstance(sec['cookie'], str):
                return False
        if rq.get('tick', False) not in (True, False) or (rq.get('tick') and case.get('seam')):
            return False
        o = case.get('origin')
        if o is not None:
            if o['hashalg'] not in ALGS or not _uval_ok(o['u']) or not isinstance(o['t0'], int) or not 0 <= o['t0'] < 2 ** 40:
                return False
            if o['ip'] not in IPS4 + IPS6 and not all(p.isdigit() and int(p) < 256 for p in o['ip'].split('.')):
                return False
            if o.get('frac', 0) not in (0, 0.25, 0.5, 0.999):
                return False
        if case.get('clock') not in CLOCKS:
            return False
        om = case.get('omit')
        if om is not None:
            if len(om) != len(OMIT_FIELDS) or any(o and cfg[f] != DOC_DEFAULTS[f] for o, f in zip(om, OMIT_FIELDS)):
                return False
        if case.get('numform') not in (None, 'int', 'str', 'float'):
            return False
        if case.get('tokform') not in (None, 'tuple', 'list', 'gen', 'iter') or case.get('secret_bytes') not in (None, False, True):
            return False
        k = case.get('kind', '')
        return k in KINDS or (k.startswith('edited:') and k[7:] in EDITS)
    except Exception:
        return False


KINDS = {'none', 'garbage', 'foreign', 'foreign-edited', 'issued', 'other-secret', 'other-alg', 'other-ip',
         'hex8-overflow', 'issue-raised'}
EDITS = {'subst', 'subst-b', 'insert', 'delete', 'trunc', 'splice', 'upper-digest', 'recase-ts', 'pct', 'quotes',
         'ts-lenient', 'ts-neg', 'nonascii-digest', 'uni-digit', 'swap-fields', 'append', 'uni-field'}
CLOCKS = {'same', 'later', 'earlier', 'timeout-1', 'timeout+0', 'timeout+1', 'reissue-1', 'reissue+0', 'reissue+1'}


def _uval_ok(u):
    try:
        if u[0] == 3:
            return len(u) == 3 and u[1] in OTHER_FORMS and isinstance(u[2], str) and (other_object(u[1], u[2]) is None or True)
        k, s = u
        if k == 1:
            int(s)
            return str(int(s)) == s
        if k == 2:
            s.encode('latin-1')
        if k == 0:
            s.encode('utf-8')
        return k in (0, 1, 2) and isinstance(s, str)
    except Exception:
        return False


def targeted_cases(rng):
    """Cases aimed at the clauses most likely to break: boundaries, reissue sequences, leniency."""
    out = []
    for _ in range(600):
        c = gen_case(rng)
        out.append(c)
    # reissue sequences with an old valid ticket
    for seq in ([[1, [0, 'bob'], None, []], [0]], [[0], [1, [0, 'bob'], None, []]], [[2], [0]], [[0], [2]],
                [[0], [0]], [[0]], [[1, [0, 'bob'], None, []], [0], [0]]):
        for alg in ('md5', 'sha512'):
            cfg = {'secret': 'sec', 'cookie_name': 'auth_tkt', 'secure': False, 'include_ip': False, 'timeout': None,
                   'reissue_time': 10, 'max_age': None, 'http_only': False, 'path': '/', 'wild_domain': True,
                   'parent_domain': False, 'domain': None, 'hashalg': alg, 'samesite': 'Lax'}
            origin = {'secret': 'sec', 'hashalg': alg, 'ip': '0.0.0.0', 't0': 1000, 'u': [0, 'alice'], 'tokens': ['a']}
            ck = issue0(origin)
            out.append({'cfg': cfg, 'req': {'cookie': ck, 'ip': '127.0.0.1', 'host': 'example.com', 'now': 2000},
                        'ops': seq, 'origin': origin, 'other_u': None, 'kind': 'issued', 'clock': 'later', 'seam': False})
    return out
