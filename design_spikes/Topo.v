From Coq Require Import List NArith ZArith Bool Lia.
Import ListNotations.
Open Scope Z_scope.

Definition node := N.
Definition arc := (node * node)%type.

Section Kahn.
Variable arcs : list arc.

Definition children (r : node) : list node :=
  map snd (filter (fun a => N.eqb (fst a) r) arcs).

Definition upd (f : node -> Z) (n : node) (v : Z) : node -> Z :=
  fun m => if N.eqb m n then v else f m.

Definition inb (n : node) (l : list node) : bool := existsb (N.eqb n) l.

(* number of arcs into n whose source is not in em *)
Fixpoint pend_in (l : list arc) (n : node) (em : list node) : Z :=
  match l with
  | [] => 0
  | (a, b) :: l' => (if N.eqb b n && negb (inb a em) then 1 else 0) + pend_in l' n em
  end.
Definition pending := pend_in arcs.

Definition visit (st : list node * (node -> Z)) (c : node) : list node * (node -> Z) :=
  let '(rs, cnt) := st in
  let k := cnt c - 1 in
  (if k =? 0 then c :: rs else rs, upd cnt c k).

Fixpoint loop (fuel : nat) (roots : list node) (cnt : node -> Z) (em : list node) : list node :=
  match fuel with
  | O => em
  | S f =>
      match roots with
      | [] => em
      | r :: rs =>
          let '(rs', cnt') := fold_left visit (children r) (rs, cnt) in
          loop f rs' cnt' (r :: em)
      end
  end.

Lemma inb_In n l : inb n l = true <-> In n l.
Proof.
  unfold inb. rewrite existsb_exists. split.
  - intros (x & Hx & E). apply N.eqb_eq in E. subst; auto.
  - intros H. exists n. split; auto. apply N.eqb_refl.
Qed.

(* occurrences of n among the children of r, as a Z *)
Fixpoint occ (n : node) (l : list node) : Z :=
  match l with [] => 0 | x :: l' => (if N.eqb x n then 1 else 0) + occ n l' end.

Lemma occ_nonneg n l : 0 <= occ n l.
Proof. induction l; simpl; [lia|destruct (N.eqb a n); lia]. Qed.

Lemma occ_pos_In n l : 0 < occ n l -> In n l.
Proof.
  induction l as [|x l IH]; simpl; [lia|]. destruct (N.eqb_spec x n); [auto|]. intros; right; apply IH; lia.
Qed.

(* emitting r (not yet emitted) lowers pending n by the number of arcs r -> n *)
Lemma pend_in_emit l n em r : inb r em = false ->
  pend_in l n (r :: em) = pend_in l n em - occ n (map snd (filter (fun a => N.eqb (fst a) r) l)).
Proof.
  intros Hr. induction l as [|[a b] l IH]; [reflexivity|].
  cbn [pend_in filter fst]. rewrite IH. clear IH.
  assert (Ei : inb a (r :: em) = N.eqb a r || inb a em) by reflexivity. rewrite Ei.
  destruct (N.eqb a r) eqn:Ear.
  - apply N.eqb_eq in Ear. subst a. rewrite Hr. cbn [map snd occ orb negb].
    destruct (N.eqb b n); cbn [andb]; lia.
  - cbn [orb]. lia.
Qed.

Lemma pending_emit n em r : inb r em = false ->
  pending n (r :: em) = pending n em - occ n (children r).
Proof. apply pend_in_emit. Qed.

Lemma pend_in_nonneg l n em : 0 <= pend_in l n em.
Proof. induction l as [|[a b] l IH]; simpl; [lia|]. destruct (_ && _); lia. Qed.

(* if pending n em = 0 then every arc into n comes from em *)
Lemma pend_in_zero l n em : pend_in l n em = 0 -> forall a, In (a, n) l -> In a em.
Proof.
  induction l as [|[a b] l IH]; cbn [pend_in In]; intros H x Hx; [contradiction|].
  pose proof (pend_in_nonneg l n em).
  destruct Hx as [E|Hx].
  - injection E as -> ->. rewrite N.eqb_refl in H. cbn [andb] in H.
    destruct (inb x em) eqn:Hi; [apply inb_In; auto|]. cbn [negb] in H. lia.
  - apply IH; auto. destruct (_ && _); lia.
Qed.

(* effect of the inner fold *)
Lemma fold_visit cs : forall rs cnt rs' cnt',
  (forall n, occ n cs <= cnt n) ->
  fold_left visit cs (rs, cnt) = (rs', cnt') ->
  (forall n, cnt' n = cnt n - occ n cs) /\
  (forall n, In n rs' -> In n rs \/ (0 < occ n cs /\ cnt' n = 0)).
Proof.
  induction cs as [|c cs IH]; intros rs cnt rs' cnt' Hle H; simpl in H.
  - injection H as <- <-. split; [intros; simpl; lia|auto].
  - assert (Hle' : forall n, occ n cs <= upd cnt c (cnt c - 1) n).
    { intros n. specialize (Hle n). simpl in Hle. unfold upd.
      rewrite (N.eqb_sym n c). destruct (N.eqb_spec c n) as [->|]; lia. }
    destruct (IH _ _ _ _ Hle' H) as (Hc & Hr). split.
    + intros n. rewrite Hc. unfold upd. simpl. rewrite (N.eqb_sym n c).
      destruct (N.eqb_spec c n) as [->|]; lia.
    + intros n Hn. destruct (Hr n Hn) as [Hin|(Hp & Hz)].
      * destruct (cnt c - 1 =? 0) eqn:Ek; [|auto].
        destruct Hin as [<-|Hin]; [|auto]. right.
        pose proof (Hle' c) as H1. unfold upd in H1. rewrite N.eqb_refl in H1.
        pose proof (occ_nonneg c cs). simpl. rewrite N.eqb_refl.
        split; [lia|]. rewrite Hc. unfold upd. rewrite N.eqb_refl. lia.
      * right. split; [|auto]. simpl. destruct (N.eqb c n); lia.
Qed.

Lemma fold_visit_nodup cs : forall rs cnt rs' cnt',
  (forall n, occ n cs <= cnt n) -> NoDup rs -> (forall n, In n rs -> cnt n = 0) ->
  fold_left visit cs (rs, cnt) = (rs', cnt') -> NoDup rs'.
Proof.
  induction cs as [|c cs IH]; intros rs cnt rs' cnt' Hle Hnd Hz H; simpl in H.
  - injection H as <- <-. exact Hnd.
  - assert (Hc_notin : ~ In c rs).
    { intros Hin. pose proof (Hz c Hin). pose proof (Hle c) as H1. simpl in H1.
      rewrite N.eqb_refl in H1. pose proof (occ_nonneg c cs). lia. }
    assert (Hle' : forall n, occ n cs <= upd cnt c (cnt c - 1) n).
    { intros n. specialize (Hle n). simpl in Hle. unfold upd.
      rewrite (N.eqb_sym n c). destruct (N.eqb_spec c n) as [->|]; lia. }
    eapply IH; [exact Hle'| | |exact H].
    + destruct (cnt c - 1 =? 0); [constructor; auto|auto].
    + intros n Hn. unfold upd. destruct (N.eqb_spec n c) as [->|Hne].
      * destruct (cnt c - 1 =? 0) eqn:Ek; [lia|contradiction].
      * apply Hz. destruct (cnt c - 1 =? 0); [destruct Hn; [congruence|auto]|auto].
Qed.

Definition before_ok (em : list node) : Prop :=
  forall l1 b l2, em = l1 ++ b :: l2 -> forall a, In (a, b) arcs -> In a l2.

Record Inv (roots : list node) (cnt : node -> Z) (em : list node) : Prop := {
  inv_cnt : forall n, cnt n = pending n em;
  inv_roots : forall n, In n roots -> ~ In n em /\ cnt n = 0;
  inv_nodup : NoDup roots;
  inv_order : before_ok em
}.

Lemma occ_children_le n r em : inb r em = false -> occ n (children r) <= pending n em.
Proof.
  intros Hr. pose proof (pending_emit n em r Hr). pose proof (pend_in_nonneg arcs n (r :: em)).
  unfold pending in *. lia.
Qed.

Lemma not_In_inb n l : ~ In n l -> inb n l = false.
Proof. intros H. destruct (inb n l) eqn:E; [apply inb_In in E; contradiction|reflexivity]. Qed.

Lemma inv_step r rs cnt em rs' cnt' :
  Inv (r :: rs) cnt em ->
  fold_left visit (children r) (rs, cnt) = (rs', cnt') ->
  Inv rs' cnt' (r :: em).
Proof.
  intros [Hc Hr Hnd Ho] Hf.
  destruct (Hr r (or_introl eq_refl)) as (Hrem & Hr0).
  pose proof (not_In_inb _ _ Hrem) as Hrb.
  assert (Hle : forall n, occ n (children r) <= cnt n).
  { intros n. rewrite Hc. apply occ_children_le; auto. }
  destruct (fold_visit _ _ _ _ _ Hle Hf) as (Hc' & Hr').
  inversion Hnd as [|? ? Hrnot Hnd']; subst.
  constructor.
  - intros n. rewrite Hc', Hc, pending_emit by auto. reflexivity.
  - intros n Hn. destruct (Hr' n Hn) as [Hin|(Hp & Hz)].
    + destruct (Hr n (or_intror Hin)) as (Hne & Hn0). split.
      * intros [<-|Hin']; [contradiction|contradiction].
      * rewrite Hc'. pose proof (Hle n). pose proof (occ_nonneg n (children r)). lia.
    + split; [|auto]. intros [<-|Hin'].
      * (* r itself: cnt r = 0 but occ r (children r) > 0 contradicts Hle *)
        pose proof (Hle r). lia.
      * (* n already emitted: then all arcs into n come from em, so pending n em = 0, but occ > 0 *)
        pose proof (Hle n) as H1.
        apply in_split in Hin'. destruct Hin' as (l1 & l2 & ->).
        assert (Hall : forall a, In (a, n) arcs -> In a (l1 ++ n :: l2)).
        { intros a Ha. apply in_or_app. right. right. eapply Ho; eauto. }
        assert (Hp0 : pending n (l1 ++ n :: l2) = 0).
        { unfold pending. clear -Hall. induction arcs as [|[a b] l IH]; simpl; [reflexivity|].
          rewrite IH by (intros; apply Hall; right; auto).
          destruct (N.eqb_spec b n) as [->|]; simpl; [|reflexivity].
          assert (E : inb a (l1 ++ n :: l2) = true) by (apply inb_In; apply Hall; left; reflexivity).
          rewrite E. reflexivity. }
        rewrite Hc in H1. lia.
  - (* NoDup rs' *) eapply fold_visit_nodup; [exact Hle|exact Hnd'| |exact Hf].
    intros n Hn. apply (Hr n (or_intror Hn)).
  - (* order *) intros l1 b l2 E a Ha. destruct l1 as [|x l1]; simpl in E; injection E as E1 E2.
    + (* b = r, cnt r = 0 -> all preds emitted *)
      subst. rewrite Hc in Hr0. eapply pend_in_zero; eauto.
    + eapply Ho; eauto.
Qed.

Lemma loop_inv fuel : forall roots cnt em, Inv roots cnt em -> before_ok (loop fuel roots cnt em).
Proof.
  induction fuel as [|f IH]; intros roots cnt em HI; simpl; [apply HI|].
  destruct roots as [|r rs]; [apply HI|].
  destruct (fold_left visit (children r) (rs, cnt)) as [rs' cnt'] eqn:Hf.
  apply IH. eapply inv_step; eauto.
Qed.

(* initial state: counters = in-degrees, roots = the in-degree-0 names in declaration order *)
Definition indeg (n : node) : Z := pending n [].
Definition init_roots (names : list node) : list node := filter (fun n => indeg n =? 0) names.

Theorem kahn_respects names fuel :
  NoDup names ->
  before_ok (loop fuel (init_roots names) indeg []).
Proof.
  intros Hnd. apply loop_inv. constructor.
  - reflexivity.
  - intros n Hn. apply filter_In in Hn. destruct Hn as (_ & Hz). split; [auto|lia].
  - apply NoDup_filter. exact Hnd.
  - intros l1 b l2 E. destruct l1; discriminate.
Qed.
End Kahn.
Print Assumptions kahn_respects.

