From Coq Require Import List NArith Bool Lia.
Import ListNotations.
Definition text := list N.

Inductive item := Lit (l : text) | Hole (cls : N -> bool).

Fixpoint strip_prefix (p s : text) : option text :=
  match p, s with
  | [], _ => Some s
  | x :: p', y :: s' => if N.eqb x y then strip_prefix p' s' else None
  | _ :: _, [] => None
  end.

Fixpoint span (cls : N -> bool) (s : text) : text * text :=
  match s with
  | [] => ([], [])
  | c :: s' => if cls c then let (p, r) := span cls s' in (c :: p, r) else ([], s)
  end.

(* tr = taken prefix, reversed; tries longest first, gives back one char at a time *)
Fixpoint back (tr rest : text) (k : text -> option (list text)) : option (list text) :=
  match tr with
  | [] => None
  | c :: tr' => match k rest with
                | Some caps => Some (rev tr :: caps)
                | None => back tr' (c :: rest) k
                end
  end.

Fixpoint mi (its : list item) (s : text) : option (list text) :=
  match its with
  | [] => match s with [] => Some [] | _ => None end
  | Lit l :: its' => match strip_prefix l s with Some r => mi its' r | None => None end
  | Hole cls :: its' => let (p, r) := span cls s in back (rev p) r (mi its')
  end.

Inductive Dec : list item -> text -> list text -> Prop :=
| D_nil : Dec [] [] []
| D_lit l its r caps : Dec its r caps -> Dec (Lit l :: its) (l ++ r) caps
| D_hole cls its v r caps : v <> [] -> forallb cls v = true -> Dec its r caps ->
    Dec (Hole cls :: its) (v ++ r) (v :: caps).

Lemma strip_prefix_spec p s r : strip_prefix p s = Some r <-> s = p ++ r.
Proof.
  revert s; induction p as [|x p IH]; intros s; simpl.
  - split; congruence.
  - destruct s as [|y s]; [split; discriminate|].
    destruct (N.eqb_spec x y) as [->|Hne].
    + rewrite IH. split; [intros ->; reflexivity|intros H; injection H; auto].
    + split; [discriminate|intros H; injection H; congruence].
Qed.

Lemma span_spec cls s p r : span cls s = (p, r) ->
  s = p ++ r /\ forallb cls p = true /\ (match r with [] => True | c :: _ => cls c = false end).
Proof.
  revert p r; induction s as [|c s IH]; intros p r; simpl.
  - intros H; injection H as <- <-; auto.
  - destruct (cls c) eqn:Hc.
    + destruct (span cls s) as [p' r'] eqn:E. intros H; injection H as <- <-.
      destruct (IH _ _ eq_refl) as (-> & Hp & Hr). simpl. rewrite Hc. auto.
    + intros H; injection H as <- <-. simpl. rewrite Hc. auto.
Qed.

(* soundness of back: any answer splits (rev tr ++ rest) into a nonempty prefix of rev tr and the rest *)
Lemma back_sound k tr rest caps0 :
  back tr rest k = Some caps0 ->
  exists v w caps, caps0 = v :: caps /\ v <> [] /\ rev tr = v ++ w /\ k (w ++ rest) = Some caps.
Proof.
  revert rest; induction tr as [|c tr IH]; intros rest; simpl; [discriminate|].
  destruct (k rest) as [caps|] eqn:Ek.
  - intros H; injection H as <-. exists (rev tr ++ [c]), [], caps. simpl.
    repeat split; auto using app_nil_r. destruct (rev tr); discriminate.
  - intros H. destruct (IH _ H) as (v & w & caps & -> & Hv & Hrev & Hk).
    exists v, (w ++ [c]), caps. repeat split; auto.
    + rewrite Hrev, app_assoc. reflexivity.
    + rewrite <- app_assoc. exact Hk.
Qed.

Theorem mi_sound its s caps : mi its s = Some caps -> Dec its s caps.
Proof.
  revert s caps; induction its as [|it its IH]; intros s caps; simpl.
  - destruct s; [intros H; injection H as <-; constructor|discriminate].
  - destruct it as [l|cls].
    + destruct (strip_prefix l s) as [r|] eqn:E; [|discriminate].
      apply strip_prefix_spec in E. subst s. intros H. constructor. auto.
    + destruct (span cls s) as [p r] eqn:E. apply span_spec in E. destruct E as (-> & Hp & _).
      intros H. apply back_sound in H. destruct H as (v & w & caps' & -> & Hv & Hrev & Hk).
      rewrite rev_involutive in Hrev. subst p. rewrite <- app_assoc. constructor; auto.
      rewrite forallb_app in Hp. apply andb_true_iff in Hp. tauto.
Qed.

Lemma last_case (w : text) : w = [] \/ exists w' x, w = w' ++ [x].
Proof. induction w using rev_ind; eauto. Qed.

(* completeness of back: if some nonempty prefix v of rev tr works, back finds an answer *)
Lemma back_complete k tr rest v w caps :
  rev tr = v ++ w -> v <> [] -> k (w ++ rest) = Some caps ->
  exists caps0, back tr rest k = Some caps0.
Proof.
  revert rest v w; induction tr as [|c tr IH]; intros rest v w Hrev Hv Hk; simpl.
  - simpl in Hrev. destruct v; [congruence|discriminate].
  - destruct (k rest) as [caps1|] eqn:Ek; [eauto|].
    simpl in Hrev.
    destruct (last_case w) as [->|(w' & x & ->)].
    + simpl in Hk. congruence.
    + rewrite app_assoc in Hrev. apply app_inj_tail in Hrev. destruct Hrev as (Hrev & ->).
      apply (IH (x :: rest) v w'); auto. rewrite <- app_assoc in Hk. exact Hk.
Qed.

Lemma forallb_prefix_span cls v r : forallb cls v = true ->
  exists w r', span cls (v ++ r) = (v ++ w, r') /\ r = w ++ r'.
Proof.
  induction v as [|c v IH]; simpl; intros H.
  - destruct (span cls r) as [p r'] eqn:E. apply span_spec in E. exists p, r'. tauto.
  - apply andb_true_iff in H as [Hc Hv]. rewrite Hc. destruct (IH Hv) as (w & r' & E & ->).
    rewrite E. exists w, r'. auto.
Qed.

Theorem mi_complete its s caps : Dec its s caps -> exists caps', mi its s = Some caps'.
Proof.
  induction 1 as [|l its r caps HD IH|cls its v r caps Hv Hcls HD IH]; simpl.
  - eauto.
  - assert (E : strip_prefix l (l ++ r) = Some r) by (apply strip_prefix_spec; reflexivity).
    rewrite E. exact IH.
  - destruct (forallb_prefix_span cls v r Hcls) as (w & r' & E & ->). rewrite E.
    destruct IH as (caps' & Hk).
    apply (back_complete (mi its) (rev (v ++ w)) r' v w caps'); auto.
    apply rev_involutive.
Qed.
Print Assumptions mi_complete.
Eval vm_compute in mi [Lit [47%N]; Hole (fun c => negb (N.eqb c 47)); Lit [46%N]; Hole (fun c => negb (N.eqb c 47))] [47;97;46;98;46;99]%N.
