From Coq Require Import List ZArith Bool Lia.
Import ListNotations.
Open Scope Z_scope.

Inductive kind := KN | KRet | KExc.
Definition kind_eqb (a b : kind) : bool :=
  match a, b with KN, KN | KRet, KRet | KExc, KExc => true | _, _ => false end.

Inductive stmt :=
| Skip | Push | Pop | Call | Return | Raise
| Seq (a b : stmt) | TryFinally (a b : stmt) | TryExcept (a h : stmt)
| If (a b : stmt) | Loop (a : stmt).

Inductive exec : stmt -> Z -> kind -> Z -> Prop :=
| E_Skip d : exec Skip d KN d
| E_Push d : exec Push d KN (d + 1)
| E_Pop d : exec Pop d KN (d - 1)
| E_CallOk d : exec Call d KN d
| E_CallExc d : exec Call d KExc d
| E_Return d : exec Return d KRet d
| E_Raise d : exec Raise d KExc d
| E_SeqN a b d d1 k d2 : exec a d KN d1 -> exec b d1 k d2 -> exec (Seq a b) d k d2
| E_SeqX a b d k d1 : exec a d k d1 -> k <> KN -> exec (Seq a b) d k d1
| E_Fin a b d k d1 k2 d2 : exec a d k d1 -> exec b d1 k2 d2 ->
    exec (TryFinally a b) d (match k2 with KN => k | _ => k2 end) d2
| E_ExcH a h d d1 k d2 : exec a d KExc d1 -> exec h d1 k d2 -> exec (TryExcept a h) d k d2
| E_ExcNo a h d k d1 : exec a d k d1 -> k <> KExc -> exec (TryExcept a h) d k d1
| E_IfL a b d k d1 : exec a d k d1 -> exec (If a b) d k d1
| E_IfR a b d k d1 : exec b d k d1 -> exec (If a b) d k d1
| E_Loop0 a d : exec (Loop a) d KN d
| E_LoopS a d d1 k d2 : exec a d KN d1 -> exec (Loop a) d1 k d2 -> exec (Loop a) d k d2
| E_LoopX a d k d1 : exec a d k d1 -> k <> KN -> exec (Loop a) d k d1.

Definition summ := (kind * Z)%type.

Definition loop_ok (p : summ) : bool := match p with (KN, x) => x =? 0 | _ => true end.
Definition not_normal (p : summ) : bool := negb (kind_eqb (fst p) KN).

Fixpoint analyse (s : stmt) : option (list summ) :=
  match s with
  | Skip => Some [(KN,0)] | Push => Some [(KN,1)] | Pop => Some [(KN,-1)]
  | Call => Some [(KN,0);(KExc,0)] | Return => Some [(KRet,0)] | Raise => Some [(KExc,0)]
  | Seq a b =>
      match analyse a, analyse b with
      | Some A, Some B =>
          Some (flat_map (fun '(k,x) => match k with
                                        | KN => map (fun '(k2,y) => (k2, x + y)) B
                                        | _ => [(k,x)] end) A)
      | _, _ => None end
  | TryFinally a b =>
      match analyse a, analyse b with
      | Some A, Some B =>
          Some (flat_map (fun '(k,x) => map (fun '(k2,y) => (match k2 with KN => k | _ => k2 end, x + y)) B) A)
      | _, _ => None end
  | TryExcept a h =>
      match analyse a, analyse h with
      | Some A, Some H =>
          Some (flat_map (fun '(k,x) => match k with
                                        | KExc => map (fun '(k2,y) => (k2, x + y)) H
                                        | _ => [(k,x)] end) A)
      | _, _ => None end
  | If a b => match analyse a, analyse b with Some A, Some B => Some (A ++ B) | _, _ => None end
  | Loop a =>
      match analyse a with
      | Some A =>
          if forallb loop_ok A
          then Some ((KN,0) :: filter not_normal A)
          else None
      | None => None end
  end.

Lemma analyse_sound s d k d' : exec s d k d' -> forall L, analyse s = Some L -> In (k, d' - d) L.
Proof.
  induction 1; intros L HL; simpl in HL.
  all: try (injection HL as <-; simpl; rewrite ?Z.sub_diag; try replace (d + 1 - d) with 1 by lia; try replace (d - 1 - d) with (-1) by lia; auto; fail).
  - (* SeqN *) destruct (analyse a) as [A|]; [|discriminate]. destruct (analyse b) as [B|]; [|discriminate].
    injection HL as <-. apply in_flat_map. exists (KN, d1 - d). split; [auto|].
    apply in_map_iff. exists (k, d2 - d1). split; [f_equal; lia|auto].
  - (* SeqX *) destruct (analyse a) as [A|]; [|discriminate]. destruct (analyse b) as [B|]; [|discriminate].
    injection HL as <-. apply in_flat_map. exists (k, d1 - d). split; [auto|]. destruct k; [congruence| |]; simpl; auto.
  - (* Fin *) destruct (analyse a) as [A|]; [|discriminate]. destruct (analyse b) as [B|]; [|discriminate].
    injection HL as <-. apply in_flat_map. exists (k, d1 - d). split; [auto|].
    apply in_map_iff. exists (k2, d2 - d1). split; [f_equal; lia|auto].
  - (* ExcH *) destruct (analyse a) as [A|]; [|discriminate]. destruct (analyse h) as [H'|]; [|discriminate].
    injection HL as <-. apply in_flat_map. exists (KExc, d1 - d). split; [auto|].
    apply in_map_iff. exists (k, d2 - d1). split; [f_equal; lia|auto].
  - (* ExcNo *) destruct (analyse a) as [A|]; [|discriminate]. destruct (analyse h) as [H'|]; [|discriminate].
    injection HL as <-. apply in_flat_map. exists (k, d1 - d). split; [auto|]. destruct k; [| |congruence]; simpl; auto.
  - destruct (analyse a) as [A|]; [|discriminate]. destruct (analyse b) as [B|]; [|discriminate].
    injection HL as <-. apply in_or_app; auto.
  - destruct (analyse a) as [A|]; [|discriminate]. destruct (analyse b) as [B|]; [|discriminate].
    injection HL as <-. apply in_or_app; auto.
  - (* Loop0 *) destruct (analyse a) as [A|]; [|discriminate].
    destruct (forallb loop_ok A); [|discriminate]. injection HL as <-. left. f_equal. lia.
  - (* LoopS *) pose proof HL as HL'. destruct (analyse a) as [A|] eqn:EA; [|discriminate].
    destruct (forallb loop_ok A) eqn:EF; [|discriminate]. pose proof EF as EF0.
    specialize (IHexec1 A eq_refl). rewrite forallb_forall in EF. specialize (EF _ IHexec1). simpl in EF.
    assert (d1 = d) by lia. subst d1.
    apply IHexec2. simpl. rewrite EA, EF0. exact HL'.
  - (* LoopX *) destruct (analyse a) as [A|] eqn:EA; [|discriminate].
    destruct (forallb loop_ok A); [|discriminate]. injection HL as <-. right.
    apply filter_In. split; [auto|]. unfold not_normal. destruct k; simpl; congruence.
Qed.

(* reflective use *)
Definition balanced (s : stmt) : bool :=
  match analyse s with Some L => forallb (fun '(_, x) => x =? 0) L | None => false end.
Theorem balanced_sound s : balanced s = true -> forall d k d', exec s d k d' -> d' = d.
Proof.
  unfold balanced. destruct (analyse s) as [L|] eqn:E; [|discriminate]. intros HB d k d' HE.
  pose proof (analyse_sound _ _ _ _ HE L E) as HI. rewrite forallb_forall in HB. specialize (HB _ HI). simpl in HB. lia.
Qed.
(* invoke_exception_view skeleton: push; try call except (if reraise: raise); raise finally pop *)
Definition iev := Seq Call (Seq Push (TryFinally (TryExcept Call (Seq (If Raise Skip) Raise)) Pop)).
Example iev_balanced : balanced iev = true. Proof. vm_compute. reflexivity. Qed.
(* get_root skeleton: push; call root_factory; return  -- unbalanced on raise *)
Definition get_root := Seq Push (Seq Call Return).
Example get_root_analysis : analyse get_root = Some [(KRet,1);(KExc,1)]. Proof. vm_compute. reflexivity. Qed.
Print Assumptions balanced_sound.
