open Model
let rec n_of_int i = if i = 0 then N0 else Npos (pos_of_int i)
and pos_of_int i = if i = 1 then XH else if i land 1 = 0 then XO (pos_of_int (i lsr 1)) else XI (pos_of_int (i lsr 1))
let rec int_of_pos = function XH -> 1 | XO p -> 2 * int_of_pos p | XI p -> 2 * int_of_pos p + 1
let int_of_n = function N0 -> 0 | Npos p -> int_of_pos p
let () =
  try while true do
    let line = input_line stdin in
    let ints = List.filter (fun s -> s <> "") (String.split_on_char ' ' line) |> List.map int_of_string in
    let res = split_path_info (List.map n_of_int ints) in
    print_endline (String.concat " | " (List.map (fun seg -> String.concat " " (List.map (fun c -> string_of_int (int_of_n c)) seg)) res))
  done with End_of_file -> ()
