From Coq Require Import List NArith Bool Lia.
Import ListNotations.
Open Scope N_scope.

Definition text := list N.
Definition slash : N := 47.
Definition dot : N := 46.

Fixpoint text_eqb (a b : text) : bool :=
  match a, b with
  | [], [] => true
  | x :: a', y :: b' => N.eqb x y && text_eqb a' b'
  | _, _ => false
  end.

(* Python: s.split('/') *)
Fixpoint split_on (c : N) (s : text) : list text :=
  match s with
  | [] => [[]]
  | x :: s' =>
      if N.eqb x c then [] :: split_on c s'
      else match split_on c s' with
           | [] => [[x]]   (* impossible *)
           | h :: t => (x :: h) :: t
           end
  end.

Definition is_dot (s : text) := text_eqb s [dot].
Definition is_dotdot (s : text) := text_eqb s [dot; dot].

(* clean is kept reversed *)
Definition step (clean_rev : list text) (seg : text) : list text :=
  match seg with
  | [] => clean_rev
  | _ => if is_dot seg then clean_rev
         else if is_dotdot seg then tl clean_rev
         else seg :: clean_rev
  end.

Definition split_path_info (p : text) : list text :=
  rev (fold_left step (split_on slash p) []).

Definition normal_seg (s : text) : Prop :=
  s <> [] /\ s <> [dot] /\ s <> [dot;dot] /\ ~ In slash s.

Lemma text_eqb_eq a b : text_eqb a b = true <-> a = b.
Proof.
  revert b; induction a as [|x a IH]; destruct b as [|y b]; simpl; try (split; congruence).
  rewrite andb_true_iff, N.eqb_eq, IH. split; [intros [-> ->]; reflexivity | intros H; inversion H; auto].
Qed.

Lemma split_on_no_sep c s : Forall (fun seg => ~ In c seg) (split_on c s).
Proof.
  induction s as [|x s IH]; simpl.
  - constructor; [intros []|constructor].
  - destruct (N.eqb_spec x c) as [->|Hne].
    + constructor; [intros []|exact IH].
    + destruct (split_on c s) as [|h t]; [constructor; [simpl; intuition|constructor]|].
      inversion IH; subst. constructor; [simpl; intuition|assumption].
Qed.

Lemma step_normal acc seg :
  ~ In slash seg -> Forall normal_seg acc -> Forall normal_seg (step acc seg).
Proof.
  intros Hns Hacc. unfold step. destruct seg as [|x seg]; [assumption|].
  destruct (is_dot (x::seg)) eqn:Hd; [assumption|].
  destruct (is_dotdot (x::seg)) eqn:Hdd.
  - destruct acc; simpl; [constructor|inversion Hacc; assumption].
  - constructor; [|assumption]. unfold normal_seg. repeat split; try assumption.
    + discriminate.
    + intros E. unfold is_dot in Hd. rewrite E in Hd. simpl in Hd. discriminate.
    + intros E. unfold is_dotdot in Hdd. rewrite E in Hdd. simpl in Hdd. discriminate.
Qed.

Theorem split_path_info_normal p : Forall normal_seg (split_path_info p).
Proof.
  unfold split_path_info. apply Forall_rev.
  assert (H : forall segs acc, Forall (fun s => ~ In slash s) segs -> Forall normal_seg acc ->
            Forall normal_seg (fold_left step segs acc)).
  { induction segs as [|s segs IH]; intros acc Hs Hacc; simpl; [assumption|].
    inversion Hs; subst. apply IH; [assumption|apply step_normal; assumption]. }
  apply H; [apply split_on_no_sep|constructor].
Qed.
Print Assumptions split_path_info_normal.

From Coq Require Extraction ExtrOcamlBasic.
Extraction "model.ml" split_path_info.
