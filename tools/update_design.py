#!/usr/bin/env python3
"""tools/update_design.py -- regenerate the generated parts of DESIGN.md: the 8.3 findings table (from
known_findings.json), the count of fix: commits, and the 8.5 seed table (tools/seed_table.py)."""
import re, subprocess
p = '/verif/DESIGN.md'
s = open(p).read()
tab = subprocess.run(['python3', '/verif/tools/findings_table.py'], capture_output=True, text=True).stdout
i = s.index('| finding id | property | status |')
j = s.index('### 8.4 Seeded changes')
s = s[:i] + tab.rstrip('\n') + '\n\n' + s[j:]
n = subprocess.run('git -C /repo log --oneline | grep -c " fix:"', shell=True, capture_output=True, text=True).stdout.strip()
s = re.sub(r'\d+ `fix:` commits\s+were made', '%s `fix:` commits\nwere made' % n, s)
seed = subprocess.run(['python3', '/verif/tools/seed_table.py'], capture_output=True, text=True).stdout
m = '<!-- SEED-TABLE-BEGIN -->'
s = s[:s.index(m)] + m + '\n\n### 8.5 (table) Seeded changes and the outcome of the checks\n\n' + seed
open(p, 'w').write(s)
print('fix commits:', n)
