#!/usr/bin/env python3
"""Merge harness/cXX/findings.json into known_findings.json (coordinator tool, never run by a check).
Existing entries keep their status/commit unless the source says otherwise; 'fixed' is only set by hand
(tools/mark_fixed.py) once the repair is committed to /repo."""
import glob, json, os
VERIF = os.path.dirname(os.path.dirname(os.path.abspath(__file__)))
kf = os.path.join(VERIF, 'known_findings.json')
cur = json.load(open(kf)) if os.path.exists(kf) else {'findings': []}
byid = {e['id']: e for e in cur['findings']}
for f in sorted(glob.glob(os.path.join(VERIF, 'harness', 'c*', 'findings.json'))):
    try:
        j = json.load(open(f))
    except Exception as e:
        print('skip', f, e); continue
    for e in j.get('findings', []):
        old = byid.get(e['id'])
        if old and old.get('status') == 'fixed':
            old['witnesses'] = e.get('witnesses', old.get('witnesses', []))
            continue
        byid[e['id']] = dict(old or {}, **e)
cur['findings'] = sorted(byid.values(), key=lambda e: (e['property'], e['id']))
json.dump(cur, open(kf, 'w'), indent=1, sort_keys=True)
for e in cur['findings']:
    print(e['property'], e['id'], e['status'], len(e.get('witnesses', [])))
