#!/usr/bin/env python3
"""tools/mark_fixed.py <finding-id> <commit> -- record a repaired finding (fixed: property=<id> <commit> <what failed>)."""
import json, sys
kf = '/verif/known_findings.json'
j = json.load(open(kf))
for e in j['findings']:
    if e['id'] == sys.argv[1]:
        e['status'] = 'fixed'; e['commit'] = sys.argv[2]
        e['record'] = 'fixed: property=%s %s %s' % (e['property'], sys.argv[2], e['what'])
        print(e['record'])
json.dump(j, open(kf, 'w'), indent=1, sort_keys=True)
