#!/venv/bin/python
"""tools/repin.py PID rel/path.py Qual.name [src_root] -- recompute one shape pin after a reviewed source change."""
import json, sys
sys.path[:0] = ['/verif']
from harness.common import facts as F
pid, rel, qual = sys.argv[1:4]
src = sys.argv[4] if len(sys.argv) > 4 else '/repo/src'
p = '/verif/harness/%s/pins.json' % pid.lower()
pins = json.load(open(p))
new = F.compute_pins(src, {rel: [qual]})[rel][qual]
print(pid, rel, qual, pins.get(rel, {}).get(qual), '->', new)
pins.setdefault(rel, {})[qual] = new
json.dump(pins, open(p, 'w'), indent=1, sort_keys=True)
