#!/usr/bin/env python3
"""Regenerate MANIFEST.json from harness/cXX/prop.py metadata (run: python3 tools/gen_manifest.py)."""
import importlib
import json
import os
import sys

VERIF = os.path.dirname(os.path.dirname(os.path.abspath(__file__)))
sys.path.insert(0, VERIF)
sys.path.insert(0, '/repo/src')

ALL = ['C%02d' % i for i in range(1, 21)]
checks, na = [], []
for pid in ALL:
    p = os.path.join(VERIF, 'harness', pid.lower(), 'prop.py')
    if not os.path.exists(p) or not os.path.exists(os.path.join(VERIF, 'harness', pid.lower(), 'READY')):
        na.append({'property_id': pid, 'reason': 'check not built yet (design in DESIGN.md section 4); not claimed until its model, theorems and correspondence run exist'})
        continue
    m = importlib.import_module('harness.%s.prop' % pid.lower())
    checks.append({
        'property_id': pid,
        'quick_cmd': './check %s --tier quick' % pid,
        'thorough_cmd': './check %s --tier thorough' % pid,
        'evidence_file': '/verif/evidence/%s.json' % pid,
        'replay_cmd_template': './check %s --replay {path}' % pid,
        'engine': 'coq-model+correspondence',
        'level_claimed': {'category': 'proof', 'text': m.LEVEL_TEXT, 'design_ref': 'DESIGN.md section 4 %s' % pid},
        'level_note': m.LEVEL_NOTE,
        'technique': m.TECHNIQUE,
    })
man = {
    'version': 1,
    'setup_cmd': './setup.sh',
    'hooks': {'guard': 'PYRAMID_VERIF', 'enable': 'no source hooks: every observation goes through public seams; checks export PYRAMID_VERIF=1 for uniformity',
              'baseline_off_cmd': 'cd /repo && /venv/bin/python -m pytest -q -p no:cacheprovider',
              'source_commits': [], 'add_only': True},
    'engines': [{'name': 'coq-model+correspondence', 'path': '/verif/check',
                 'serves_properties': [c['property_id'] for c in checks],
                 'kind_free_text': 'Coq 8.16.1 theorems over an executable Gallina model (coq/Model, coq/Proofs, coq/Props); facts regenerated from /repo/src by a Python-ast extractor (coq/Gen); model extracted to OCaml and run against the implementation on generated cases; violation search with an executable spec from the same development'}],
    'checks': checks,
    'not_applicable': na,
    'notes': 'All checks: exit 0 = property held; exit 1 + VIOLATION line otherwise. known_findings.json lists recorded findings (KNOWN-FINDING lines) and fixed entries.',
}
with open(os.path.join(VERIF, 'MANIFEST.json'), 'w') as f:
    json.dump(man, f, indent=1)
print('checks:', [c['property_id'] for c in checks])
