#!/bin/bash
# tools/verify_seed.sh <dir with patch.diff demo.py meta.json> [base-tree]  -- confirm a seeded change independently
# exit 0 iff: demo passes on clean tree, patch applies, suite passes with it, demo fails with it.
d=$(readlink -f "$1"); base=${2:-/repo}
wt=/tmp/vseed_$$_$RANDOM
git -C /repo worktree add -q --detach $wt HEAD || exit 2
if [ "$base" != "/repo" ]; then (cd $base && git diff) | git -C $wt apply || { echo "cannot apply base diff"; git -C /repo worktree remove --force $wt; exit 2; }; fi
cd $wt
PYTHONPATH=$wt/src /venv/bin/python -W ignore $d/demo.py >/tmp/vseed_out_$$ 2>&1; r0=$?
git apply $d/patch.diff || { echo "patch does not apply"; cd /; git -C /repo worktree remove --force $wt; exit 2; }
suite=$(PYTHONPATH=$wt/src /venv/bin/python -m pytest -q -p no:cacheprovider -x 2>&1 | tail -1)
PYTHONPATH=$wt/src /venv/bin/python -W ignore $d/demo.py >/tmp/vseed_out2_$$ 2>&1; r1=$?
cd /; git -C /repo worktree remove --force $wt; rm -f /tmp/vseed_out_$$ /tmp/vseed_out2_$$
echo "demo_clean_exit=$r0 suite='$suite' demo_changed_exit=$r1"
case "$suite" in *"2637 passed"*) ok=1;; *) ok=0;; esac
[ $r0 -eq 0 ] && [ $r1 -ne 0 ] && [ $ok -eq 1 ]
