#!/bin/bash
# tools/seed_round3.sh PID... -- import round-8 seeds (numbered 22..23) and run the check on each (first-run outcome is recorded)
cd /verif
for p in "$@"; do
  [ -d /tmp/seed8_${p}_out ] || continue
  SEED_SRC=/tmp/seed8_${p}_out SEED_OFFSET=21 python3 tools/import_seeds.py $p 2>&1 | grep -v WARNING | cut -c1-70 | grep -v demo_clean
  git -C /repo worktree remove --force /tmp/seed8_$p 2>/dev/null; rm -rf /tmp/seed8_${p}_out
  for k in 22 23; do python3 tools/run_seeds.py $p --only $k 2>&1 | grep -v WARNING; cp seeded/$p-$k/result.json seeded/$p-$k/result_first_run.json 2>/dev/null; done
done
