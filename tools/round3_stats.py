#!/usr/bin/env python3
"""tools/round3_stats.py -- first-run outcome of the round-3 seeded changes (seeded/*-[0-9]*/result_first_run.json)."""
import json, glob, collections
c = collections.Counter(); lst = collections.defaultdict(list)
for f in sorted(glob.glob('/verif/seeded/*-[0-9]*/result_first_run.json')):
    r = json.load(open(f)); sid = f.split('/')[-2]
    ch = r['checks'][sid.split('-')[0]]
    k = 'concrete' if ch.get('concrete_replay') else ('tie-broken-only' if ch.get('exit') == 1 else 'MISSED')
    c[k] += 1; lst[k].append(sid)
print(dict(c))
for k in ('tie-broken-only', 'MISSED'):
    print(k, ' '.join(lst[k]))
