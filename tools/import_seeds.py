#!/usr/bin/env python3
"""tools/import_seeds.py PID [base-tree] -- verify /tmp/seed_PID_out/k and copy the confirmed ones to /verif/seeded/PID-k/."""
import json, os, shutil, subprocess, sys
pid = sys.argv[1]
base = sys.argv[2] if len(sys.argv) > 2 else '/repo'
src = os.environ.get('SEED_SRC') or '/tmp/seed_%s_out' % pid
offset = int(os.environ.get('SEED_OFFSET', '0'))
for k in sorted(os.listdir(src)):
    d = os.path.join(src, k)
    if not os.path.exists(os.path.join(d, 'patch.diff')):
        continue
    r = subprocess.run(['/verif/tools/verify_seed.sh', d, base], capture_output=True, text=True)
    line = [l for l in r.stdout.split('\n') if l.startswith('demo_clean_exit')]
    print(pid, k, r.returncode, line)
    if r.returncode != 0:
        continue
    dst = '/verif/seeded/%s-%s' % (pid, int(k) + offset)
    os.makedirs(dst, exist_ok=True)
    for f in ('patch.diff', 'demo.py'):
        shutil.copy(os.path.join(d, f), dst)
    meta = json.load(open(os.path.join(d, 'meta.json')))
    meta['round'] = 1 + offset // 3
    meta['confirmed_by_coordinator'] = {'cmd': 'tools/verify_seed.sh (fresh worktree: demo on clean tree, git apply, full suite, demo on changed tree)',
                                        'result': line[0] if line else '', 'base_tree': base}
    json.dump(meta, open(os.path.join(dst, 'meta.json'), 'w'), indent=1)
