#!/usr/bin/env python3
"""tools/run_seeds.py PID [--base /tmp/repo_fixed] [--only K] -- run ./check PID against every seeded change of PID
in a scratch worktree (VERIF_REPO), record the outcome in seeded/PID-k/result.json."""
import json, os, subprocess, sys, glob, argparse
ap = argparse.ArgumentParser(); ap.add_argument('pid'); ap.add_argument('--base', default='/repo'); ap.add_argument('--only'); ap.add_argument('--props')
a = ap.parse_args()
wt = '/tmp/seedrun_%s' % a.pid
subprocess.run(['git', '-C', '/repo', 'worktree', 'remove', '--force', wt], capture_output=True)
subprocess.run(['git', '-C', '/repo', 'worktree', 'add', '-q', '--detach', wt, 'HEAD'], check=True)
base_diff = subprocess.run(['git', 'diff'], cwd=a.base, capture_output=True, text=True).stdout if a.base != '/repo' else ''
try:
    for d in sorted(glob.glob('/verif/seeded/%s-*' % a.pid)):
        if a.only and not d.endswith('-' + a.only):
            continue
        subprocess.run(['git', 'checkout', '-q', '--', '.'], cwd=wt, check=True)
        if base_diff:
            subprocess.run(['git', 'apply'], cwd=wt, input=base_diff, text=True, check=True)
        r = subprocess.run(['git', 'apply', os.path.join(d, 'patch.diff')], cwd=wt, capture_output=True, text=True)
        if r.returncode != 0:
            print(d, 'PATCH DOES NOT APPLY on base', a.base, r.stderr[:200]); continue
        props = (a.props.split(',') if a.props else [a.pid])
        out = {}
        for pid in props:
            env = dict(os.environ, VERIF_REPO=wt, VERIF_EVIDENCE_DIR='/tmp/seedrun_evidence')  # never clobber evidence/
            p = subprocess.run(['/verif/check', pid], cwd='/verif', env=env, capture_output=True, text=True)
            lines = [l for l in p.stdout.split('\n') if l.startswith(('VIOLATION', 'OK ', 'KNOWN-FINDING'))]
            concrete = any(l.startswith('VIOLATION') and 'no-failing-input-found' not in l for l in lines)
            out[pid] = {'exit': p.returncode, 'lines': lines, 'concrete_replay': concrete}
            print(os.path.basename(d), pid, 'exit', p.returncode, 'concrete' if concrete else ('tie-broken-only' if p.returncode else 'MISSED'))
        json.dump({'base': a.base, 'checks': out}, open(os.path.join(d, 'result.json'), 'w'), indent=1)
finally:
    subprocess.run(['git', '-C', '/repo', 'worktree', 'remove', '--force', wt], capture_output=True)
