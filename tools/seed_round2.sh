#!/bin/bash
# tools/seed_round2.sh PID... -- import round-2 seeds (numbered 4..6), drop the scratch worktree, run the check on each
cd /verif
for p in "$@"; do
  [ -d /tmp/seed2_${p}_out ] || continue
  SEED_SRC=/tmp/seed2_${p}_out SEED_OFFSET=3 python3 tools/import_seeds.py $p 2>&1 | grep -v WARNING | cut -c1-70
  git -C /repo worktree remove --force /tmp/seed2_$p 2>/dev/null; rm -rf /tmp/seed2_${p}_out
  for k in 4 5 6; do python3 tools/run_seeds.py $p --only $k 2>&1 | grep -v WARNING; done
done
