#!/bin/bash
# tools/full_pass.sh quick|thorough [P] -- run every registered check once against /repo (P in parallel; different
# properties may run concurrently against one tree, DESIGN 8.1).  quick writes evidence/, thorough evidence_thorough/.
cd "$(dirname "$(readlink -f "$0")")/.."
tier=${1:-quick}; par=${2:-4}
log=/tmp/full_pass_$tier.log; : > $log
ids=$(python3 -c "import json;print(' '.join(c['property_id'] for c in json.load(open('MANIFEST.json'))['checks']))" 2>/dev/null)
if [ "$tier" = thorough ]; then export VERIF_EVIDENCE_DIR=/verif/evidence_thorough; fi
export VERIF_SEED=1 VERIF_TIER=$tier
echo $ids | tr ' ' '\n' | xargs -P $par -I{} sh -c "./check {} --tier $tier 2>&1 | grep -E '^(OK|VIOLATION|KNOWN-FINDING|ERROR)' | sed 's/^/{} /' >> $log; echo {} exit=\$? >/dev/null"
sort $log
