#!/usr/bin/env python3
"""Print the DESIGN.md 8.3 table from known_findings.json."""
import json
j = json.load(open('/verif/known_findings.json'))
print('| finding id | property | status | what fails (short) |\n|---|---|---|---|')
for e in sorted(j['findings'], key=lambda e: (e['property'], e['id'])):
    st = e['status'] + ((' ' + e.get('commit', '')) if e['status'] == 'fixed' else '')
    what = e['what'].replace('\n', ' ').replace('|', '/')
    print('| %s | %s | %s | %s |' % (e['id'], e['property'], st, what[:170] + ('...' if len(what) > 170 else '')))
