#!/usr/bin/env python3
"""Print the DESIGN.md 8.5 table from seeded/*/meta.json + result.json."""
import glob, json, os
rows = []
for d in sorted(glob.glob('/verif/seeded/C*-*')):
    m = json.load(open(os.path.join(d, 'meta.json')))
    r = json.load(open(os.path.join(d, 'result.json'))) if os.path.exists(os.path.join(d, 'result.json')) else None
    sid = os.path.basename(d)
    summ = (m.get('summary') or '').replace('\n', ' ').replace('|', '/')
    summ = summ[:150] + ('...' if len(summ) > 150 else '')
    if r is None:
        res = 'not run yet'
    else:
        parts = []
        for pid, x in r['checks'].items():
            parts.append('%s: %s' % (pid, 'VIOLATION with concrete replay' if x['concrete_replay'] else
                                     ('VIOLATION no-failing-input-found (tie broken)' if x['exit'] else 'MISSED')))
        res = '; '.join(parts)
    rows.append('| %s | %s | %s |' % (sid, summ, res))
print('| seeded change | what it does | outcome of the check |\n|---|---|---|')
print('\n'.join(rows))
