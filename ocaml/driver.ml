(* Generic driver: one wire value per input line -> Model.run -> one line.
   Grammar (space separated tokens):  I<int> | T<n> c1 .. cn | L<n> v1 .. vn
   Parsing/printing only; no property logic lives here. *)
open Model

let rec pos_of_int i =
  if i = 1 then XH
  else if i land 1 = 0 then XO (pos_of_int (i lsr 1))
  else XI (pos_of_int (i lsr 1))
let n_of_int i = if i = 0 then N0 else Npos (pos_of_int i)
let z_of_int i = if i = 0 then Z0 else if i > 0 then Zpos (pos_of_int i) else Zneg (pos_of_int (-i))
let rec int_of_pos = function XH -> 1 | XO p -> 2 * int_of_pos p | XI p -> 2 * int_of_pos p + 1
let int_of_n = function N0 -> 0 | Npos p -> int_of_pos p
let int_of_z = function Z0 -> 0 | Zpos p -> int_of_pos p | Zneg p -> - (int_of_pos p)

let toks = ref [||]
let ix = ref 0
let next () = let t = !toks.(!ix) in incr ix; t
let num s = int_of_string (String.sub s 1 (String.length s - 1))

let rec parse () : val0 =
  let t = next () in
  match t.[0] with
  | 'I' -> VI (z_of_int (num t))
  | 'T' -> let n = num t in
           let rec go k acc = if k = 0 then List.rev acc else go (k-1) (n_of_int (int_of_string (next ())) :: acc) in
           VT (go n [])
  | 'L' -> let n = num t in
           let rec go k acc = if k = 0 then List.rev acc else let v = parse () in go (k-1) (v :: acc) in
           VL (go n [])
  | _ -> failwith ("bad token " ^ t)

let rec print b (v : val0) =
  match v with
  | VI z -> Buffer.add_string b ("I" ^ string_of_int (int_of_z z))
  | VT t -> Buffer.add_string b ("T" ^ string_of_int (List.length t));
            List.iter (fun c -> Buffer.add_char b ' '; Buffer.add_string b (string_of_int (int_of_n c))) t
  | VL l -> Buffer.add_string b ("L" ^ string_of_int (List.length l));
            List.iter (fun x -> Buffer.add_char b ' '; print b x) l

let () =
  try while true do
    let line = input_line stdin in
    toks := Array.of_list (List.filter (fun s -> s <> "") (String.split_on_char ' ' line));
    ix := 0;
    let out =
      try let v = parse () in
          let r = run v in
          let b = Buffer.create 256 in print b r; Buffer.contents b
      with Stack_overflow -> "L1 T5 115 116 97 99 107"
         | Failure m -> "L1 T4 102 97 105 108"
         | Invalid_argument _ -> "L1 T4 102 97 105 108" in
    print_endline out
  done with End_of_file -> ()
