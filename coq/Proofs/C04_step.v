(* C04 proofs, part 9: what one pass of the group loop decides, for ANY resolver state (hence for
   re-entrant runs): which discriminators are reported, and which actions are handed out. *)
From Coq Require Import List NArith ZArith Bool Lia Permutation Sorted.
Import ListNotations.
Require Import Verif.Lib.Wire Verif.Lib.C04Sort Verif.Gen.Facts_C04 Verif.Model.C04.
Require Import Verif.Proofs.C04 Verif.Proofs.C04_flat Verif.Proofs.C04_decide Verif.Proofs.C04_safe Verif.Proofs.C04_groups
               Verif.Proofs.C04_spec Verif.Proofs.C04_mono Verif.Proofs.C04_one.

(* the pending actions of the group that carry discriminator d *)
Definition grp_d (d : N) (fg : list ainfo) : list ainfo := filter (hdx d) fg.
(* a's include chain is a strict prefix of the chains of all the others in l *)
Definition dom (a : ainfo) (l : list ainfo) : bool := forallb (fun b => N.eqb (aidx a) (aidx b) || sp a b) l.

(* declarative: d is contested in this group, given what was executed so far *)
Definition contested_b (res : list (option N * ainfo)) (fg : list ainfo) (d : N) : bool :=
  match lookup d res with
  | Some (_, w) => negb (forallb (fun x => strict_prefix (apath w) (apath (snd x))) (grp_d d fg))   (* clash with the executed action *)
  | None => negb (existsb (fun a => dom a (grp_d d fg)) (grp_d d fg))                               (* nobody is above all the others *)
  end.

Definition group_discs (fg : list ainfo) : list N := dedupN (somes (map Dx fg)) [].

Lemma In_grp_d d fg x : In x (grp_d d fg) <-> In x fg /\ Dx x = Some d.
Proof. unfold grp_d. rewrite filter_In, hdx_true. tauto. Qed.

Section Group.
Variables (res : list (option N * ainfo)) (fg : list ainfo).
Hypothesis Nfg : NoDup (map aidx fg).

Let bu := build_unique fg.
Let us := sort_unique_lists bu.

Lemma Nfg' : NoDup fg. Proof. apply (NoDup_map_NoDup aidx). exact Nfg. Qed.

Lemma entry_members d l0 : In (d, l0) bu -> NoDup l0 /\ l0 <> [] /\ forall x, In x l0 <-> In x (grp_d d fg).
Proof.
  intros H. destruct (build_unique_entries fg d l0 Nfg' H) as [A [B C]]. split; [exact A|]. split; [exact B|].
  intros x. split; intros Hx; [apply In_grp_d; apply C; exact Hx|apply C; apply In_grp_d; exact Hx].
Qed.

Lemma entry_decision d l0 :
  In (d, l0) bu ->
  let r := detect1 cfg_fixed res d (sort (leb_by bypath_key) l0) in
  (contested_b res fg d = true /\ exists infos, snd r = [(d, infos)]) \/
  (contested_b res fg d = false /\ snd r = []).
Proof.
  intros H r. subst r. destruct (entry_members d l0 H) as [Hnd [Hne Hm]]. unfold contested_b.
  destruct (lookup d res) as [[i w]|] eqn:EL.
  - destruct (detect1_executed res d l0 i w EL) as [_ [Hiff Hform]]. cbv zeta in *.
    destruct (forallb (fun x => strict_prefix (apath w) (apath (snd x))) (grp_d d fg)) eqn:EF; simpl.
    + right. split; [reflexivity|]. apply Hiff. intros b Hb. rewrite forallb_forall in EF. apply EF. apply Hm. exact Hb.
    + left. split; [reflexivity|]. destruct Hform as [E|[infos E]]; [|eexists; exact E].
      exfalso. destruct (forallb_false_ex _ _ EF) as [x [Hx Hf]]. pose proof (proj1 Hiff E x (proj2 (Hm x) Hx)). congruence.
  - destruct (existsb (fun a => dom a (grp_d d fg)) (grp_d d fg)) eqn:EE; simpl.
    + right. split; [reflexivity|]. apply existsb_exists in EE. destruct EE as [a [Ha Hd]].
      rewrite (detect1_fresh_winner res d l0 a Hnd EL (proj2 (Hm a) Ha)); [reflexivity|].
      intros b Hb. unfold dom in Hd. rewrite forallb_forall in Hd. specialize (Hd b (proj1 (Hm b) Hb)).
      apply orb_true_iff in Hd. destruct Hd as [Hd|Hd]; [left|right; exact Hd]. apply N.eqb_eq in Hd.
      apply (NoDup_map_inj_in aidx fg); [exact Nfg|apply Hm in Hb; apply In_grp_d in Hb; tauto|apply In_grp_d in Ha; tauto|congruence].
    + left. split; [reflexivity|]. apply (detect1_fresh_conflict res d l0 EL Hne).
      intros a Ha. assert (dom a (grp_d d fg) = false) as Hd.
      { destruct (dom a (grp_d d fg)) eqn:E; [|reflexivity]. exfalso.
        assert (existsb (fun a => dom a (grp_d d fg)) (grp_d d fg) = true) as T by (apply existsb_exists; exists a; split; [apply Hm; exact Ha|exact E]).
        congruence. }
      destruct (forallb_false_ex _ _ Hd) as [b [Hb Hf]]. apply orb_false_iff in Hf. destruct Hf as [Hf1 Hf2].
      exists b. split; [apply Hm; exact Hb|]. split; [|exact Hf2]. intros ->. rewrite N.eqb_refl in Hf1. discriminate.
Qed.

Lemma us_entries d l : In (d, l) us -> exists l0, In (d, l0) bu /\ l = sort (leb_by bypath_key) l0.
Proof.
  intros H. unfold us, sort_unique_lists in H. apply in_map_iff in H. destruct H as [[d' l0] [E H]]. simpl in E.
  inversion E; subst. exists l0. split; [exact H|reflexivity].
Qed.

Lemma us_keys : map fst us = group_discs fg.
Proof.
  unfold us, sort_unique_lists. rewrite map_map. simpl. change (map (fun x : N * list ainfo => fst x) bu) with (map fst bu).
  unfold bu. apply build_unique_keys.
Qed.

(* (c) THE CONFLICT NAMES EXACTLY THE CONTESTED DISCRIMINATORS, in order of first appearance; a clash with an
   action executed earlier (earlier phase or earlier in the same re-entrant commit) is such a contest *)
Theorem group_conflicts :
  map fst (snd (detect cfg_fixed res us)) = filter (contested_b res fg) (group_discs fg).
Proof.
  rewrite <- us_keys. apply detect_K_filter. intros d l H. destruct (us_entries d l H) as [l0 [Hb ->]].
  apply entry_decision. exact Hb.
Qed.

Lemma key_of x d : In x fg -> Dx x = Some d -> exists l0, In (d, l0) bu /\ In x l0.
Proof.
  intros Hx Hd. pose proof (build_unique_perm fg) as P.
  assert (In x (concat (map snd bu))) as Hc.
  { apply (Permutation_in _ (Permutation_sym P)). apply filter_In. split; [exact Hx|]. unfold someD. unfold Dx in Hd. rewrite Hd. reflexivity. }
  apply in_concat in Hc. destruct Hc as [l' [Hl' Hxl']]. apply in_map_iff in Hl'. destruct Hl' as [[d' l''] [E Hin']]. simpl in E. subst l''.
  pose proof (build_unique_keyed fg d' l' Hin') as F. rewrite Forall_forall in F. specialize (F x Hxl').
  assert (d' = d) by congruence. subst d'. exists l'. split; assumption.
Qed.

(* (b) WHEN NOTHING IS CONTESTED, WHAT IS HANDED OUT: every None-discriminated action of the group, and for each
   discriminator not executed before exactly the action whose include chain is a strict prefix of all the others
   pending with that discriminator; nothing for a discriminator already executed *)
Theorem group_output_members :
  snd (detect cfg_fixed res us) = [] ->
  forall x, In x (none_output fg ++ fst (detect cfg_fixed res us)) <->
            In x fg /\ match Dx x with
                       | None => True
                       | Some d => lookup d res = None /\ dom x (grp_d d fg) = true
                       end.
Proof.
  intros HK x. rewrite in_app_iff. split.
  - intros [H|H].
    + unfold none_output in H. apply filter_In in H. destruct H as [H1 H2]. split; [exact H1|].
      unfold Dx. destruct (D (snd x)); [discriminate|exact I].
    + apply detect_firsts_in in H. destruct H as [d [l [Hin Hx]]]. destruct (us_entries d l Hin) as [l0 [Hb ->]].
      destruct (entry_members d l0 Hb) as [Hnd [Hne Hm]].
      pose proof (detect1_firsts_lookup _ _ _ _ _ Hx) as [EL _].
      pose proof (detect_K_nil cfg_fixed res us HK d _ Hin) as HS.
      destruct (detect1 cfg_fixed res d (sort (leb_by bypath_key) l0)) as [F K1] eqn:ER. simpl in HS, Hx. subst K1.
      destruct (detect1_fresh_sound res d l0 F EL Hne ER) as [a [-> [Ha Hdom]]]. destruct Hx as [<-|[]].
      apply Hm in Ha. pose proof (proj1 (In_grp_d d fg a) Ha) as [Hafg Hda]. split; [exact Hafg|]. rewrite Hda.
      split; [exact EL|]. unfold dom. apply forallb_forall. intros b Hb'. destruct (Hdom b (proj2 (Hm b) Hb')) as [->|Hs].
      * rewrite N.eqb_refl. reflexivity.
      * rewrite Hs. apply orb_true_r.
  - intros [Hx Hc]. destruct (Dx x) as [d|] eqn:Ed.
    + right. destruct Hc as [EL Hd]. destruct (key_of x d Hx Ed) as [l0 [Hb Hxl]]. destruct (entry_members d l0 Hb) as [Hnd [Hne Hm]].
      apply detect_firsts_in. exists d, (sort (leb_by bypath_key) l0). split.
      * unfold us, sort_unique_lists. apply in_map_iff. exists (d, l0). split; [reflexivity|exact Hb].
      * rewrite (detect1_fresh_winner res d l0 x Hnd EL Hxl); [left; reflexivity|].
        intros b Hb'. unfold dom in Hd. rewrite forallb_forall in Hd. specialize (Hd b (proj1 (Hm b) Hb')).
        apply orb_true_iff in Hd. destruct Hd as [Hd|Hd]; [left|right; exact Hd]. apply N.eqb_eq in Hd.
        apply (NoDup_map_inj_in aidx fg); [exact Nfg|apply Hm in Hb'; apply In_grp_d in Hb'; tauto|exact Hx|congruence].
    + left. unfold none_output. apply filter_In. split; [exact Hx|]. unfold Dx in Ed. rewrite Ed. reflexivity.
Qed.
End Group.

(* the same, as a statement about the generator: when the group loop reaches a group in which some
   discriminator is contested it raises, naming exactly the contested discriminators of that group *)
Theorem step_conflict st k grp gs evs :
  NoDup (map aidx grp) -> late (min_order st) k = false ->
  let fg := forced_group grp in
  let C := filter (contested_b (resolved st) fg) (group_discs fg) in
  C <> [] ->
  exists K st', next_group cfg_fixed st ((k, grp) :: gs) evs = SStop (Conflict K) (evs ++ force_events grp) st'
                /\ map fst K = C.
Proof.
  intros Hnd HL fg C HC. cbn [next_group]. rewrite HL.
  assert (Nfg : NoDup (map aidx fg)) by (unfold fg; rewrite aidx_forced_group; exact Hnd).
  pose proof (group_conflicts (resolved st) fg Nfg) as HK. fold fg.
  destruct (detect cfg_fixed (resolved st) (sort_unique_lists (build_unique fg))) as [firsts K]. cbn [snd] in HK.
  destruct K as [|k0 K']; [exfalso; apply HC; unfold C; rewrite <- HK; reflexivity|].
  eexists. eexists. split; [reflexivity|exact HK].
Qed.

(* ... and when none is contested in the group reached first, no conflict is raised there: either that group hands
   out an action or the loop moves on to the later groups *)
Theorem step_no_conflict st k grp gs evs K e st' :
  NoDup (map aidx grp) ->
  filter (contested_b (resolved st) (forced_group grp)) (group_discs (forced_group grp)) = [] ->
  next_group cfg_fixed st ((k, grp) :: gs) evs = SStop (Conflict K) e st' ->
  exists st1 evs1, resolved st1 = resolved st /\ next_group cfg_fixed st1 gs evs1 = SStop (Conflict K) e st'.
Proof.
  intros Hnd HC H. cbn [next_group] in H. destruct (late (min_order st) k); [discriminate|].
  assert (Nfg : NoDup (map aidx (forced_group grp))) by (rewrite aidx_forced_group; exact Hnd).
  pose proof (group_conflicts (resolved st) (forced_group grp) Nfg) as HK. rewrite HC in HK.
  destruct (detect cfg_fixed (resolved st) (sort_unique_lists (build_unique (forced_group grp)))) as [firsts K0]. cbn [snd] in HK.
  destruct K0 as [|k0 K']; [|discriminate].
  match type of H with context [match ?X with Some _ => _ | None => _ end] => destruct X as [rem2|]; [|discriminate] end.
  destruct (sort (leb_by output_key) (none_output (forced_group grp) ++ firsts)) as [|x rest].
  - eexists. eexists. split; [|exact H]. reflexivity.
  - unfold yield_first in H. destruct (remove_aid (aid (snd x)) _); discriminate.
Qed.
