(* C08 -- the link between the store model's [schedule] (Model/C08.v) and the real commit
   model [commit] (Model/C04.v):
   on a program whose statements have pairwise distinct identities and pairwise different
   (non-None) discriminators, [commit] -- whatever the include tree the statements are nested
   in -- succeeds and runs the statements exactly in the order of [schedule] (stable sort by
   phase); hence the store the REAL commit model produces is independent of the declaration
   order and of the nesting (commit_model_permutation_invariant). *)
From Coq Require Import List NArith ZArith Bool Lia Permutation Sorted.
Import ListNotations.
Require Import Verif.Lib.Wire Verif.Lib.C04Sort Verif.Gen.Facts_C04 Verif.Gen.Facts_C08 Verif.Model.C04 Verif.Model.C08.
Require Import Verif.Proofs.C04 Verif.Proofs.C04_decide Verif.Proofs.C04_safe Verif.Proofs.C04_groups Verif.Proofs.C04_spec Verif.Proofs.C08.

(* ------------------------------------------------------------------ generic list facts *)
Lemma filter_all_true {A} (f : A -> bool) l : (forall x, In x l -> f x = true) -> filter f l = l.
Proof.
  induction l as [|x r IH]; intros H; cbn [filter]; [reflexivity|].
  rewrite (H x (or_introl eq_refl)). f_equal. apply IH. intros y Hy. apply H. right. exact Hy.
Qed.

Lemma filter_all_false {A} (f : A -> bool) l : (forall x, In x l -> f x = false) -> filter f l = [].
Proof.
  induction l as [|x r IH]; intros H; cbn [filter]; [reflexivity|].
  rewrite (H x (or_introl eq_refl)). apply IH. intros y Hy. apply H. right. exact Hy.
Qed.

Lemma SS_app {A} (R : A -> A -> Prop) a b :
  StronglySorted R a -> StronglySorted R b -> (forall x y, In x a -> In y b -> R x y) ->
  StronglySorted R (a ++ b).
Proof.
  induction a as [|x r IH]; intros Sa Sb H; cbn [app]; [exact Sb|].
  inversion Sa as [|? ? Sr Fr]; subst. constructor.
  - apply IH; [exact Sr|exact Sb|]. intros u v Hu Hv. apply H; [right; exact Hu|exact Hv].
  - apply Forall_app. split; [exact Fr|]. rewrite Forall_forall. intros y Hy. apply H; [left; reflexivity|exact Hy].
Qed.

Lemma SS_lt_NoDup l : StronglySorted Z.lt l -> NoDup l.
Proof.
  induction 1 as [|x r Hs IH Hall]; constructor; [|exact IH].
  intros Hin. rewrite Forall_forall in Hall. specialize (Hall x Hin). lia.
Qed.

Lemma NoDup_nodupN l : NoDup l -> nodupN l = true.
Proof.
  induction 1 as [|x l Hn Hnd IH]; cbn [nodupN]; [reflexivity|].
  rewrite IH, andb_true_r. apply negb_true_iff.
  destruct (memN x l) eqn:E; [apply memN_In in E; contradiction|reflexivity].
Qed.

Lemma somes_In {A B} (f : A -> option B) l b d : In b l -> f b = Some d -> In d (somes (map f l)).
Proof.
  induction l as [|x r IH]; intros Hin E; [destruct Hin|]. cbn [map somes].
  destruct Hin as [->|Hin].
  - rewrite E. left. reflexivity.
  - destruct (f x); [right|]; apply IH; assumption.
Qed.

Lemma somes_In_inv {A B} (f : A -> option B) l d : In d (somes (map f l)) -> exists b, In b l /\ f b = Some d.
Proof.
  induction l as [|x r IH]; cbn [map somes]; intros H; [destruct H|].
  destruct (f x) as [d'|] eqn:Ex.
  - destruct H as [->|H].
    + exists x. split; [left; reflexivity|exact Ex].
    + destruct (IH H) as [b [Hb Eb]]. exists b. split; [right; exact Hb|exact Eb].
  - destruct (IH H) as [b [Hb Eb]]. exists b. split; [right; exact Hb|exact Eb].
Qed.

(* pairwise different non-None values: the value determines the element *)
Lemma somes_inj {A B} (f : A -> option B) l a b d :
  NoDup (somes (map f l)) -> In a l -> In b l -> f a = Some d -> f b = Some d -> a = b.
Proof.
  induction l as [|x r IH]; intros Hn Ha Hb Ea Eb; [destruct Ha|].
  cbn [map somes] in Hn. destruct (f x) as [d'|] eqn:Ex.
  - inversion Hn as [|? ? Hnin Hn']; subst.
    destruct Ha as [Ha|Ha], Hb as [Hb|Hb].
    + congruence.
    + exfalso. apply Hnin. subst x. assert (d' = d) by congruence. subst d'.
      eapply somes_In; eassumption.
    + exfalso. apply Hnin. subst x. assert (d' = d) by congruence. subst d'.
      eapply somes_In; eassumption.
    + apply IH; assumption.
  - destruct Ha as [Ha|Ha]; [congruence|]. destruct Hb as [Hb|Hb]; [congruence|]. apply IH; assumption.
Qed.

(* ------------------------------------------------------------------ the stable sort by a key is the
   concatenation of the key classes, in increasing key order *)
Section Classes.
  Context {A : Type}.
  Variable key : A -> Z.

  Definition kle (x y : A) : Prop := (key x <= key y)%Z.
  Definition kleb (x y : A) : bool := Z.leb (key x) (key y).

  Lemma kleb_total x y : kleb x y = true \/ kleb y x = true.
  Proof. unfold kleb. rewrite !Z.leb_le. lia. Qed.

  Lemma kleb_trans x y z : kleb x y = true -> kleb y z = true -> kleb x z = true.
  Proof. unfold kleb. rewrite !Z.leb_le. lia. Qed.

  Lemma filter_cls_cls p q l :
    filter (fun x => Z.eqb (key x) q) (filter (fun x => Z.eqb (key x) p) l)
    = if Z.eqb p q then filter (fun x => Z.eqb (key x) p) l else [].
  Proof.
    destruct (Z.eqb p q) eqn:E.
    - apply Z.eqb_eq in E. subst q. apply filter_all_true. intros x Hx. apply filter_In in Hx. tauto.
    - apply Z.eqb_neq in E. apply filter_all_false. intros x Hx. apply filter_In in Hx. destruct Hx as [_ Hx].
      apply Z.eqb_eq in Hx. apply Z.eqb_neq. lia.
  Qed.

  Definition classes (ps : list Z) (l : list A) : list A :=
    concat (map (fun p => filter (fun x => Z.eqb (key x) p) l) ps).

  Lemma classes_cons p ps l : classes (p :: ps) l = filter (fun x => Z.eqb (key x) p) l ++ classes ps l.
  Proof. reflexivity. Qed.

  Lemma filter_classes_out q ps l : ~ In q ps -> filter (fun x => Z.eqb (key x) q) (classes ps l) = [].
  Proof.
    induction ps as [|p r IH]; intros H; [reflexivity|].
    rewrite classes_cons, filter_app, filter_cls_cls.
    destruct (Z.eqb p q) eqn:E; [apply Z.eqb_eq in E; exfalso; apply H; left; exact E|].
    cbn [app]. apply IH. intros Hin. apply H. right. exact Hin.
  Qed.

  Lemma filter_classes_in q ps l :
    NoDup ps -> In q ps -> filter (fun x => Z.eqb (key x) q) (classes ps l) = filter (fun x => Z.eqb (key x) q) l.
  Proof.
    induction ps as [|p r IH]; intros Hnd Hin; [destruct Hin|].
    inversion Hnd as [|? ? Hn Hnd']; subst.
    rewrite classes_cons, filter_app, filter_cls_cls.
    destruct (Z.eqb p q) eqn:E.
    - apply Z.eqb_eq in E. subst p. rewrite filter_classes_out by exact Hn. apply app_nil_r.
    - destruct Hin as [Hin|Hin]; [subst p; rewrite Z.eqb_refl in E; discriminate|].
      cbn [app]. apply IH; assumption.
  Qed.

  Lemma class_sorted p l : StronglySorted kle (filter (fun x => Z.eqb (key x) p) l).
  Proof.
    induction l as [|x r IH]; cbn [filter]; [constructor|].
    destruct (Z.eqb (key x) p) eqn:E; [|exact IH].
    constructor; [exact IH|]. rewrite Forall_forall. intros y Hy. apply filter_In in Hy. destruct Hy as [_ Hy].
    apply Z.eqb_eq in E, Hy. unfold kle. lia.
  Qed.

  Lemma In_classes y ps l : In y (classes ps l) -> In (key y) ps /\ In y l.
  Proof.
    unfold classes. intros H. apply in_concat in H. destruct H as [g [Hg Hy]].
    apply in_map_iff in Hg. destruct Hg as [p [Eg Hp]]. subst g.
    apply filter_In in Hy. destruct Hy as [Hy Ky]. apply Z.eqb_eq in Ky. subst p. tauto.
  Qed.

  Lemma classes_sorted ps l : StronglySorted Z.lt ps -> StronglySorted kle (classes ps l).
  Proof.
    induction 1 as [|p r Hs IH Hall]; [constructor|].
    rewrite classes_cons. apply SS_app; [apply class_sorted|exact IH|].
    intros x y Hx Hy. apply filter_In in Hx. destruct Hx as [_ Kx]. apply Z.eqb_eq in Kx.
    apply In_classes in Hy. destruct Hy as [Ky _].
    rewrite Forall_forall in Hall. specialize (Hall _ Ky). unfold kle. lia.
  Qed.

  (* a list sorted by key is determined by its key classes *)
  Lemma sorted_filters_eq l1 : forall l2,
    StronglySorted kle l1 -> StronglySorted kle l2 ->
    (forall p, filter (fun x => Z.eqb (key x) p) l1 = filter (fun x => Z.eqb (key x) p) l2) ->
    l1 = l2.
  Proof.
    induction l1 as [|x r1 IH]; intros l2 S1 S2 H.
    - destruct l2 as [|y r2]; [reflexivity|].
      specialize (H (key y)). cbn [filter] in H. rewrite Z.eqb_refl in H. discriminate.
    - destruct l2 as [|y r2].
      { specialize (H (key x)). cbn [filter] in H. rewrite Z.eqb_refl in H. discriminate. }
      inversion S1 as [|? ? S1' F1]; subst. inversion S2 as [|? ? S2' F2]; subst.
      rewrite Forall_forall in F1, F2.
      assert (Kyx : (key y <= key x)%Z).
      { assert (Hin : In x (filter (fun a => Z.eqb (key a) (key x)) (y :: r2))).
        { rewrite <- (H (key x)). cbn [filter]. rewrite Z.eqb_refl. left. reflexivity. }
        apply filter_In in Hin. destruct Hin as [[Hin|Hin] _]; [subst y; lia|exact (F2 x Hin)]. }
      assert (Kxy : (key x <= key y)%Z).
      { assert (Hin : In y (filter (fun a => Z.eqb (key a) (key y)) (x :: r1))).
        { rewrite (H (key y)). cbn [filter]. rewrite Z.eqb_refl. left. reflexivity. }
        apply filter_In in Hin. destruct Hin as [[Hin|Hin] _]; [subst y; lia|exact (F1 y Hin)]. }
      assert (K : key y = key x) by lia.
      assert (Exy : x = y).
      { pose proof (H (key x)) as Hx. cbn [filter] in Hx. rewrite K, Z.eqb_refl in Hx. congruence. }
      subst y. f_equal. apply IH; [exact S1'|exact S2'|].
      intros p. specialize (H p). cbn [filter] in H.
      destruct (Z.eqb (key x) p); [congruence|exact H].
  Qed.

  Theorem classes_sort ps l :
    StronglySorted Z.lt ps -> (forall a, In a l -> In (key a) ps) ->
    classes ps l = sort kleb l.
  Proof.
    intros Sp Hall. apply sorted_filters_eq.
    - apply classes_sorted. exact Sp.
    - eapply SS_impl; [apply (sort_sorted kleb kleb_total kleb_trans)|].
      unfold le, kleb, kle. intros x y H. apply Z.leb_le. exact H.
    - intros p. rewrite sort_stable.
      2:{ intros x y Hx Hy. apply Z.eqb_eq in Hx, Hy. unfold kleb. apply Z.leb_le. lia. }
      destruct (in_dec Z.eq_dec p ps) as [Hin|Hout].
      + apply filter_classes_in; [apply SS_lt_NoDup; exact Sp|exact Hin].
      + rewrite filter_classes_out by exact Hout. symmetry. apply filter_all_false.
        intros a Ha. apply Z.eqb_neq. intros E. apply Hout. rewrite <- E. apply Hall. exact Ha.
  Qed.
End Classes.

(* mapping commutes with the stable sort when the orders correspond *)
Section MapSort.
  Context {A B : Type}.
  Variable leb1 : A -> A -> bool.
  Variable leb2 : B -> B -> bool.
  Variable h : A -> B.
  Hypothesis Hleb : forall x y, leb2 (h x) (h y) = leb1 x y.

  Lemma map_insert x l : map h (insert leb1 x l) = insert leb2 (h x) (map h l).
  Proof.
    induction l as [|y r IH]; cbn [insert map]; [reflexivity|].
    rewrite Hleb. destruct (leb1 x y); cbn [map]; [reflexivity|]. rewrite IH. reflexivity.
  Qed.

  Lemma map_sort l : map h (sort leb1 l) = sort leb2 (map h l).
  Proof.
    induction l as [|x r IH]; cbn [sort map]; [reflexivity|]. rewrite map_insert, IH. reflexivity.
  Qed.
End MapSort.

(* ------------------------------------------------------------------ commit_spec on a conflict-free program *)
Definition leb_act (a b : action) : bool := Z.leb (ordkey a) (ordkey b).

Section Free.
  Variable acts : list action.
  Hypothesis Hnd : NoDup (map aid acts).
  Hypothesis Hdn : NoDup (somes (map D acts)).

  Lemma winner_self p a d :
    In a acts -> ordkey a = p -> D a = Some d -> winner (upto p acts) d = Some a.
  Proof.
    intros Ha Hp Hd. apply winner_characterisation.
    - unfold upto. apply NoDup_map_filter. exact Hnd.
    - split; [|split; [exact Hd|]].
      + unfold upto. apply filter_In. split; [exact Ha|]. apply Z.leb_le. lia.
      + intros b Hb Hdb. unfold upto in Hb. apply filter_In in Hb. destruct Hb as [Hb _].
        assert (E : a = b) by (exact (somes_inj D acts a b d Hdn Ha Hb Hd Hdb)).
        subst b. split; [lia|left; reflexivity].
  Qed.

  Lemma contested_nil p : contested acts p = [].
  Proof.
    unfold contested. apply filter_all_false. intros d Hd.
    unfold discs in Hd. destruct (dedupN_NoDup (somes (map D (at_phase p acts))) []) as [_ Hx].
    apply Hx in Hd. destruct Hd as [Hd _]. apply somes_In_inv in Hd. destruct Hd as [a [Ha Ea]].
    unfold at_phase in Ha. apply filter_In in Ha. destruct Ha as [Ha Hp]. apply Z.eqb_eq in Hp.
    rewrite (winner_self p a d Ha Hp Ea). reflexivity.
  Qed.

  Lemma runnable_all p : filter (runnable (upto p acts)) (at_phase p acts) = at_phase p acts.
  Proof.
    apply filter_all_true. intros a Ha.
    unfold at_phase in Ha. apply filter_In in Ha. destruct Ha as [Ha Hp]. apply Z.eqb_eq in Hp.
    unfold runnable. destruct (D a) as [d|] eqn:Ea; [|reflexivity].
    rewrite (winner_self p a d Ha Hp Ea). apply N.eqb_refl.
  Qed.

  Lemma spec_phases_free ps :
    spec_phases acts ps
    = (SDone, concat (map (fun p => forces_of (at_phase p acts) ++ runs_of (at_phase p acts)) ps)).
  Proof.
    induction ps as [|p r IH]; [reflexivity|].
    cbn [spec_phases map concat]. rewrite contested_nil, IH, runnable_all.
    cbv beta iota zeta. rewrite app_assoc. reflexivity.
  Qed.
End Free.

Lemma run_ids_app a b : run_ids (a ++ b) = run_ids a ++ run_ids b.
Proof. unfold run_ids. apply flat_map_app. Qed.

Lemma run_ids_forces l : run_ids (map (fun a : action => Force (aid a)) l) = [].
Proof. induction l as [|x r IH]; [reflexivity|]. cbn [map]. exact IH. Qed.

Lemma run_ids_runs l : run_ids (runs_of l) = map aid l.
Proof.
  induction l as [|x r IH]; [reflexivity|]. unfold runs_of in *. cbn [map].
  change (run_ids (Run (aid x) :: map (fun a : action => Run (aid a)) r))
    with (aid x :: run_ids (map (fun a : action => Run (aid a)) r)).
  rewrite IH. reflexivity.
Qed.

Lemma run_ids_free acts ps :
  run_ids (concat (map (fun p => forces_of (at_phase p acts) ++ runs_of (at_phase p acts)) ps))
  = map aid (concat (map (fun p => at_phase p acts) ps)).
Proof.
  induction ps as [|p r IH]; [reflexivity|].
  cbn [map concat]. rewrite !run_ids_app, IH, map_app, run_ids_runs.
  unfold forces_of. rewrite run_ids_forces. reflexivity.
Qed.

Lemma obs_commit_spec acts :
  flat acts = true -> wf_ids acts = true -> wf_orders acts = true -> obs (commit acts) = commit_spec acts.
Proof. exact (commit_spec_fixed acts). Qed.

(* the real commit model on a flat program with pairwise different discriminators:
   no conflict, the actions run stably sorted by phase *)
Theorem commit_free_runs acts :
  flat acts = true -> wf_ids acts = true -> wf_orders acts = true -> discs_nodup acts = true ->
  fst (commit acts) = Done /\ run_ids (snd (commit acts)) = map aid (sort leb_act acts).
Proof.
  intros Hf Hi Ho Hd.
  pose proof (obs_commit_spec acts Hf Hi Ho) as E.
  unfold commit_spec in E.
  rewrite (spec_phases_free acts (wf_ids_spec _ Hi) (nodupN_NoDup _ Hd)) in E.
  unfold obs in E. injection E as E1 E2. split.
  - revert E1. destruct (fst (commit acts)); cbn [obs_outcome]; intros E1; try discriminate E1. reflexivity.
  - rewrite E2, run_ids_free. f_equal.
    destruct (phases_spec acts) as [P1 P2].
    unfold at_phase. exact (classes_sort ordkey (phases acts) acts P1
                              (fun a Ha => proj2 (P2 (ordkey a)) (ex_intro _ a (conj Ha eq_refl)))).
Qed.

(* ------------------------------------------------------------------ programs of C08 statements *)
Definition act_of (paths : list path) (wp : wstmt * nat) : action := to_action paths (fst wp) (snd wp).
Definition stmt_of (wp : wstmt * nat) : stmt := wst (fst wp).
Definition leb_decl (x y : wstmt * nat) : bool := Z.leb (sphase (stmt_of x)) (sphase (stmt_of y)).

Lemma flat_to_action paths decl : flat (map (act_of paths) decl) = true.
Proof.
  unfold flat. rewrite forallb_forall. intros a Ha. apply in_map_iff in Ha. destruct Ha as [wp [<- _]]. reflexivity.
Qed.

Lemma wf_orders_to_action paths decl : wf_orders (map (act_of paths) decl) = true.
Proof.
  unfold wf_orders. rewrite forallb_forall. intros a Ha. apply in_map_iff in Ha. destruct Ha as [wp [<- _]]. reflexivity.
Qed.

Lemma forest_aids_to_action paths decl : forest_aids (map (act_of paths) decl) = map sid (map stmt_of decl).
Proof.
  unfold forest_aids. induction decl as [|wp r IH]; [reflexivity|]. cbn [map flat_map]. rewrite IH. reflexivity.
Qed.

Lemma wf_ids_to_action paths decl : NoDup (map sid (map stmt_of decl)) -> wf_ids (map (act_of paths) decl) = true.
Proof. intros H. unfold wf_ids. rewrite forest_aids_to_action. apply NoDup_nodupN. exact H. Qed.

Lemma D_to_action paths w n : D (to_action paths w n) = wdisc w.
Proof. unfold D, to_action. cbn [adisc]. destruct (rdeferred (wrow w)); reflexivity. Qed.

Lemma sorted_acts_schedule paths decl :
  map aid (sort leb_act (map (act_of paths) decl)) = sids (schedule (map stmt_of decl)).
Proof.
  unfold sids, schedule.
  rewrite <- (map_sort leb_decl leb_act (act_of paths) (fun x y => eq_refl) decl).
  rewrite <- (map_sort leb_decl phase_leb stmt_of (fun x y => eq_refl) decl).
  rewrite !map_map. apply map_ext. intros wp. reflexivity.
Qed.

(* GOAL 1 *)
Theorem commit_runs_schedule : forall paths decl,
  let acts := map (fun wp => to_action paths (fst wp) (snd wp)) decl in
  let dl := map (fun wp => wst (fst wp)) decl in
  NoDup (map sid dl) ->
  discs_nodup acts = true ->
  fst (commit acts) = Done /\ run_ids (snd (commit acts)) = sids (schedule dl).
Proof.
  intros paths decl acts dl Hnd Hdn.
  change acts with (map (act_of paths) decl) in *. change dl with (map stmt_of decl) in *. clear acts dl.
  destruct (commit_free_runs (map (act_of paths) decl) (flat_to_action paths decl)
              (wf_ids_to_action paths decl Hnd) (wf_orders_to_action paths decl) Hdn) as [E1 E2].
  split; [exact E1|]. rewrite E2. apply sorted_acts_schedule.
Qed.

(* ------------------------------------------------------------------ picking the statements back *)
Lemma find_w_In ws w : In w ws ->
  exists w', find_w (sid (wst w)) ws = Some w' /\ In w' ws /\ sid (wst w') = sid (wst w).
Proof.
  induction ws as [|x r IH]; intros Hin; [destruct Hin|]. cbn [find_w].
  destruct (N.eqb (sid (wst x)) (sid (wst w))) eqn:E.
  - exists x. split; [reflexivity|]. split; [left; reflexivity|apply N.eqb_eq; exact E].
  - destruct Hin as [Hin|Hin]; [subst x; rewrite N.eqb_refl in E; discriminate|].
    destruct (IH Hin) as [w' [F [I' S]]]. exists w'. split; [exact F|]. split; [right; exact I'|exact S].
Qed.

Lemma find_w_nodup ws w :
  NoDup (map (fun x => sid (wst x)) ws) -> In w ws -> find_w (sid (wst w)) ws = Some w.
Proof.
  intros Hnd Hin. destruct (find_w_In ws w Hin) as [w' [F [I' S]]]. rewrite F. f_equal.
  exact (NoDup_map_inj (fun x => sid (wst x)) ws w' w Hnd I' Hin S).
Qed.

Lemma pick_sids ws : NoDup (map (fun x => sid (wst x)) ws) ->
  forall l, (forall w, In w l -> In w ws) -> pick ws (map (fun x => sid (wst x)) l) = map wst l.
Proof.
  intros Hnd. induction l as [|w r IH]; intros Hl; [reflexivity|]. cbn [map pick].
  rewrite (find_w_nodup ws w Hnd (Hl w (or_introl eq_refl))). f_equal.
  apply IH. intros z Hz. apply Hl. right. exact Hz.
Qed.

Definition leb_w (x y : wstmt) : bool := Z.leb (sphase (wst x)) (sphase (wst y)).

Lemma pick_schedule ws :
  NoDup (map sid (map wst ws)) -> pick ws (sids (schedule (map wst ws))) = schedule (map wst ws).
Proof.
  intros Hnd. unfold sids, schedule.
  rewrite <- (map_sort leb_w phase_leb wst (fun x y => eq_refl) ws).
  rewrite map_map in *. apply pick_sids; [exact Hnd|].
  intros w Hw. apply sort_In in Hw. exact Hw.
Qed.

(* ------------------------------------------------------------------ GOAL 2 *)
Definition exec_store (paths : list path) (decl : list (wstmt * nat)) : store :=
  let acts := map (fun wp => to_action paths (fst wp) (snd wp)) decl in
  runl (pick (map fst decl) (run_ids (snd (commit acts)))) empty.

(* the store the real commit model leaves is the store of the schedule *)
Lemma exec_store_final paths decl :
  NoDup (map sid (map (fun wp => wst (fst wp)) decl)) ->
  discs_nodup (map (fun wp => to_action paths (fst wp) (snd wp)) decl) = true ->
  exec_store paths decl = final (map (fun wp => wst (fst wp)) decl).
Proof.
  intros Hnd Hdn. pose proof (commit_runs_schedule paths decl) as T. cbv zeta in T.
  destruct (T Hnd Hdn) as [_ E]. unfold exec_store. cbv zeta. rewrite E.
  rewrite <- (map_map fst wst decl) in *. rewrite (pick_schedule (map fst decl) Hnd). reflexivity.
Qed.

Theorem commit_model_permutation_invariant : forall paths paths' decl decl',
  let dl := map (fun wp => wst (fst wp)) decl in
  let dl' := map (fun wp => wst (fst wp)) decl' in
  NoDup (map sid dl) -> Permutation dl dl' ->
  discs_nodup (map (fun wp => to_action paths (fst wp) (snd wp)) decl) = true ->
  discs_nodup (map (fun wp => to_action paths' (fst wp) (snd wp)) decl') = true ->
  Horder dl dl' -> H1 dl -> H2 dl ->
  store_eq (exec_store paths decl) (exec_store paths' decl').
Proof.
  intros paths paths' decl decl' dl dl' Hnd P Hd Hd' Ho h1 h2.
  assert (Hnd' : NoDup (map sid dl')).
  { eapply Permutation_NoDup; [apply Permutation_map; exact P|exact Hnd]. }
  rewrite (exec_store_final paths decl Hnd Hd), (exec_store_final paths' decl' Hnd' Hd').
  apply commit_permutation_invariant; assumption.
Qed.

(* ------------------------------------------------------------------ non-vacuity *)
Module ExC.
  Definition r0 : row := mkR [] 0%Z false [] [] [] [].
  Definition rD : row := mkR [] 0%Z true [] [] [] [].
  (* phases -20, -10, 0, 0; the third statement's discriminator is Deferred *)
  Definition w1 : wstmt := mkW r0 (mkS 1%N (-20)%Z MSet 0%N [] [1%N]) (Some 11%N) [].
  Definition w2 : wstmt := mkW r0 (mkS 2%N (-10)%Z MSeq 0%N [1%N] [2%N]) None [].
  Definition w3 : wstmt := mkW rD (mkS 3%N 0%Z MSet 0%N [1%N] [3%N]) (Some 12%N) [].
  Definition w4 : wstmt := mkW r0 (mkS 4%N 0%Z MSet 0%N [2%N] [4%N]) (Some 13%N) [].

  (* two include trees: a chain root > a > a.b, and two siblings c, d under the root *)
  Definition pathsA : list path := [[]; [[97]%N]; [[97]%N; [98]%N]].
  Definition pathsB : list path := [[]; [[99]%N]; [[100]%N]].
  (* two declaration orders, statements placed at different nodes *)
  Definition declA : list (wstmt * nat) := [(w4, 2%nat); (w1, 1%nat); (w3, 0%nat); (w2, 2%nat)].
  Definition declB : list (wstmt * nat) := [(w3, 1%nat); (w2, 0%nat); (w4, 2%nat); (w1, 2%nat)].

  Definition actsA := map (fun wp => to_action pathsA (fst wp) (snd wp)) declA.
  Definition actsB := map (fun wp => to_action pathsB (fst wp) (snd wp)) declB.
  Definition dlA := map (fun wp : wstmt * nat => wst (fst wp)) declA.
  Definition dlB := map (fun wp : wstmt * nat => wst (fst wp)) declB.

  Example runs_A :
    fst (commit actsA) = Done /\ run_ids (snd (commit actsA)) = sids (schedule dlA) /\
    sids (schedule dlA) = [1; 2; 4; 3]%N.
  Proof. vm_compute. repeat split; reflexivity. Qed.

  Example runs_B :
    fst (commit actsB) = Done /\ run_ids (snd (commit actsB)) = sids (schedule dlB) /\
    sids (schedule dlB) = [1; 2; 3; 4]%N.
  Proof. vm_compute. repeat split; reflexivity. Qed.

  (* the deferred discriminator is forced when its phase is reached, after the earlier phases ran *)
  Example log_A : snd (commit actsA) = [Run 1%N; Run 2%N; Force 3%N; Run 4%N; Run 3%N].
  Proof. vm_compute. reflexivity. Qed.

  (* the hypotheses of the theorems hold here *)
  Example hyps :
    discs_nodup actsA = true /\ discs_nodup actsB = true /\ h1b dlA = true /\ h2b dlA = true.
  Proof. vm_compute. repeat split; reflexivity. Qed.

  Example nodup_A : NoDup (map sid dlA).
  Proof. vm_compute. repeat (constructor; [cbn [In]; intuition discriminate|]). constructor. Qed.

  Example perm_AB : Permutation dlA dlB.
  Proof.
    unfold dlA, dlB, declA, declB. cbn [map fst].
    apply (Permutation_cons_app [wst w3; wst w2] [wst w1]). cbn [app].
    apply (Permutation_cons_app [wst w3; wst w2] []). cbn [app].
    apply Permutation_refl.
  Qed.

  Example horder_AB : Horder dlA dlB.
  Proof.
    intros k. apply Ex.horder_seq2.
    cbv [dlA dlB declA declB map fst wst w1 w2 w3 w4 filter is_seq smode writes swrites memN andb orb].
    destruct (N.eqb k 2); reflexivity.
  Qed.

  (* the theorem applies: same store from both orders and both include trees *)
  Example stores_equal : store_eq (exec_store pathsA declA) (exec_store pathsB declB).
  Proof.
    apply commit_model_permutation_invariant.
    - exact nodup_A.
    - exact perm_AB.
    - vm_compute. reflexivity.
    - vm_compute. reflexivity.
    - exact horder_AB.
    - apply h1b_H1. vm_compute. reflexivity.
    - apply h2b_H2. vm_compute. reflexivity.
  Qed.
End ExC.
