(* C15 proofs: invariant of the view-lookup cache over arbitrary traces of the
   small-step system (any number of threads, any number of steps), for the
   programs translated from the current tree. *)
From Coq Require Import List NArith ZArith Bool Arith Lia.
Import ListNotations.
Require Import Verif.Lib.Wire Verif.Lib.C15Prog Verif.Lib.C15Init Verif.Gen.Facts_C15 Verif.Model.C15.

(* the facts: the translated programs are the ones the proofs are about *)
Lemma facts_lookup_prog : lookup_prog = std_lookup Local true.
Proof. reflexivity. Qed.
Lemma facts_register_prog : register_prog = std_register Swap.
Proof. reflexivity. Qed.
Lemma facts_register_prog_fallback : register_prog_fallback = register_prog.
Proof. reflexivity. Qed.

Lemma upd_same {A} (f : nat -> A) i a : upd f i a i = a.
Proof. unfold upd. rewrite Nat.eqb_refl. reflexivity. Qed.
Lemma upd_other {A} (f : nat -> A) i a j : j <> i -> upd f i a j = f j.
Proof. unfold upd. intros H. apply Nat.eqb_neq in H. rewrite H. reflexivity. Qed.

Lemma key_eqb_eq a b : key_eqb a b = true <-> a = b.
Proof.
  destruct a as [[[a0 a1] a2] a3], b as [[[b0 b1] b2] b3]. unfold key_eqb.
  rewrite !andb_true_iff, !N.eqb_eq. split.
  - intros [[[-> ->] ->] ->]. reflexivity.
  - intros H. inversion H. auto.
Qed.

Lemma dget_dset k v d k' :
  dget (dset k v d) k' = if key_eqb k' k then Some v else dget d k'.
Proof. reflexivity. Qed.

Lemma lookup_over_app Rg a b : lookup_over Rg (a ++ b) = lookup_over Rg a ++ lookup_over Rg b.
Proof. unfold lookup_over. apply flat_map_app. Qed.

Section Proofs.
  Variable sro : N -> list N.
  (* the cache key determines the lookup (it contains the classifier) *)
  Variable km : key_mode.
  Hypothesis Hkm : forall k, ckey km k = k.

  (* body of [if views:] -- the translated one (with the lock) or one of the two lock-free variants *)
  Variable wb : list instr.
  Hypothesis Hwb : wb = std_wb Local \/ wb = wb_nolock \/ wb = wb_nolock_split.
  Definition Kk : list instr := [IfNonEmpty wb; Return].
  Definition Gb : list instr := [InitViews; QueryAll; IfNonEmpty wb].
  Definition LPs := lookup_with wb.
  Definition RPs := std_register Swap.

  Notation slots := (slots_of sro).
  Notation lall := (lookup_all sro).
  Notation stepT := (step_thread sro km).
  Notation doL := (do_label sro km LPs RPs).
  Notation run := (exec sro km LPs RPs).

  Definition quietT (th : tid -> option thread) : Prop :=
    forall i t, th i = Some t -> midway t = false.
  Definition quiet (st : state) : Prop := quietT (threads st).

  (* shape of a lookup thread of the translated program, with what is known of
     its locals; [cu], [q], [Rg]: current dictionary, quietness, registry *)
  Section Shapes.
    Variables (Rg : reg) (cu : cid) (q : Prop).
    Definition consistent (t : thread) (vs : list view) (sl : list slot) : Prop :=
      tc t = Some cu -> q -> vs = lookup_over Rg sl.

    Inductive lk_ok (t : thread) : Prop :=
    | S0 : cont t = LPs -> tc t = None -> tviews t = None -> lk_ok t
    | S1 : cont t = [Get; IfMiss Gb; Return] -> tc t <> None -> tviews t = None -> lk_ok t
    | S2m : cont t = [IfMiss Gb; Return] -> tc t <> None -> tviews t = None -> lk_ok t
    | S2h vs : cont t = [IfMiss Gb; Return] -> tc t <> None -> tviews t = Some vs -> vs <> [] ->
               consistent t vs (slots (tkey t)) -> lk_ok t
    | S3 : cont t = Gb ++ [Return] -> tc t <> None -> tviews t = None -> lk_ok t
    | S4 : cont t = QueryAll :: Kk -> tc t <> None -> tviews t = Some [] -> lk_ok t
    | S5 vs done todo : cont t = map Query todo ++ Kk -> tc t <> None -> tviews t = Some vs ->
               done ++ todo = slots (tkey t) -> consistent t vs done -> lk_ok t
    | S7 vs : cont t = wb ++ [Return] -> tc t <> None -> tviews t = Some vs -> vs <> [] ->
               consistent t vs (slots (tkey t)) -> lk_ok t
    | S8 vs : cont t = [Write Local; Unlock; Return] -> tc t <> None -> tviews t = Some vs -> vs <> [] ->
               consistent t vs (slots (tkey t)) -> lk_ok t
    | S9 vs : cont t = [Unlock; Return] -> tc t <> None -> tviews t = Some vs ->
               consistent t vs (slots (tkey t)) -> lk_ok t
    | S10 vs : cont t = [Return] -> tc t <> None -> tviews t = Some vs ->
               consistent t vs (slots (tkey t)) -> lk_ok t
    | S11 : cont t = [] -> lk_ok t
    | SU8 vs d : cont t = [WriteStore Local; Return] -> tc t <> None -> tviews t = Some vs -> vs <> [] ->
               consistent t vs (slots (tkey t)) -> tsnap t = Some d ->
               (forall k v, dget d k = Some v -> v <> []) ->
               (tc t = Some cu -> q -> forall k v, dget d k = Some v -> v = lookup_over Rg (slots k)) ->
               lk_ok t.
  End Shapes.

  Definition rg_ok (t : thread) : Prop :=
    (cont t = RPs /\ tpc t = 0) \/ (cont t = [Clear Swap] /\ tpc t <> 0) \/ cont t = [].

  Definition thread_ok (st : state) (t : thread) : Prop :=
    (forall c, tc t = Some c -> c < ncid st) /\
    match tkind t with
    | KLookup => lk_ok (R st) (cur st) (quiet st) t
    | KRegister => rg_ok t
    end.

  Record Inv (st : state) : Prop := mkInv {
    inv_nonempty : forall c k vs, dget (heap st c) k = Some vs -> vs <> [];
    inv_fresh : quiet st -> forall k vs, dget (heap st (cur st)) k = Some vs -> vs = lall (R st) k;
    inv_cur : cur st < ncid st;
    inv_threads : forall i t, threads st i = Some t -> thread_ok st t;
    inv_ntid : forall i, ntid st <= i -> threads st i = None
  }.

  Lemma lk_ok_frame Rg cu (q : Prop) Rg' cu' (q' : Prop) t :
    lk_ok Rg cu q t ->
    (tc t = Some cu' -> q' -> tc t = Some cu /\ q /\ Rg' = Rg) ->
    lk_ok Rg' cu' q' t.
  Proof.
    intros H F.
    assert (C : forall vs sl, consistent Rg cu q t vs sl -> consistent Rg' cu' q' t vs sl).
    { intros vs sl Hc H1 H2. destruct (F H1 H2) as (A & B & ->). auto. }
    destruct H;
      [ eapply S0 | eapply S1 | eapply S2m | eapply S2h | eapply S3 | eapply S4 | eapply S5
      | eapply S7 | eapply S8 | eapply S9 | eapply S10 | eapply S11 | eapply SU8 ]; eauto.
    intros H9 H10 k0 v0 Hk0. destruct (F H9 H10) as (A1 & B1 & ->). eauto.
  Qed.

  Lemma midway_lookup t : tkind t = KLookup -> midway t = false.
  Proof. unfold midway. intros ->. reflexivity. Qed.

  Lemma midway_rg t : tkind t = KRegister -> rg_ok t ->
    (midway t = true <-> cont t = [Clear Swap]).
  Proof.
    unfold midway. intros -> [[H1 H2]|[[H1 H2]|H1]]; rewrite H1.
    - rewrite H2. simpl. split; discriminate.
    - apply Nat.eqb_neq in H2. rewrite H2. simpl. tauto.
    - simpl. rewrite andb_false_r. split; discriminate.
  Qed.

  (* ---------- initial state and spawning *)
  Lemma inv_init R0 : Inv (init R0).
  Proof.
    constructor; simpl; try discriminate; auto.
  Qed.

  Lemma quiet_upd_same th i t' :
    midway t' = false ->
    (forall t, th i = Some t -> midway t = false) ->
    (quietT (upd th i (Some t')) <-> quietT th).
  Proof.
    intros Hm Ho. split; intros Q j t Hj.
    - destruct (Nat.eq_dec j i) as [->|Hne]; [auto|].
      apply (Q j). rewrite upd_other; auto.
    - destruct (Nat.eq_dec j i) as [->|Hne].
      + rewrite upd_same in Hj. inversion Hj. subst. auto.
      + rewrite upd_other in Hj; eauto.
  Qed.

  Lemma inv_spawn st t :
    Inv st -> midway t = false -> tc t = None ->
    match tkind t with KLookup => cont t = LPs /\ tviews t = None | KRegister => cont t = RPs /\ tpc t = 0 end ->
    Inv (spawn st t).
  Proof.
    intros I Hm Htc Hk.
    assert (Q : quiet (spawn st t) <-> quiet st).
    { unfold quiet, spawn. simpl. apply quiet_upd_same; auto.
      intros t0 H0. rewrite (inv_ntid _ I) in H0; [discriminate|lia]. }
    constructor; simpl.
    - apply (inv_nonempty _ I).
    - intros Hq. apply (inv_fresh _ I). apply Q, Hq.
    - apply (inv_cur _ I).
    - intros i t0 Hi. destruct (Nat.eq_dec i (ntid st)) as [->|Hne].
      + rewrite upd_same in Hi. inversion Hi. subst t0. split; simpl.
        * intros c Hc. congruence.
        * destruct (tkind t); [apply S0; tauto | left; tauto].
      + rewrite upd_other in Hi by auto. destruct (inv_threads _ I _ _ Hi) as [A B].
        split; [exact A|]. simpl. destruct (tkind t0); [|exact B].
        eapply lk_ok_frame; [exact B|]. intros H1 H2. repeat split; auto. apply Q, H2.
    - intros i Hi. rewrite upd_other by lia. apply (inv_ntid _ I). lia.
  Qed.

  (* ---------- steps that only change the stepping lookup thread *)
  Lemma inv_put_lookup st i t t' :
    Inv st -> threads st i = Some t -> tkind t = KLookup -> tkind t' = KLookup ->
    lk_ok (R st) (cur st) (quiet st) t' ->
    (forall c, tc t' = Some c -> c < ncid st) ->
    Inv (put st i t').
  Proof.
    intros I Hi Hk Hk' Hok Hc.
    assert (Q : quiet (put st i t') <-> quiet st).
    { unfold quiet, put. simpl. apply quiet_upd_same.
      - apply midway_lookup; auto.
      - intros t0 H0. rewrite Hi in H0. inversion H0. subst. apply midway_lookup; auto. }
    constructor; simpl.
    - apply (inv_nonempty _ I).
    - intros Hq. apply (inv_fresh _ I). apply Q, Hq.
    - apply (inv_cur _ I).
    - intros j t0 Hj. destruct (Nat.eq_dec j i) as [->|Hne].
      + rewrite upd_same in Hj. inversion Hj. subst t0. split; simpl; [exact Hc|].
        rewrite Hk'. eapply lk_ok_frame; [exact Hok|]. intros H1 H2. repeat split; auto. apply Q, H2.
      + rewrite upd_other in Hj by auto. destruct (inv_threads _ I _ _ Hj) as [A B].
        split; [exact A|]. simpl. destruct (tkind t0); [|exact B].
        eapply lk_ok_frame; [exact B|]. intros H1 H2. repeat split; auto. apply Q, H2.
    - intros j Hj. destruct (Nat.eq_dec j i) as [->|Hne].
      + rewrite (inv_ntid _ I) in Hi by auto. discriminate.
      + rewrite upd_other by auto. apply (inv_ntid _ I). auto.
  Qed.

  Lemma inv_set_lock st l : Inv st -> Inv (set_lock st l).
  Proof. intros I. destruct I. constructor; auto. Qed.

  (* ---------- a write of a lookup thread *)
  Lemma inv_write st i t c vs :
    Inv st -> threads st i = Some t -> tkind t = KLookup ->
    tc t = Some c -> vs <> [] ->
    consistent (R st) (cur st) (quiet st) t vs (slots (tkey t)) ->
    Inv (set_heap st (upd (heap st) c (dset (tkey t) vs (heap st c)))).
  Proof.
    intros I Hi Hk Hc Hne Hcons.
    constructor; simpl.
    - intros c0 k vs0. destruct (Nat.eq_dec c0 c) as [->|Hn].
      + rewrite upd_same, dget_dset. destruct (key_eqb k (tkey t)).
        * intros E. inversion E. subst. exact Hne.
        * apply (inv_nonempty _ I).
      + rewrite upd_other by auto. apply (inv_nonempty _ I).
    - intros Hq k vs0. destruct (Nat.eq_dec (cur st) c) as [E|Hn].
      + rewrite E, upd_same, dget_dset. destruct (key_eqb k (tkey t)) eqn:Ek.
        * apply key_eqb_eq in Ek. subst k. intros E1. inversion E1. subst vs0.
          apply Hcons; [congruence|exact Hq].
        * rewrite <- E. apply (inv_fresh _ I Hq).
      + rewrite upd_other by auto. apply (inv_fresh _ I Hq).
    - apply (inv_cur _ I).
    - intros j t0 Hj. apply (inv_threads _ I _ _ Hj).
    - apply (inv_ntid _ I).
  Qed.

  Lemma inv_write_snap st i t c vs d :
    Inv st -> threads st i = Some t -> tkind t = KLookup ->
    tc t = Some c -> vs <> [] ->
    consistent (R st) (cur st) (quiet st) t vs (slots (tkey t)) ->
    (forall k v, dget d k = Some v -> v <> []) ->
    (tc t = Some (cur st) -> quiet st -> forall k v, dget d k = Some v -> v = lookup_over (R st) (slots k)) ->
    Inv (set_heap st (upd (heap st) c (dset (tkey t) vs d))).
  Proof.
    intros I Hi Hk Hc Hne Hcons Hd1 Hd2.
    constructor; simpl.
    - intros c0 k vs0. destruct (Nat.eq_dec c0 c) as [->|Hn].
      + rewrite upd_same, dget_dset. destruct (key_eqb k (tkey t)).
        * intros E. inversion E. subst. exact Hne.
        * apply Hd1.
      + rewrite upd_other by auto. apply (inv_nonempty _ I).
    - intros Hq k vs0. destruct (Nat.eq_dec (cur st) c) as [E|Hn].
      + rewrite E, upd_same, dget_dset. destruct (key_eqb k (tkey t)) eqn:Ek.
        * apply key_eqb_eq in Ek. subst k. intros E1. inversion E1. subst vs0.
          apply Hcons; [congruence|exact Hq].
        * intros E1. apply (Hd2 (ltac:(congruence)) Hq _ _ E1).
      + rewrite upd_other by auto. apply (inv_fresh _ I Hq).
    - apply (inv_cur _ I).
    - intros j t0 Hj. apply (inv_threads _ I _ _ Hj).
    - apply (inv_ntid _ I).
  Qed.

  (* ---------- the two steps of a registration *)
  Lemma inv_register_adapter st i t :
    Inv st -> threads st i = Some t -> tkind t = KRegister -> cont t = RPs -> tpc t = 0 ->
    Inv (put (set_R st (rapply (tups t) (R st))) i (tick t [Clear Swap])).
  Proof.
    intros I Hi Hk Hc Hp.
    assert (NQ : ~ quiet (put (set_R st (rapply (tups t) (R st))) i (tick t [Clear Swap]))).
    { intros Q. specialize (Q i (tick t [Clear Swap])). simpl in Q. rewrite upd_same in Q.
      specialize (Q eq_refl). unfold midway in Q. simpl in Q. rewrite Hk in Q. discriminate. }
    constructor; simpl.
    - apply (inv_nonempty _ I).
    - intros Hq. contradiction.
    - apply (inv_cur _ I).
    - intros j t0 Hj. destruct (Nat.eq_dec j i) as [->|Hne].
      + rewrite upd_same in Hj. inversion Hj. subst t0. split; simpl.
        * apply (inv_threads _ I _ _ Hi).
        * rewrite Hk. right. left. split; [reflexivity|simpl; lia].
      + rewrite upd_other in Hj by auto. destruct (inv_threads _ I _ _ Hj) as [A B].
        split; [exact A|]. simpl. destruct (tkind t0); [|exact B].
        eapply lk_ok_frame; [exact B|]. intros H1 H2. contradiction.
    - intros j Hj. destruct (Nat.eq_dec j i) as [->|Hne].
      + rewrite (inv_ntid _ I) in Hi by auto. discriminate.
      + rewrite upd_other by auto. apply (inv_ntid _ I). auto.
  Qed.

  Lemma inv_clear_swap st i t :
    Inv st -> threads st i = Some t -> tkind t = KRegister -> cont t = [Clear Swap] ->
    Inv (put (swap_cache st) i (tick t [])).
  Proof.
    intros I Hi Hk Hc.
    constructor; simpl.
    - intros c k vs. destruct (Nat.eq_dec c (ncid st)) as [->|Hn].
      + rewrite upd_same. discriminate.
      + rewrite upd_other by auto. apply (inv_nonempty _ I).
    - intros _ k vs. rewrite upd_same. discriminate.
    - lia.
    - intros j t0 Hj. destruct (Nat.eq_dec j i) as [->|Hne].
      + rewrite upd_same in Hj. inversion Hj. subst t0. split; simpl.
        * intros c Hc'. destruct (inv_threads _ I _ _ Hi) as [A _]. specialize (A c Hc'). lia.
        * rewrite Hk. right. right. reflexivity.
      + rewrite upd_other in Hj by auto. destruct (inv_threads _ I _ _ Hj) as [A B].
        split; [intros c Hc'; specialize (A c Hc'); simpl; lia|]. simpl. destruct (tkind t0); [|exact B].
        eapply lk_ok_frame; [exact B|]. intros H1 H2. apply A in H1. simpl in H1. lia.
    - intros j Hj. destruct (Nat.eq_dec j i) as [->|Hne].
      + rewrite (inv_ntid _ I) in Hi by auto. discriminate.
      + rewrite upd_other by auto. apply (inv_ntid _ I). auto.
  Qed.

  (* ---------- one step of any thread preserves the invariant *)
  Lemma inv_step_lookup st i t :
    Inv st -> threads st i = Some t -> tkind t = KLookup -> Inv (stepT st i t).
  Proof.
    intros I Hi Hk.
    destruct (inv_threads _ I _ _ Hi) as [A B]. rewrite Hk in B.
    assert (PUT : forall t', tkind t' = KLookup -> tc t' = tc t ->
                  lk_ok (R st) (cur st) (quiet st) t' -> Inv (put st i t')).
    { intros t' K1 K2 K3. eapply inv_put_lookup; eauto. rewrite K2. exact A. }
    unfold step_thread. rewrite ?Hkm.
    destruct B as [Hc Htc Hv|Hc Htc Hv|Hc Htc Hv|vs Hc Htc Hv Hne Hcs|Hc Htc Hv|Hc Htc Hv
                  |vs dn todo Hc Htc Hv Hsp Hcs|vs Hc Htc Hv Hne Hcs|vs Hc Htc Hv Hne Hcs
                  |vs Hc Htc Hv Hcs|vs Hc Htc Hv Hcs|Hc|vs d Hc Htc Hv Hne Hcs Hsn Hd1 Hd2].
    - (* S0: ReadPtr *)
      rewrite Hc. simpl. eapply inv_put_lookup; eauto.
      + apply S1; simpl; auto. discriminate.
      + simpl. intros c E. inversion E. subst. apply (inv_cur _ I).
    - (* S1: Get *)
      rewrite Hc. simpl. destruct (tc t) as [c|] eqn:Etc; [|congruence].
      destruct (dget (heap st c) (tkey t)) as [vs|] eqn:Eg.
      + apply PUT; simpl; auto. eapply S2h; simpl; eauto; try congruence.
        * eapply (inv_nonempty _ I); eauto.
        * intros E Hq. assert (Ec : c = cur st) by (simpl in E; congruence). subst c. apply (inv_fresh _ I Hq _ _ Eg).
      + apply PUT; simpl; auto. apply S2m; simpl; auto. congruence.
    - (* S2 miss *)
      rewrite Hc, Hv. simpl. apply PUT; simpl; auto. apply S3; simpl; auto.
    - (* S2 hit *)
      rewrite Hc, Hv. simpl. apply PUT; simpl; auto. eapply S10; simpl; eauto.
    - (* S3: InitViews *)
      rewrite Hc. simpl. apply PUT; simpl; auto. apply S4; simpl; auto.
    - (* S4: QueryAll *)
      rewrite Hc. simpl. apply PUT; simpl; auto.
      eapply (S5 _ _ _ _ [] [] (slots (tkey t))); simpl; eauto.
      intros _ _. reflexivity.
    - (* S5: Query / IfNonEmpty *)
      rewrite Hc, Hv. destruct todo as [|s todo']; simpl.
      + rewrite app_nil_r in Hsp. subst dn. destruct vs as [|v vs'].
        * apply PUT; simpl; auto. eapply S10; simpl; eauto.
        * apply PUT; simpl; auto. eapply S7; simpl; eauto. discriminate.
      + apply PUT; simpl; auto.
        eapply (S5 _ _ _ _ _ (dn ++ [s]) todo'); simpl; eauto.
        * rewrite <- app_assoc. exact Hsp.
        * intros E Hq. rewrite lookup_over_app, (Hcs E Hq). unfold lookup_over. simpl.
          rewrite app_nil_r. reflexivity.
    - (* S7: Lock | Write (no lock) | WriteLoad (no lock, read-modify-write) *)
      destruct Hwb as [E|[E|E]]; rewrite E in Hc; rewrite Hc; simpl.
      + destruct (lock st); [exact I|].
        apply inv_set_lock. apply PUT; simpl; auto. eapply S8; simpl; eauto.
      + rewrite Hv. destruct (tc t) as [c|] eqn:Etc; [|congruence].
        eapply inv_put_lookup.
        * eapply (inv_write st i t c vs); eauto.
        * exact Hi.
        * exact Hk.
        * simpl. exact Hk.
        * simpl. eapply S10; simpl; eauto. congruence.
        * simpl. intros c0 E0. apply A. congruence.
      + destruct (tc t) as [c|] eqn:Etc; [|congruence].
        apply PUT; simpl; auto. eapply (SU8 _ _ _ _ vs (heap st c)); simpl; eauto; try congruence.
        * intros k v Hkv. eapply (inv_nonempty _ I); eauto.
        * intros E0 Hq k v Hkv. assert (Ec : c = cur st) by congruence. subst c.
          apply (inv_fresh _ I Hq _ _ Hkv).
    - (* S8: Write *)
      rewrite Hc, Hv. simpl. destruct (tc t) as [c|] eqn:Etc; [|congruence].
      eapply inv_put_lookup.
      + eapply (inv_write st i t c vs); eauto.
      + exact Hi.
      + exact Hk.
      + simpl. exact Hk.
      + simpl. eapply S9; simpl; eauto. congruence.
      + simpl. intros c0 E. apply A. congruence.
    - (* S9: Unlock *)
      rewrite Hc. simpl. apply inv_set_lock. apply PUT; simpl; auto. eapply S10; simpl; eauto.
    - (* S10: Return *)
      rewrite Hc. simpl. apply PUT; simpl; auto. apply S11. reflexivity.
    - rewrite Hc. exact I.
    - (* SU8: WriteStore *)
      rewrite Hc, Hv, Hsn. simpl. destruct (tc t) as [c|] eqn:Etc; [|congruence].
      eapply inv_put_lookup.
      + eapply (inv_write_snap st i t c vs d); eauto. rewrite Etc. exact Hd2.
      + exact Hi.
      + exact Hk.
      + simpl. exact Hk.
      + simpl. eapply S10; simpl; eauto. congruence.
      + simpl. intros c0 E0. apply A. congruence.
  Qed.

  Lemma inv_step st i t : Inv st -> threads st i = Some t -> Inv (stepT st i t).
  Proof.
    intros I Hi. destruct (tkind t) eqn:Hk; [apply inv_step_lookup; auto|].
    destruct (inv_threads _ I _ _ Hi) as [A B]. rewrite Hk in B.
    unfold step_thread. destruct B as [[Hc Hp]|[[Hc Hp]|Hc]]; rewrite Hc; simpl.
    - apply inv_register_adapter; auto.
    - apply inv_clear_swap; auto.
    - exact I.
  Qed.

  Lemma inv_label st l : Inv st -> Inv (doL st l).
  Proof.
    intros I. destruct l as [k|ups|i]; simpl.
    - apply inv_spawn; simpl; auto.
    - apply inv_spawn; simpl; auto.
    - destruct (threads st i) eqn:Hi; [apply inv_step; auto|exact I].
  Qed.

  Lemma inv_run tr st : Inv st -> Inv (run tr st).
  Proof. revert st. induction tr as [|l tr IH]; intros st I; simpl; [exact I|]. apply IH, inv_label, I. Qed.

  Lemma inv_reachable R0 tr : Inv (run tr (init R0)).
  Proof. apply inv_run, inv_init. Qed.

  (* ---------- quiet, executable and declarative *)
  Lemma quiet_upto_spec n st :
    quiet_upto n st = true <-> (forall i t, i < n -> threads st i = Some t -> midway t = false).
  Proof.
    induction n as [|n IH]; simpl.
    - split; [intros _ i t Hi; lia|auto].
    - rewrite andb_true_iff, IH. split.
      + intros [H1 H2] i t Hi Ht. destruct (Nat.eq_dec i n) as [->|Hne].
        * rewrite Ht in H1. destruct (midway t); [discriminate|reflexivity].
        * apply (H2 i); auto. lia.
      + intros H. split.
        * destruct (threads st n) as [t|] eqn:E; [|reflexivity]. rewrite (H n t); auto.
        * intros i t Hi. apply H. lia.
  Qed.

  Lemma quietb_quiet st : Inv st -> (quietb st = true <-> quiet st).
  Proof.
    intros I. unfold quietb. rewrite quiet_upto_spec. split.
    - intros H i t Ht. apply (H i); auto.
      destruct (le_lt_dec (ntid st) i) as [Hl|Hl]; [|exact Hl].
      rewrite (inv_ntid _ I) in Ht by auto. discriminate.
    - intros H i t _ Ht. apply (H i); auto.
  Qed.

  (* ---------- what a step does to the other components: generic in the program *)
  Ltac dm := repeat match goal with
                    | |- context [match ?x with _ => _ end] => destruct x eqn:?; simpl
                    end.

  Lemma upd_self (th : tid -> option thread) i t j : th i = Some t -> th j = upd th i (Some t) j.
  Proof. intros H. unfold upd. destruct (Nat.eqb_spec j i); subst; auto. Qed.

  Lemma step_generic st i t :
    threads st i = Some t ->
    ntid (stepT st i t) = ntid st /\
    (forall j, j <> i -> threads (stepT st i t) j = threads st j) /\
    exists t', threads (stepT st i t) i = Some t' /\ tkey t' = tkey t /\ tkind t' = tkind t.
  Proof.
    intros Hi. unfold step_thread. destruct (cont t) as [|ins rest]; [repeat split; eauto|].
    destruct ins; simpl; dm;
      (split; [reflexivity|split; [intros j Hj; try rewrite upd_other by auto; reflexivity|]]);
      try (eexists; split; [apply upd_same|split; reflexivity]); eauto.
  Qed.

  Lemma reg_step_false_R st l : reg_step st l = false -> R (doL st l) = R st.
  Proof.
    destruct l as [k|ups|i]; simpl; try reflexivity.
    destruct (threads st i) as [t|]; [|reflexivity].
    unfold step_thread. destruct (cont t) as [|ins rest]; [reflexivity|].
    destruct ins; simpl; dm; try reflexivity; discriminate.
  Qed.

  Lemma label_generic st l j t :
    threads st j = Some t -> j < ntid st ->
    ntid st <= ntid (doL st l) /\
    exists t', threads (doL st l) j = Some t' /\ tkey t' = tkey t /\ tkind t' = tkind t.
  Proof.
    intros Hj Hlt. destruct l as [k|ups|i]; simpl.
    - split; [lia|]. exists t. rewrite upd_other by lia. auto.
    - split; [lia|]. exists t. rewrite upd_other by lia. auto.
    - destruct (threads st i) as [ti|] eqn:Hi; [|split; [lia|eauto]].
      destruct (step_generic st i ti Hi) as (A & B & t' & C & D & E).
      split; [lia|]. destruct (Nat.eq_dec j i) as [->|Hne].
      + rewrite Hi in Hj. inversion Hj. subst ti. eauto.
      + rewrite B by auto. eauto.
  Qed.

  Lemma run_generic tr st j t :
    threads st j = Some t -> j < ntid st ->
    exists t', threads (run tr st) j = Some t' /\ tkey t' = tkey t /\ tkind t' = tkind t.
  Proof.
    revert st t. induction tr as [|l tr IH]; intros st t Hj Hlt; simpl; [eauto|].
    destruct (label_generic st l j t Hj Hlt) as (A & t' & B & C & D).
    destruct (IH (doL st l) t' B) as (t'' & E & F & G); [lia|].
    exists t''. repeat split; congruence.
  Qed.

  (* ---------- a span in which the registrations do not change *)
  Definition P (st : state) (t : thread) : Prop :=
    (cont t = LPs /\ tc t = None) \/
    (cont t <> [] /\ tc t = Some (cur st)) \/
    (cont t = [] /\ tres t = Some (lall (R st) (tkey t))).

  Lemma step_lookup_span st i t :
    Inv st -> threads st i = Some t -> tkind t = KLookup -> quiet st ->
    R (stepT st i t) = R st /\ cur (stepT st i t) = cur st /\
    exists t', (forall j, threads (stepT st i t) j = upd (threads st) i (Some t') j) /\
               tkind t' = KLookup /\ (P st t -> P st t').
  Proof.
    intros I Hi Hk Hq.
    destruct (inv_threads _ I _ _ Hi) as [A B]. rewrite Hk in B.
    unfold step_thread.
    destruct B as [Hc Htc Hv|Hc Htc Hv|Hc Htc Hv|vs Hc Htc Hv Hne Hcs|Hc Htc Hv|Hc Htc Hv
                  |vs dn todo Hc Htc Hv Hsp Hcs|vs Hc Htc Hv Hne Hcs|vs Hc Htc Hv Hne Hcs
                  |vs Hc Htc Hv Hcs|vs Hc Htc Hv Hcs|Hc|vs d Hc Htc Hv Hne Hcs Hsn Hd1 Hd2];
      rewrite Hc; try rewrite Hv.
    - simpl. repeat split. eexists. split; [intros j; reflexivity|]. split; [exact Hk|].
      intros _. right. left. simpl. split; [discriminate|reflexivity].
    - simpl. destruct (tc t) as [c|] eqn:Etc; [|congruence]. simpl. repeat split.
      eexists. split; [intros j; reflexivity|]. split; [exact Hk|].
      intros [[H1 _]|[[_ H1]|[H1 _]]]; [rewrite Hc in H1; discriminate| |rewrite Hc in H1; discriminate].
      right. left. simpl. split; [discriminate|congruence].
    - simpl. repeat split. eexists. split; [intros j; reflexivity|]. split; [exact Hk|].
      intros [[H1 _]|[[_ H1]|[H1 _]]]; [rewrite Hc in H1; discriminate| |rewrite Hc in H1; discriminate].
      right. left. simpl. split; [discriminate|exact H1].
    - simpl. repeat split. eexists. split; [intros j; reflexivity|]. split; [exact Hk|].
      intros [[H1 _]|[[_ H1]|[H1 _]]]; [rewrite Hc in H1; discriminate| |rewrite Hc in H1; discriminate].
      right. left. simpl. split; [discriminate|exact H1].
    - simpl. repeat split. eexists. split; [intros j; reflexivity|]. split; [exact Hk|].
      intros [[H1 _]|[[_ H1]|[H1 _]]]; [rewrite Hc in H1; discriminate| |rewrite Hc in H1; discriminate].
      right. left. simpl. split; [discriminate|exact H1].
    - simpl. repeat split. eexists. split; [intros j; reflexivity|]. split; [exact Hk|].
      intros [[H1 _]|[[_ H1]|[H1 _]]]; [rewrite Hc in H1; discriminate| |rewrite Hc in H1; discriminate].
      right. left. simpl. split; [|exact H1].
      destruct (slots (tkey t)); discriminate.
    - destruct todo as [|s todo']; simpl.
      + destruct vs as [|v vs']; simpl; repeat split; (eexists; split; [intros j; reflexivity|]; split; [exact Hk|]);
          (intros [[H1 _]|[[_ H1]|[H1 _]]]; [rewrite Hc in H1; discriminate| |rewrite Hc in H1; discriminate]);
          right; left; simpl;
          (split; [first [discriminate | intros X; apply app_eq_nil in X; destruct X; discriminate]|exact H1]).
      + repeat split. eexists. split; [intros j; reflexivity|]. split; [exact Hk|].
        intros [[H1 _]|[[_ H1]|[H1 _]]]; [rewrite Hc in H1; discriminate| |rewrite Hc in H1; discriminate].
        right. left. simpl. split; [|exact H1]. destruct todo'; discriminate.
    - destruct Hwb as [E|[E|E]]; rewrite E in Hc |- *; simpl.
      + destruct (lock st); simpl; repeat split.
        * exists t. split; [intros j; apply upd_self; exact Hi|]. split; [exact Hk|]. auto.
        * eexists. split; [intros j; reflexivity|]. split; [exact Hk|].
          intros [[H1 _]|[[_ H1]|[H1 _]]]; [rewrite Hc in H1; discriminate| |rewrite Hc in H1; discriminate].
          right. left. simpl. split; [discriminate|exact H1].
      + destruct (tc t) as [c|] eqn:Etc; [|congruence]. simpl. repeat split.
        eexists. split; [intros j; reflexivity|]. split; [exact Hk|].
        intros [[H1 _]|[[_ H1]|[H1 _]]]; [rewrite Hc in H1; discriminate| |rewrite Hc in H1; discriminate].
        right. left. simpl. split; [discriminate|congruence].
      + destruct (tc t) as [c|] eqn:Etc; [|congruence]. simpl. repeat split.
        eexists. split; [intros j; reflexivity|]. split; [exact Hk|].
        intros [[H1 _]|[[_ H1]|[H1 _]]]; [rewrite Hc in H1; discriminate| |rewrite Hc in H1; discriminate].
        right. left. simpl. split; [discriminate|congruence].
    - simpl. destruct (tc t) as [c|] eqn:Etc; [|congruence]. simpl. repeat split.
      eexists. split; [intros j; reflexivity|]. split; [exact Hk|].
      intros [[H1 _]|[[_ H1]|[H1 _]]]; [rewrite Hc in H1; discriminate| |rewrite Hc in H1; discriminate].
      right. left. simpl. split; [discriminate|congruence].
    - simpl. repeat split. eexists. split; [intros j; reflexivity|]. split; [exact Hk|].
      intros [[H1 _]|[[_ H1]|[H1 _]]]; [rewrite Hc in H1; discriminate| |rewrite Hc in H1; discriminate].
      right. left. simpl. split; [discriminate|exact H1].
    - simpl. repeat split. eexists. split; [intros j; reflexivity|]. split; [exact Hk|].
      intros [[H1 _]|[[_ H1]|[H1 _]]]; [rewrite Hc in H1; discriminate| |rewrite Hc in H1; discriminate].
      right. right. simpl. split; [reflexivity|]. f_equal. apply Hcs; auto.
    - repeat split. exists t. split; [intros j; apply upd_self; exact Hi|]. split; [exact Hk|]. auto.
    - rewrite Hsn. simpl. destruct (tc t) as [c|] eqn:Etc; [|congruence]. simpl. repeat split.
      eexists. split; [intros j; reflexivity|]. split; [exact Hk|].
      intros [[H1 _]|[[_ H1]|[H1 _]]]; [rewrite Hc in H1; discriminate| |rewrite Hc in H1; discriminate].
      right. left. simpl. split; [discriminate|congruence].
  Qed.

  Lemma quiet_pointwise (th th' : tid -> option thread) i t t' :
    (forall j, th' j = upd th i (Some t') j) -> th i = Some t ->
    midway t = false -> midway t' = false -> (quietT th' <-> quietT th).
  Proof.
    intros Hp Hi Hm Hm'. split; intros Q j t0 Hj.
    - destruct (Nat.eq_dec j i) as [->|Hne]; [congruence|].
      apply (Q j). rewrite Hp, upd_other; auto.
    - rewrite Hp in Hj. destruct (Nat.eq_dec j i) as [->|Hne].
      + rewrite upd_same in Hj. congruence.
      + rewrite upd_other in Hj; eauto.
  Qed.

  Lemma P_frame st st' t : R st' = R st -> cur st' = cur st -> P st t -> P st' t.
  Proof. unfold P. intros -> ->. auto. Qed.

  Lemma span_label st l :
    Inv st -> quiet st -> reg_step st l = false ->
    quiet (doL st l) /\ R (doL st l) = R st /\ cur (doL st l) = cur st /\
    forall j t', threads (doL st l) j = Some t' -> tkind t' = KLookup ->
                 (forall t, threads st j = Some t -> tkind t = KLookup -> P st t) -> P (doL st l) t'.
  Proof.
    intros I Hq Hr.
    assert (SP : forall t0, midway t0 = false -> quiet (spawn st t0)).
    { intros t0 Hm. unfold quiet, spawn. simpl. apply quiet_upd_same; auto.
      intros t1 H1. rewrite (inv_ntid _ I) in H1; [discriminate|lia]. }
    destruct l as [k|ups|i]; simpl.
    - split; [apply SP; reflexivity|]. repeat split.
      intros j t' Hj Hk Hold. destruct (Nat.eq_dec j (ntid st)) as [->|Hne].
      + rewrite upd_same in Hj. inversion Hj. left. split; reflexivity.
      + rewrite upd_other in Hj by auto. apply (Hold _ Hj Hk).
    - split; [apply SP; reflexivity|]. repeat split.
      intros j t' Hj Hk Hold. destruct (Nat.eq_dec j (ntid st)) as [->|Hne].
      + rewrite upd_same in Hj. inversion Hj. subst t'. discriminate.
      + rewrite upd_other in Hj by auto. apply (Hold _ Hj Hk).
    - destruct (threads st i) as [t|] eqn:Hi; [|repeat split; auto; intros j t' Hj Hk Hold; apply (Hold _ Hj Hk)].
      destruct (tkind t) eqn:Hk.
      + destruct (step_lookup_span st i t I Hi Hk Hq) as (A & B & t' & C & D & E).
        split; [|split; [exact A|split; [exact B|]]].
        * unfold quiet. eapply quiet_pointwise; eauto; apply midway_lookup; auto.
        * intros j t0 Hj Hk0 Hold. apply (P_frame st); auto.
          rewrite C in Hj. destruct (Nat.eq_dec j i) as [->|Hne].
          -- rewrite upd_same in Hj. inversion Hj. subst t0. apply E. apply (Hold _ Hi Hk).
          -- rewrite upd_other in Hj by auto. apply (Hold _ Hj Hk0).
      + destruct (inv_threads _ I _ _ Hi) as [_ B]. rewrite Hk in B.
        simpl in Hr. rewrite Hi in Hr.
        destruct B as [[Hc Hp]|[[Hc Hp]|Hc]].
        * rewrite Hc in Hr. discriminate.
        * assert (M : midway t = true) by (apply midway_rg; auto; right; left; auto).
          rewrite (Hq _ _ Hi) in M. discriminate.
        * unfold step_thread. rewrite Hc. repeat split; auto;
          intros j t' Hj Hk0 Hold; apply (Hold _ Hj Hk0).
  Qed.

  Lemma span_run tr st :
    Inv st -> quiet st -> reg_free sro km LPs RPs st tr = true ->
    quiet (run tr st) /\ R (run tr st) = R st /\ cur (run tr st) = cur st /\
    forall j t', threads (run tr st) j = Some t' -> tkind t' = KLookup ->
                 (forall t, threads st j = Some t -> tkind t = KLookup -> P st t) -> P (run tr st) t'.
  Proof.
    revert st. induction tr as [|l tr IH]; intros st I Hq Hf; simpl.
    - repeat split; auto; intros j t' Hj Hk Hold; apply (Hold _ Hj Hk).
    - simpl in Hf. apply andb_true_iff in Hf. destruct Hf as [H1 H2]. apply negb_true_iff in H1.
      destruct (span_label st l I Hq H1) as (A & B & C & D).
      destruct (IH (doL st l) (inv_label _ _ I) A H2) as (A' & B' & C' & D').
      split; [exact A'|]. split; [congruence|]. split; [congruence|].
      intros j t' Hj Hk Hold. apply (D' j t' Hj Hk).
      intros t Ht Hkt. apply (D j t Ht Hkt Hold).
  Qed.

  (* ---------- the central theorems, for the standard programs *)

  (* cache_inv: whenever no registration is in progress, every entry of the current cache is the
     non-empty, up-to-date answer, and every in-flight lookup that holds the current dictionary
     has partial results consistent with the registrations *)
  Lemma cache_inv_std R0 tr :
    let st := run tr (init R0) in
    quietb st = true ->
    (forall k vs, dget (heap st (cur st)) k = Some vs -> vs = lall (R st) k /\ vs <> []) /\
    (forall i t vs, threads st i = Some t -> tkind t = KLookup -> cont t <> [] ->
                    tc t = Some (cur st) -> tviews t = Some vs ->
                    exists dn, dn ++ pending sro (tkey t) (cont t) = slots (tkey t) /\ vs = lookup_over (R st) dn).
  Proof.
    intros st Hqb. assert (I : Inv st) by apply inv_reachable.
    assert (Hq : quiet st) by (apply quietb_quiet; auto).
    split.
    - intros k vs H. split; [apply (inv_fresh _ I Hq _ _ H)|apply (inv_nonempty _ I _ _ _ H)].
    - intros i t vs Hi Hk Hne Htc Hv.
      destruct (inv_threads _ I _ _ Hi) as [_ B]. rewrite Hk in B.
      assert (LD : forall todo, leading (map Query todo ++ Kk) = todo).
      { induction todo as [|s r IHr]; simpl; [reflexivity|]. f_equal. exact IHr. }
      destruct B as [Hc Htc' Hv'|Hc Htc' Hv'|Hc Htc' Hv'|vs' Hc Htc' Hv' Hne' Hcs|Hc Htc' Hv'|Hc Htc' Hv'
                    |vs' dn todo Hc Htc' Hv' Hsp Hcs|vs' Hc Htc' Hv' Hne' Hcs|vs' Hc Htc' Hv' Hne' Hcs
                    |vs' Hc Htc' Hv' Hcs|vs' Hc Htc' Hv' Hcs|Hc|vs' d Hc Htc' Hv' Hne' Hcs Hsn Hd1 Hd2];
        try congruence;
        try (exists (slots (tkey t)); rewrite Hc; simpl; rewrite app_nil_r; split; [reflexivity|];
             assert (vs' = vs) by congruence; subst vs'; apply Hcs; auto).
      + exists []. rewrite Hc. simpl. split; [reflexivity|]. congruence.
      + exists dn. rewrite Hc. unfold pending.
        assert (E : leading (map Query todo ++ Kk) = todo) by apply LD.
        destruct todo as [|s todo']; simpl in *.
        * split; [exact Hsp|]. assert (vs' = vs) by congruence. subst vs'. apply Hcs; auto.
        * rewrite LD. split; [exact Hsp|]. assert (vs' = vs) by congruence. subst vs'. apply Hcs; auto.
      + exists (slots (tkey t)). rewrite Hc.
        assert (PW : pending sro (tkey t) (wb ++ [Return]) = [])
          by (destruct Hwb as [E|[E|E]]; rewrite E; reflexivity).
        rewrite PW, app_nil_r. split; [reflexivity|]. assert (vs' = vs) by congruence. subst vs'. apply Hcs; auto.
  Qed.

  (* lookup_fresh: a lookup that starts when no registration is in progress, and during which the
     registrations do not change, returns lookup_all of the registrations -- whatever happened
     before (tr1 arbitrary: cold or warm cache, other lookups in flight) and whatever other
     threads do meanwhile (tr2 arbitrary but registration-free) *)
  Lemma lookup_fresh_std R0 tr1 k tr2 :
    let st1 := run tr1 (init R0) in
    let st2 := run (SpawnLookup k :: tr2) st1 in
    quietb st1 = true ->
    reg_free sro km LPs RPs st1 (SpawnLookup k :: tr2) = true ->
    exists t, threads st2 (ntid st1) = Some t /\ tkind t = KLookup /\ tkey t = k /\
              (cont t = [] -> tres t = Some (lall (R st1) k)).
  Proof.
    intros st1 st2 Hqb Hf.
    assert (I : Inv st1) by apply inv_reachable.
    assert (Hq : quiet st1) by (apply quietb_quiet; auto).
    destruct (span_run (SpawnLookup k :: tr2) st1 I Hq Hf) as (A & B & C & D).
    set (s1 := doL st1 (SpawnLookup k)).
    assert (T1 : threads s1 (ntid st1) = Some (new_lookup LPs k)) by (simpl; apply upd_same).
    destruct (run_generic tr2 s1 (ntid st1) _ T1) as (t & Ht & Hkey & Hkind); [simpl; lia|].
    exists t. fold st2 in A, B, C, D. change (run tr2 s1) with st2 in Ht.
    repeat split; auto.
    intros Hc. specialize (D _ _ Ht Hkind).
    destruct D as [[H1 _]|[[H1 _]|[_ H1]]].
    - intros t0 H0. rewrite (inv_ntid _ I) in H0; [discriminate|lia].
    - rewrite Hc in H1. discriminate.
    - congruence.
    - rewrite H1, B. f_equal. f_equal. exact Hkey.
  Qed.

  (* no_stale_after_register: thread i is about to register [ups]; it registers, anything
     registration-free happens (other lookups may be in progress across the registration), and once
     no registration is in progress (so i has cleared the cache) every lookup that starts returns
     lookup_all of the NEW registrations *)
  Lemma no_stale_after_register_std R0 tr0 i ti trm k tr2 :
    let st0 := run tr0 (init R0) in
    let st1 := run (Step i :: trm) st0 in
    let st2 := run (SpawnLookup k :: tr2) st1 in
    threads st0 i = Some ti -> tkind ti = KRegister -> cont ti = RPs ->
    reg_free sro km LPs RPs (doL st0 (Step i)) trm = true ->
    quietb st1 = true ->
    reg_free sro km LPs RPs st1 (SpawnLookup k :: tr2) = true ->
    exists t, threads st2 (ntid st1) = Some t /\ tkind t = KLookup /\ tkey t = k /\
              (cont t = [] -> tres t = Some (lall (rapply (tups ti) (R st0)) k)).
  Proof.
    intros st0 st1 st2 Hi Hk Hc Hfm Hqb Hf.
    assert (E : R st1 = rapply (tups ti) (R st0)).
    { unfold st1. simpl. 
      assert (G : forall tr st, reg_free sro km LPs RPs st tr = true -> R (run tr st) = R st).
      { induction tr as [|l tr IH]; intros st H; simpl; [reflexivity|].
        simpl in H. apply andb_true_iff in H. destruct H as [H1 H2]. apply negb_true_iff in H1.
        rewrite IH by auto. apply reg_step_false_R. exact H1. }
      rewrite G by exact Hfm. simpl. rewrite Hi. unfold step_thread. rewrite Hc. reflexivity. }
    rewrite <- E.
    assert (E1 : st1 = run (tr0 ++ Step i :: trm) (init R0)).
    { unfold st1, st0, exec. rewrite fold_left_app. reflexivity. }
    pose proof (lookup_fresh_std R0 (tr0 ++ Step i :: trm) k tr2) as L. cbv zeta in L.
    rewrite <- E1 in L. apply L; auto.
  Qed.

  (* misses_not_cached: no dictionary ever holds an empty answer; and when no registration is in
     progress a key whose lookup finds nothing is absent from the current cache *)
  Lemma misses_not_cached_std R0 tr :
    let st := run tr (init R0) in
    (forall c k vs, dget (heap st c) k = Some vs -> vs <> []) /\
    (quietb st = true -> forall k, lall (R st) k = [] -> dget (heap st (cur st)) k = None).
  Proof.
    intros st. assert (I : Inv st) by apply inv_reachable. split.
    - apply (inv_nonempty _ I).
    - intros Hqb k Hl. destruct (dget (heap st (cur st)) k) as [vs|] eqn:E; [|reflexivity].
      assert (Hq : quiet st) by (apply quietb_quiet; auto).
      pose proof (inv_fresh _ I Hq _ _ E) as H1. pose proof (inv_nonempty _ I _ _ _ E) as H2.
      congruence.
  Qed.

  (* concurrent_equals_sequential: registrations fixed (R0), any number of lookup threads
     interleaved in any way: every finished lookup returned lookup_all R0 of its key ... *)
  Lemma concurrent_answer_std R0 tr j t :
    reg_free sro km LPs RPs (init R0) tr = true ->
    threads (run tr (init R0)) j = Some t -> tkind t = KLookup -> cont t = [] ->
    tres t = Some (lall R0 (tkey t)).
  Proof.
    intros Hf Hj Hk Hc.
    assert (Hq : quiet (init R0)) by (intros i0 t0 H0; discriminate).
    destruct (span_run tr (init R0) (inv_init R0) Hq Hf) as (A & B & C & D).
    specialize (D _ _ Hj Hk). destruct D as [[H1 _]|[[H1 _]|[_ H1]]].
    - intros t0 H0. discriminate.
    - rewrite Hc in H1. discriminate.
    - congruence.
    - rewrite H1, B. reflexivity.
  Qed.

  (* a system of lookup threads only never changes the registrations *)
  Lemma lookup_head_not_reg st t :
    lk_ok (R st) (cur st) (quiet st) t ->
    match cont t with RegisterAdapter :: _ => true | _ => false end = false.
  Proof.
    intros K2.
    destruct K2 as [Hc2 _ _|Hc2 _ _|Hc2 _ _|? Hc2 _ _ _ _|Hc2 _ _|Hc2 _ _|? ? todo Hc2 _ _ _ _
                   |? Hc2 _ _ _ _|? Hc2 _ _ _ _|? Hc2 _ _ _|? Hc2 _ _ _|Hc2|? ? Hc2 _ _ _ _ _ _ _];
      rewrite Hc2; try reflexivity.
    - destruct todo; reflexivity.
    - destruct Hwb as [E|[E|E]]; rewrite E; reflexivity.
  Qed.

  Definition no_spawn_register (l : label) : bool :=
    match l with SpawnRegister _ => false | _ => true end.

  Lemma lookups_reg_free tr st :
    Inv st -> (forall i ti, threads st i = Some ti -> tkind ti = KLookup) ->
    forallb no_spawn_register tr = true ->
    reg_free sro km LPs RPs st tr = true.
  Proof.
    revert st. induction tr as [|l tr IH]; intros st I HL Hn; simpl; [reflexivity|].
    simpl in Hn. apply andb_true_iff in Hn. destruct Hn as [Hn1 Hn2].
    apply andb_true_iff. split.
    - destruct l as [k|ups|i]; simpl; try reflexivity.
      destruct (threads st i) as [ti|] eqn:Ei; [|reflexivity].
      destruct (inv_threads _ I _ _ Ei) as [_ B]. rewrite (HL _ _ Ei) in B.
      rewrite (lookup_head_not_reg st ti B). reflexivity.
    - apply IH; [apply inv_label; exact I| |exact Hn2].
      intros j tj Hj. destruct l as [k|ups|i]; simpl in Hj.
      + destruct (Nat.eq_dec j (ntid st)) as [->|Hne].
        * rewrite upd_same in Hj. inversion Hj. reflexivity.
        * rewrite upd_other in Hj by auto. eauto.
      + discriminate.
      + destruct (threads st i) as [ti|] eqn:Ei; [|eauto].
        destruct (step_generic st i ti Ei) as (_ & Ho & t3 & Hs & _ & Hkd).
        destruct (Nat.eq_dec j i) as [->|Hne].
        * rewrite Hs in Hj. inversion Hj. subst tj. rewrite Hkd. eauto.
        * rewrite Ho in Hj by auto. eauto.
  Qed.

  (* ... which is the answer of every single-threaded run of the same lookup *)
  Lemma concurrent_equals_sequential_std R0 tr j t n t0 :
    reg_free sro km LPs RPs (init R0) tr = true ->
    threads (run tr (init R0)) j = Some t -> tkind t = KLookup -> cont t = [] ->
    threads (run (SpawnLookup (tkey t) :: repeat (Step 0) n) (init R0)) 0 = Some t0 -> cont t0 = [] ->
    tres t = tres t0.
  Proof.
    intros Hf Hj Hk Hc H0 Hc0.
    rewrite (concurrent_answer_std R0 tr j t Hf Hj Hk Hc).
    destruct (lookup_fresh_std R0 [] (tkey t) (repeat (Step 0) n)) as (t1 & T1 & T2 & T3 & T4).
    - reflexivity.
    - apply lookups_reg_free.
      + apply inv_init.
      + intros i ti Hi. discriminate.
      + simpl. clear. induction n; simpl; auto.
    - change (ntid (run [] (init R0))) with 0 in T1. change (run [] (init R0)) with (init R0) in *.
      rewrite H0 in T1. inversion T1. subst t1. rewrite T4 by exact Hc0. reflexivity.
  Qed.

  (* ---------- the executable expectation [expect] (what the harness judges the implementation
     with) is sound: whenever it constrains a lookup, the model's lookup returns exactly that *)
  Definition G (st : state) (ex : tid -> option (list view)) : Prop :=
    forall j vs, ex j = Some vs ->
      exists t, threads st j = Some t /\ tkind t = KLookup /\
                ((cont t = [] /\ tres t = Some vs) \/
                 (cont t <> [] /\ quiet st /\ vs = lall (R st) (tkey t) /\ P st t)).

  Lemma G_label st l ex :
    Inv st -> G st ex ->
    G (doL st l)
      (match l with
       | SpawnLookup k => upd ex (ntid st) (if quietb st then Some (lall (R st) k) else None)
       | SpawnRegister _ => upd ex (ntid st) None
       | Step _ => if reg_step st l then (fun j => if finished st j then ex j else None) else ex
       end).
  Proof.
    intros I HG.
    assert (LT : forall j vs, ex j = Some vs -> j < ntid st).
    { intros j vs H. destruct (HG _ _ H) as (t & Ht & _).
      destruct (le_lt_dec (ntid st) j) as [Hl|Hl]; [|exact Hl].
      rewrite (inv_ntid _ I) in Ht by auto. discriminate. }
    assert (SPQ : forall t0, midway t0 = false -> quiet st -> quiet (spawn st t0)).
    { intros t0 Hm Hq. unfold quiet, spawn. simpl. apply quiet_upd_same; auto.
      intros t1 H1. rewrite (inv_ntid _ I) in H1; [discriminate|lia]. }
    assert (OLD : forall t0 j vs, midway t0 = false -> j <> ntid st -> ex j = Some vs ->
              exists t, threads (spawn st t0) j = Some t /\ tkind t = KLookup /\
                ((cont t = [] /\ tres t = Some vs) \/
                 (cont t <> [] /\ quiet (spawn st t0) /\ vs = lall (R (spawn st t0)) (tkey t) /\ P (spawn st t0) t))).
    { intros t0 j vs Hm Hne H. destruct (HG _ _ H) as (t & Ht & Hk & Hd).
      exists t. simpl. rewrite upd_other by auto. repeat split; auto.
      destruct Hd as [Hd|(A & B & C & D)]; [left; exact Hd|right]. repeat split; auto. }
    destruct l as [k|ups|i].
    - intros j vs H. simpl. destruct (Nat.eq_dec j (ntid st)) as [->|Hne].
      + rewrite upd_same in H. destruct (quietb st) eqn:Hqb; [|discriminate]. inversion H. subst vs.
        eexists. rewrite upd_same. split; [reflexivity|]. split; [reflexivity|]. right.
        split; [discriminate|]. split; [apply (SPQ (new_lookup LPs k)); [reflexivity|apply quietb_quiet; auto]|].
        split; [reflexivity|]. left. split; reflexivity.
      + rewrite upd_other in H by auto. apply (OLD (new_lookup LPs k)); auto.
    - intros j vs H. simpl. destruct (Nat.eq_dec j (ntid st)) as [->|Hne].
      + rewrite upd_same in H. discriminate.
      + rewrite upd_other in H by auto. apply (OLD (new_register RPs ups)); auto.
    - destruct (reg_step st (Step i)) eqn:Hr.
      + intros j vs H. unfold finished in H.
        destruct (threads st j) as [t|] eqn:Hj.
        * destruct (is_nil (cont t)) eqn:Hn; [|discriminate].
          destruct (HG _ _ H) as (t1 & Ht1 & Hk & Hd). rewrite Hj in Ht1. inversion Ht1. subst t1.
          assert (Hc : cont t = []) by (destruct (cont t); [reflexivity|discriminate]).
          destruct Hd as [Hd|[A _]]; [|congruence].
          exists t. split; [|split; [exact Hk|left; exact Hd]].
          simpl. simpl in Hr. destruct (threads st i) as [ti|] eqn:Hi; [|exact Hj].
          destruct (Nat.eq_dec j i) as [->|Hne].
          -- rewrite Hj in Hi. inversion Hi. subst ti. rewrite Hc in Hr. discriminate.
          -- destruct (step_generic st i ti Hi) as (_ & Ho & _). rewrite Ho by auto. exact Hj.
        * destruct (HG _ _ H) as (t1 & Ht1 & _). congruence.
      + intros j vs H. destruct (HG _ _ H) as (t & Ht & Hk & Hd).
        destruct (label_generic st (Step i) j t Ht (LT _ _ H)) as (_ & t' & Ht' & Hkey & Hkind).
        destruct Hd as [[Hc Hres]|(Hc & Hq & Hvs & HP)].
        * exists t. split; [|split; [exact Hk|left; auto]].
          simpl. destruct (threads st i) as [ti|] eqn:Hi; [|exact Ht].
          destruct (Nat.eq_dec j i) as [->|Hne].
          -- rewrite Ht in Hi. inversion Hi. subst ti. unfold step_thread. rewrite Hc. exact Ht.
          -- destruct (step_generic st i ti Hi) as (_ & Ho & _). rewrite Ho by auto. exact Ht.
        * destruct (span_label st (Step i) I Hq Hr) as (A & B & C & D).
          exists t'. split; [exact Ht'|]. split; [congruence|].
          assert (HP' : P (doL st (Step i)) t').
          { apply (D j t' Ht'); [congruence|]. intros t0 H0 _. rewrite Ht in H0. inversion H0. subst t0. exact HP. }
          destruct (cont t') eqn:Ec.
          -- left. split; [reflexivity|]. destruct HP' as [[H1 _]|[[H1 _]|[_ H1]]].
             ++ rewrite Ec in H1. discriminate.
             ++ rewrite Ec in H1. congruence.
             ++ rewrite H1, B, Hkey, Hvs. reflexivity.
          -- right. split; [discriminate|]. split; [exact A|]. split; [rewrite B, Hkey; exact Hvs|exact HP'].
  Qed.

  Lemma G_run tr st ex : Inv st -> G st ex -> G (run tr st) (expect sro km LPs RPs st tr ex).
  Proof.
    revert st ex. induction tr as [|l tr IH]; intros st ex I HG; simpl; [exact HG|].
    apply IH; [apply inv_label; exact I|]. apply G_label; auto.
  Qed.

  Lemma expect_sound_std R0 tr j vs t :
    expect sro km LPs RPs (init R0) tr (fun _ => None) j = Some vs ->
    threads (run tr (init R0)) j = Some t -> cont t = [] ->
    tkind t = KLookup /\ tres t = Some vs.
  Proof.
    intros He Ht Hc.
    assert (HG : G (init R0) (fun _ => None)) by (intros j0 vs0 H; discriminate).
    destruct (G_run tr (init R0) _ (inv_init R0) HG j vs He) as (t1 & Ht1 & Hk & Hd).
    rewrite Ht in Ht1. inversion Ht1. subst t1. split; [exact Hk|].
    destruct Hd as [[_ H]|[H _]]; [exact H|congruence].
  Qed.
End Proofs.

(* ================= the theorems for the programs of the current tree ================= *)
(* the three bodies of [if views:] the development covers *)
Definition wb_cases (wb : list instr) : Prop := wb = std_wb Local \/ wb = wb_nolock \/ wb = wb_nolock_split.
Lemma HkmF : forall k, ckey KeyFull k = k. Proof. reflexivity. Qed.
Lemma HwbL : wb_cases (std_wb Local). Proof. left. reflexivity. Qed.
Lemma HwbN : wb_cases wb_nolock. Proof. right. left. reflexivity. Qed.
Lemma HwbS : wb_cases wb_nolock_split. Proof. right. right. reflexivity. Qed.

Theorem lookup_fresh : fresh_claim KeyFull lookup_prog register_prog.
Proof.
  rewrite facts_lookup_prog, facts_register_prog.
  intros sro R0 tr1 k tr2. exact (lookup_fresh_std sro KeyFull HkmF _ HwbL R0 tr1 k tr2).
Qed.

Theorem misses_not_cached : misses_claim KeyFull lookup_prog register_prog.
Proof.
  rewrite facts_lookup_prog, facts_register_prog.
  intros sro R0 tr. exact (misses_not_cached_std sro KeyFull HkmF _ HwbL R0 tr).
Qed.

Lemma cache_inv : forall sro R0 tr,
  let st := exec sro KeyFull lookup_prog register_prog tr (init R0) in
  quietb st = true ->
  (forall k vs, dget (heap st (cur st)) k = Some vs -> vs = lookup_all sro (R st) k /\ vs <> []) /\
  (forall i t vs, threads st i = Some t -> tkind t = KLookup -> cont t <> [] ->
                  tc t = Some (cur st) -> tviews t = Some vs ->
                  exists dn, dn ++ pending sro (tkey t) (cont t) = slots_of sro (tkey t) /\
                             vs = lookup_over (R st) dn).
Proof. rewrite facts_lookup_prog, facts_register_prog. exact (fun sro => cache_inv_std sro KeyFull HkmF _ HwbL). Qed.

Lemma no_stale_after_register : forall sro R0 tr0 i ti trm k tr2,
  let st0 := exec sro KeyFull lookup_prog register_prog tr0 (init R0) in
  let st1 := exec sro KeyFull lookup_prog register_prog (Step i :: trm) st0 in
  let st2 := exec sro KeyFull lookup_prog register_prog (SpawnLookup k :: tr2) st1 in
  threads st0 i = Some ti -> tkind ti = KRegister -> cont ti = register_prog ->
  reg_free sro KeyFull lookup_prog register_prog (do_label sro KeyFull lookup_prog register_prog st0 (Step i)) trm = true ->
  quietb st1 = true ->
  reg_free sro KeyFull lookup_prog register_prog st1 (SpawnLookup k :: tr2) = true ->
  exists t, threads st2 (ntid st1) = Some t /\ tkind t = KLookup /\ tkey t = k /\
            (cont t = [] -> tres t = Some (lookup_all sro (rapply (tups ti) (R st0)) k)).
Proof. rewrite facts_lookup_prog, facts_register_prog. exact (fun sro => no_stale_after_register_std sro KeyFull HkmF _ HwbL). Qed.

Lemma concurrent_equals_sequential : forall sro R0 tr j t,
  reg_free sro KeyFull lookup_prog register_prog (init R0) tr = true ->
  threads (exec sro KeyFull lookup_prog register_prog tr (init R0)) j = Some t -> tkind t = KLookup -> cont t = [] ->
  tres t = Some (lookup_all sro R0 (tkey t)) /\
  forall n t0,
    threads (exec sro KeyFull lookup_prog register_prog (SpawnLookup (tkey t) :: repeat (Step 0) n) (init R0)) 0 = Some t0 ->
    cont t0 = [] -> tres t = tres t0.
Proof.
  rewrite facts_lookup_prog, facts_register_prog. intros sro R0 tr j t Hf Hj Hk Hc. split.
  - eapply (concurrent_answer_std sro KeyFull HkmF _ HwbL); eauto.
  - intros n t0 H0 Hc0. eapply (concurrent_equals_sequential_std sro KeyFull HkmF _ HwbL); eauto.
Qed.

Lemma expect_sound : forall sro R0 tr j vs t,
  expect sro KeyFull lookup_prog register_prog (init R0) tr (fun _ => None) j = Some vs ->
  threads (exec sro KeyFull lookup_prog register_prog tr (init R0)) j = Some t -> cont t = [] ->
  tkind t = KLookup /\ tres t = Some vs.
Proof. rewrite facts_lookup_prog, facts_register_prog. exact (fun sro => expect_sound_std sro KeyFull HkmF _ HwbL). Qed.

(* requests: _call_view only reads the candidate list, so whenever the expectation constrains the
   lookup of a request, the request is answered by the first accepting candidate of lookup_all *)
Lemma facts_call_view_reads_only : call_view_reads_only = true.
Proof. reflexivity. Qed.

Lemma facts_multiview_stateless : multiview_stateless = true.
Proof. reflexivity. Qed.

(* generated = model for _call_view.  The script does not mention the generated text: it generalises the
   initial values of the loop-carried variables of whatever fixpoint was emitted (flags first, results after) *)
Lemma gen_call_view_is_model : forall call vs, gen_call_view call vs = model_call_view call vs false.
Proof.
  intros call vs. unfold gen_call_view.
  match goal with
  | |- ?f vs false None = _ =>
      assert (H : forall l b, f l b None = model_call_view call l b);
      [ induction l as [|v r IH]; intros b; simpl;
        [ destruct b; reflexivity | destruct (call v); [reflexivity|apply IH] ]
      | apply H ]
  end.
Qed.

Lemma model_call_view_first tbl : forall vs b,
  outcome_view (model_call_view (call_of tbl) vs b) = first_answer tbl vs.
Proof.
  induction vs as [|v r IH]; intros b; simpl.
  - destruct b; reflexivity.
  - unfold call_of. destruct (answer_of tbl v); [reflexivity|apply IH].
Qed.

Lemma call_view_first_answer : forall tbl vs,
  outcome_view (gen_call_view (call_of tbl) vs) = first_answer tbl vs.
Proof. intros. rewrite gen_call_view_is_model. apply model_call_view_first. Qed.

Lemma request_answer_sound : forall sro R0 tr j vs t tbl,
  expect sro KeyFull lookup_prog register_prog (init R0) tr (fun _ => None) j = Some vs ->
  threads (exec sro KeyFull lookup_prog register_prog tr (init R0)) j = Some t -> cont t = [] ->
  request_answer tbl (tres t) = Some (first_answer tbl vs).
Proof.
  intros sro R0 tr j vs t tbl He Ht Hc.
  destruct (expect_sound sro R0 tr j vs t He Ht Hc) as [_ H].
  unfold request_answer. rewrite facts_call_view_reads_only, facts_multiview_stateless, H. simpl.
  rewrite call_view_first_answer. reflexivity.
Qed.

(* ================= what the lock is needed for =================
   Nothing, for this property: with the lock removed -- and even under a finer atomicity in which
   [cache[key] = views] is a separate read and a write-back of the whole dictionary (a lost-update
   race is then possible) -- every theorem above still holds.  A lost update only loses a cache entry
   (a later miss), never produces a stale or empty one: what is written back is a snapshot of the same
   dictionary, and a dictionary that is current while no registration is in progress has only ever
   received up-to-date entries. *)
Theorem lookup_fresh_nolock : fresh_claim KeyFull (lookup_with wb_nolock) register_prog.
Proof. rewrite facts_register_prog. intros sro R0 tr1 k tr2. exact (lookup_fresh_std sro KeyFull HkmF _ HwbN R0 tr1 k tr2). Qed.

Theorem lookup_fresh_nolock_split : fresh_claim KeyFull (lookup_with wb_nolock_split) register_prog.
Proof. rewrite facts_register_prog. intros sro R0 tr1 k tr2. exact (lookup_fresh_std sro KeyFull HkmF _ HwbS R0 tr1 k tr2). Qed.

Theorem misses_not_cached_nolock : misses_claim KeyFull (lookup_with wb_nolock) register_prog.
Proof. rewrite facts_register_prog. intros sro R0 tr. exact (misses_not_cached_std sro KeyFull HkmF _ HwbN R0 tr). Qed.

Theorem misses_not_cached_nolock_split : misses_claim KeyFull (lookup_with wb_nolock_split) register_prog.
Proof. rewrite facts_register_prog. intros sro R0 tr. exact (misses_not_cached_std sro KeyFull HkmF _ HwbS R0 tr). Qed.

(* ================= concrete world for examples and refutations ================= *)
Definition sro1 (i : N) : list N :=
  if N.eqb i 1 then [1; 0]%N else if N.eqb i 11 then [11; 10; 0]%N else [].
Definition k1 : key := (0, 1, 11, 0)%N.
Definition sA : slot := (0, 1, 11, 0, 0)%N.
Definition R1 : reg := [(sA, Some 1%N)].
Definition steps (i n : nat) : list label := repeat (Step i) n.
(* thread 0 looks k1 up and is pre-empted just before the lock (24 instructions: all 18 adapter
   queries made); thread 1 replaces the view and clears the cache; thread 0 finishes *)
Definition tr_late : list label :=
  SpawnLookup k1 :: steps 0 24 ++ [SpawnRegister [(sA, Some 2%N)]; Step 1; Step 1] ++ steps 0 4.

(* non-vacuity: in the current tree the late write lands in the detached dictionary; the next
   lookup misses, queries again and sees the new view *)
Definition st_late : state := exec sro1 KeyFull lookup_prog register_prog tr_late (init R1).
Definition st_next : state := exec sro1 KeyFull lookup_prog register_prog (SpawnLookup k1 :: steps 2 40) st_late.
Example late_write_detached :
  quietb st_late = true /\
  reg_free sro1 KeyFull lookup_prog register_prog st_late (SpawnLookup k1 :: steps 2 40) = true /\
  dget (heap st_late (cur st_late)) k1 = None /\ dget (heap st_late 0) k1 = Some [1%N] /\
  (exists t0, threads st_late 0 = Some t0 /\ tres t0 = Some [1%N]) /\
  (exists t, threads st_next 2 = Some t /\ cont t = [] /\ tres t = Some [2%N] /\ tq t = 18) /\
  lookup_all sro1 (R st_late) k1 = [2%N].
Proof.
  vm_compute.
  split; [reflexivity|]. split; [reflexivity|]. split; [reflexivity|]. split; [reflexivity|].
  split; [eexists; split; reflexivity|].
  split; [eexists; repeat (split; [reflexivity|]); reflexivity|]. reflexivity.
Qed.

Ltac refute_fresh tr1 tr2 :=
  let H := fresh "H" in
  intros H;
  pose proof (H sro1 R1 tr1 k1 tr2) as H; cbv zeta in H;
  let Q := fresh "Q" in let F := fresh "F" in
  match type of H with
  | ?q -> ?f -> _ =>
      assert (Q : q) by (vm_compute; reflexivity);
      assert (F : f) by (vm_compute; reflexivity);
      specialize (H Q F)
  end;
  let t := fresh "t" in let A := fresh "A" in let D := fresh "D" in
  destruct H as (t & A & _ & _ & D);
  vm_compute in A; inversion A; subst t; vm_compute in D; specialize (D eq_refl); discriminate D.

(* write through the re-read attribute: the late write of the pre-empted lookup lands in the
   FRESH dictionary; the next lookup returns the replaced view *)
Lemma lookup_fresh_Reread_refuted : ~ fresh_claim KeyFull (std_lookup Reread true) (std_register Swap).
Proof. refute_fresh tr_late (steps 2 40). Qed.

(* clearing in place: the pre-empted lookup still holds the (emptied) current dictionary *)
Lemma lookup_fresh_InPlace_refuted : ~ fresh_claim KeyFull (std_lookup Local true) (std_register InPlace).
Proof. refute_fresh tr_late (steps 2 40). Qed.

(* no clear after the registration: a warm cache keeps the old answer *)
Definition tr_warm : list label :=
  SpawnLookup k1 :: steps 0 40 ++ [SpawnRegister [(sA, Some 2%N)]; Step 1; Step 1].
Lemma lookup_fresh_NoClear_refuted : ~ fresh_claim KeyFull (std_lookup Local true) [RegisterAdapter].
Proof. refute_fresh tr_warm (steps 2 40). Qed.

(* clear before the registration: a lookup between the two steps re-caches the old answer *)
Definition tr_clear_first : list label :=
  [SpawnRegister [(sA, Some 2%N)]; Step 0; SpawnLookup k1] ++ steps 1 40 ++ [Step 0].
Lemma lookup_fresh_ClearFirst_refuted :
  ~ fresh_claim KeyFull (std_lookup Local true) [Clear Swap; RegisterAdapter].
Proof. refute_fresh tr_clear_first (steps 2 40). Qed.

(* no [if views:] guard: a miss is written into the cache *)
Lemma misses_not_cached_Unguarded_refuted : ~ misses_claim KeyFull (std_lookup Local false) (std_register Swap).
Proof.
  intros H. pose proof (H sro1 [] (SpawnLookup k1 :: steps 0 40)) as H. cbv zeta in H.
  destruct H as [H _]. specialize (H 0 k1 []). apply H; [|reflexivity]. vm_compute. reflexivity.
Qed.

(* non-vacuity of concurrent_equals_sequential: three lookup threads interleaved, one sequential run *)
Definition tr_three : list label :=
  [SpawnLookup k1; SpawnLookup k1; Step 0; Step 1; Step 0; SpawnLookup (0, 1, 11, 1)%N] ++
  steps 1 30 ++ steps 2 10 ++ steps 0 40 ++ steps 2 40.
Example three_threads_finish :
  reg_free sro1 KeyFull lookup_prog register_prog (init R1) tr_three = true /\
  forallb (fun j => match threads (exec sro1 KeyFull lookup_prog register_prog tr_three (init R1)) j with
                    | Some t => is_nil (cont t) | None => false end) [0; 1; 2] = true /\
  (exists t0, threads (exec sro1 KeyFull lookup_prog register_prog (SpawnLookup k1 :: repeat (Step 0) 40) (init R1)) 0 = Some t0
              /\ cont t0 = [] /\ tres t0 = Some [1%N]).
Proof.
  vm_compute. split; [reflexivity|]. split; [reflexivity|].
  eexists. split; [reflexivity|]. split; reflexivity.
Qed.

(* what the finer atomicity does cost: a lost update.  Two lookups of different keys read the same
   dictionary before either writes back; the second write-back drops the first entry.  Both answers
   are right, the cache merely misses k1 next time. *)
Definition k2 : key := (0, 1, 11, 1)%N.
Definition R2 : reg := [(sA, Some 1%N); ((0, 1, 11, 0, 1)%N, Some 3%N)].
Definition tr_lost : list label :=
  [SpawnLookup k1; SpawnLookup k2] ++ steps 0 25 ++ steps 1 25 ++ steps 0 2 ++ steps 1 2.
Definition st_lost : state := exec sro1 KeyFull (lookup_with wb_nolock_split) register_prog tr_lost (init R2).
Example lost_update_is_only_a_miss :
  dget (heap st_lost (cur st_lost)) k1 = None /\
  dget (heap st_lost (cur st_lost)) k2 = Some [3%N] /\
  (exists t0, threads st_lost 0 = Some t0 /\ cont t0 = [] /\ tres t0 = Some [1%N]) /\
  (exists t1, threads st_lost 1 = Some t1 /\ cont t1 = [] /\ tres t1 = Some [3%N]).
Proof.
  vm_compute. split; [reflexivity|]. split; [reflexivity|].
  split; eexists; (split; [reflexivity|]); split; reflexivity.
Qed.

(* ================= the cache key and the view classifier =================
   With [KeyFull] (the key contains the classifier) everything above holds.  With [KeyTriad] (the key is
   (request_iface, context_iface, view_name) only) an ordinary lookup and an exception-view lookup of
   the same triad share one entry: refuted below by a concrete history.  What remains true with
   [KeyTriad]: as long as every lookup is an ordinary one the two systems are the same system. *)
Definition all_ordinary (st : state) : Prop :=
  forall i t, threads st i = Some t -> ckey KeyTriad (tkey t) = tkey t.

Lemma ckey_ordinary cl rq cx nm : N.eqb cl 0 = true -> ckey KeyTriad (cl, rq, cx, nm) = (cl, rq, cx, nm).
Proof. intros H. apply N.eqb_eq in H. subst. reflexivity. Qed.

Lemma step_thread_km sro km1 km2 st i t :
  ckey km1 (tkey t) = ckey km2 (tkey t) -> step_thread sro km1 st i t = step_thread sro km2 st i t.
Proof. intros H. unfold step_thread. rewrite H. reflexivity. Qed.

Lemma label_triad_full sro LP RP st l :
  all_ordinary st -> ordinary_only [l] = true ->
  do_label sro KeyTriad LP RP st l = do_label sro KeyFull LP RP st l /\
  all_ordinary (do_label sro KeyFull LP RP st l).
Proof.
  intros A O. destruct l as [k|ups|i]; simpl.
  - split; [reflexivity|]. intros j t Hj. simpl in Hj.
    destruct (Nat.eq_dec j (ntid st)) as [->|Hne].
    + rewrite upd_same in Hj. inversion Hj. simpl. destruct k as [[[cl rq] cx] nm].
      simpl in O. rewrite andb_true_r in O. apply ckey_ordinary. exact O.
    + rewrite upd_other in Hj by auto. eauto.
  - split; [reflexivity|]. intros j t Hj. simpl in Hj.
    destruct (Nat.eq_dec j (ntid st)) as [->|Hne].
    + rewrite upd_same in Hj. inversion Hj. reflexivity.
    + rewrite upd_other in Hj by auto. eauto.
  - destruct (threads st i) as [t|] eqn:Hi; [|split; [reflexivity|exact A]].
    split; [apply step_thread_km; rewrite (A _ _ Hi); reflexivity|].
    destruct (step_generic sro KeyFull st i t Hi) as (_ & Ho & t' & Hs & Hk & _).
    intros j tj Hj. destruct (Nat.eq_dec j i) as [->|Hne].
    + rewrite Hs in Hj. inversion Hj. subst tj. rewrite Hk. eauto.
    + rewrite Ho in Hj by auto. eauto.
Qed.

Lemma exec_triad_full sro LP RP tr : forall st,
  all_ordinary st -> ordinary_only tr = true ->
  exec sro KeyTriad LP RP tr st = exec sro KeyFull LP RP tr st /\
  all_ordinary (exec sro KeyFull LP RP tr st) /\
  reg_free sro KeyTriad LP RP st tr = reg_free sro KeyFull LP RP st tr.
Proof.
  induction tr as [|l tr IH]; intros st A O; simpl; [auto|].
  simpl in O. apply andb_true_iff in O. destruct O as [O1 O2].
  assert (O1' : ordinary_only [l] = true) by (simpl; rewrite O1; reflexivity).
  destruct (label_triad_full sro LP RP st l A O1') as [E A'].
  rewrite E. destruct (IH _ A' O2) as (E2 & A2 & F2). rewrite E2, F2. auto.
Qed.

Theorem lookup_fresh_ordinary_only_partial : forall sro R0 tr1 k tr2,
  ordinary_only (tr1 ++ SpawnLookup k :: tr2) = true ->
  let st1 := exec sro KeyTriad lookup_prog register_prog tr1 (init R0) in
  let st2 := exec sro KeyTriad lookup_prog register_prog (SpawnLookup k :: tr2) st1 in
  quietb st1 = true ->
  reg_free sro KeyTriad lookup_prog register_prog st1 (SpawnLookup k :: tr2) = true ->
  exists t, threads st2 (ntid st1) = Some t /\ tkind t = KLookup /\ tkey t = k /\
            (cont t = [] -> tres t = Some (lookup_all sro (R st1) k)).
Proof.
  intros sro R0 tr1 k tr2 O. unfold ordinary_only in O. rewrite forallb_app in O.
  apply andb_true_iff in O. destruct O as [O1 O2].
  assert (A0 : all_ordinary (init R0)) by (intros i t H; discriminate).
  destruct (exec_triad_full sro lookup_prog register_prog tr1 _ A0 O1) as (E1 & A1 & _).
  cbv zeta. rewrite E1.
  destruct (exec_triad_full sro lookup_prog register_prog (SpawnLookup k :: tr2) _ A1 O2) as (E2 & _ & F2).
  rewrite E2, F2. apply lookup_fresh.
Qed.

(* the history that refutes [KeyTriad]: only an exception view is registered for the triad; an
   exception-view lookup caches it; the ordinary lookup of the same triad that follows is answered
   from that entry although nothing is registered for it *)
Definition kE : key := (1, 1, 11, 0)%N.
Definition R_exc : reg := [((1, 1, 11, 0, 0)%N, Some 7%N)].
Definition tr_exc_first : list label := SpawnLookup kE :: steps 0 40.

Lemma lookup_fresh_KeyTriad_refuted : ~ fresh_claim KeyTriad (std_lookup Local true) (std_register Swap).
Proof.
  intros H. pose proof (H sro1 R_exc tr_exc_first k1 (steps 1 40)) as H. cbv zeta in H.
  match type of H with
  | ?q -> ?f -> _ =>
      assert (Q : q) by (vm_compute; reflexivity);
      assert (F : f) by (vm_compute; reflexivity);
      specialize (H Q F)
  end.
  destruct H as (t & A & _ & _ & D).
  vm_compute in A. inversion A. subst t. vm_compute in D. specialize (D eq_refl). discriminate D.
Qed.

Example KeyTriad_history_answers :
  (exists t, threads (exec sro1 KeyTriad (std_lookup Local true) (std_register Swap)
                           (tr_exc_first ++ SpawnLookup k1 :: steps 1 40) (init R_exc)) 1 = Some t /\
             tres t = Some [7%N] /\ tq t = 0) /\
  lookup_all sro1 R_exc k1 = [] /\ lookup_all sro1 R_exc kE = [7%N] /\
  (exists t, threads (exec sro1 KeyFull (std_lookup Local true) (std_register Swap)
                           (tr_exc_first ++ SpawnLookup k1 :: steps 1 40) (init R_exc)) 1 = Some t /\
             tres t = Some [] /\ tq t = 18).
Proof.
  vm_compute. split; [eexists; split; [reflexivity|split; reflexivity]|].
  split; [reflexivity|]. split; [reflexivity|]. eexists. split; [reflexivity|split; reflexivity].
Qed.

(* which of the two applies to the tree at hand is decided by the regenerated fact *)
Theorem lookup_fresh_current : cache_key_mode = KeyFull -> fresh_claim cache_key_mode lookup_prog register_prog.
Proof. intros E. rewrite E. exact lookup_fresh. Qed.

Theorem lookup_fresh_current_refuted :
  cache_key_mode = KeyTriad -> ~ fresh_claim cache_key_mode lookup_prog register_prog.
Proof.
  intros E. rewrite E, facts_lookup_prog, facts_register_prog. exact lookup_fresh_KeyTriad_refuted.
Qed.
