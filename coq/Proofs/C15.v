(* C15 proofs: invariant of the view-lookup cache over arbitrary traces of the
   small-step system (any number of threads, any number of steps), for the
   programs translated from the current tree. *)
From Coq Require Import List NArith ZArith Bool Arith Lia.
Import ListNotations.
Require Import Verif.Lib.Wire Verif.Lib.C15Prog Verif.Gen.Facts_C15 Verif.Model.C15.

(* the facts: the translated programs are the ones the proofs are about *)
Lemma facts_lookup_prog : lookup_prog = std_lookup Local true.
Proof. reflexivity. Qed.
Lemma facts_register_prog : register_prog = std_register Swap.
Proof. reflexivity. Qed.

Lemma upd_same {A} (f : nat -> A) i a : upd f i a i = a.
Proof. unfold upd. rewrite Nat.eqb_refl. reflexivity. Qed.
Lemma upd_other {A} (f : nat -> A) i a j : j <> i -> upd f i a j = f j.
Proof. unfold upd. intros H. apply Nat.eqb_neq in H. rewrite H. reflexivity. Qed.

Lemma key_eqb_eq a b : key_eqb a b = true <-> a = b.
Proof.
  destruct a as [[a1 a2] a3], b as [[b1 b2] b3]. unfold key_eqb.
  rewrite !andb_true_iff, !N.eqb_eq. split.
  - intros [[-> ->] ->]. reflexivity.
  - intros H. inversion H. auto.
Qed.

Lemma dget_dset k v d k' :
  dget (dset k v d) k' = if key_eqb k' k then Some v else dget d k'.
Proof. reflexivity. Qed.

Lemma lookup_over_app Rg a b : lookup_over Rg (a ++ b) = lookup_over Rg a ++ lookup_over Rg b.
Proof. unfold lookup_over. apply flat_map_app. Qed.

Section Proofs.
  Variable sro : N -> list N.

  Definition Wb := std_wb Local.
  Definition Kk : list instr := [IfNonEmpty Wb; Return].
  Definition Gb : list instr := [InitViews; QueryAll; IfNonEmpty Wb].
  Definition LPs := std_lookup Local true.
  Definition RPs := std_register Swap.

  Notation slots := (slots_of sro).
  Notation lall := (lookup_all sro).
  Notation stepT := (step_thread sro).
  Notation doL := (do_label sro LPs RPs).
  Notation run := (exec sro LPs RPs).

  Definition quietT (th : tid -> option thread) : Prop :=
    forall i t, th i = Some t -> midway t = false.
  Definition quiet (st : state) : Prop := quietT (threads st).

  (* shape of a lookup thread of the translated program, with what is known of
     its locals; [cu], [q], [Rg]: current dictionary, quietness, registry *)
  Section Shapes.
    Variables (Rg : reg) (cu : cid) (q : Prop).
    Definition consistent (t : thread) (vs : list view) (sl : list slot) : Prop :=
      tc t = Some cu -> q -> vs = lookup_over Rg sl.

    Inductive lk_ok (t : thread) : Prop :=
    | S0 : cont t = LPs -> tc t = None -> tviews t = None -> lk_ok t
    | S1 : cont t = [Get; IfMiss Gb; Return] -> tc t <> None -> tviews t = None -> lk_ok t
    | S2m : cont t = [IfMiss Gb; Return] -> tc t <> None -> tviews t = None -> lk_ok t
    | S2h vs : cont t = [IfMiss Gb; Return] -> tc t <> None -> tviews t = Some vs -> vs <> [] ->
               consistent t vs (slots (tkey t)) -> lk_ok t
    | S3 : cont t = Gb ++ [Return] -> tc t <> None -> tviews t = None -> lk_ok t
    | S4 : cont t = QueryAll :: Kk -> tc t <> None -> tviews t = Some [] -> lk_ok t
    | S5 vs done todo : cont t = map Query todo ++ Kk -> tc t <> None -> tviews t = Some vs ->
               done ++ todo = slots (tkey t) -> consistent t vs done -> lk_ok t
    | S7 vs : cont t = Wb ++ [Return] -> tc t <> None -> tviews t = Some vs -> vs <> [] ->
               consistent t vs (slots (tkey t)) -> lk_ok t
    | S8 vs : cont t = [Write Local; Unlock; Return] -> tc t <> None -> tviews t = Some vs -> vs <> [] ->
               consistent t vs (slots (tkey t)) -> lk_ok t
    | S9 vs : cont t = [Unlock; Return] -> tc t <> None -> tviews t = Some vs ->
               consistent t vs (slots (tkey t)) -> lk_ok t
    | S10 vs : cont t = [Return] -> tc t <> None -> tviews t = Some vs ->
               consistent t vs (slots (tkey t)) -> lk_ok t
    | S11 : cont t = [] -> lk_ok t.
  End Shapes.

  Definition rg_ok (t : thread) : Prop :=
    (cont t = RPs /\ tpc t = 0) \/ (cont t = [Clear Swap] /\ tpc t <> 0) \/ cont t = [].

  Definition thread_ok (st : state) (t : thread) : Prop :=
    (forall c, tc t = Some c -> c < ncid st) /\
    match tkind t with
    | KLookup => lk_ok (R st) (cur st) (quiet st) t
    | KRegister => rg_ok t
    end.

  Record Inv (st : state) : Prop := mkInv {
    inv_nonempty : forall c k vs, dget (heap st c) k = Some vs -> vs <> [];
    inv_fresh : quiet st -> forall k vs, dget (heap st (cur st)) k = Some vs -> vs = lall (R st) k;
    inv_cur : cur st < ncid st;
    inv_threads : forall i t, threads st i = Some t -> thread_ok st t;
    inv_ntid : forall i, ntid st <= i -> threads st i = None
  }.

  Lemma lk_ok_frame Rg cu (q : Prop) Rg' cu' (q' : Prop) t :
    lk_ok Rg cu q t ->
    (tc t = Some cu' -> q' -> tc t = Some cu /\ q /\ Rg' = Rg) ->
    lk_ok Rg' cu' q' t.
  Proof.
    intros H F.
    assert (C : forall vs sl, consistent Rg cu q t vs sl -> consistent Rg' cu' q' t vs sl).
    { intros vs sl Hc H1 H2. destruct (F H1 H2) as (A & B & ->). auto. }
    destruct H;
      [ eapply S0 | eapply S1 | eapply S2m | eapply S2h | eapply S3 | eapply S4 | eapply S5
      | eapply S7 | eapply S8 | eapply S9 | eapply S10 | eapply S11 ]; eauto.
  Qed.

  Lemma midway_lookup t : tkind t = KLookup -> midway t = false.
  Proof. unfold midway. intros ->. reflexivity. Qed.

  Lemma midway_rg t : tkind t = KRegister -> rg_ok t ->
    (midway t = true <-> cont t = [Clear Swap]).
  Proof.
    unfold midway. intros -> [[H1 H2]|[[H1 H2]|H1]]; rewrite H1.
    - rewrite H2. simpl. split; discriminate.
    - apply Nat.eqb_neq in H2. rewrite H2. simpl. tauto.
    - simpl. rewrite andb_false_r. split; discriminate.
  Qed.

  (* ---------- initial state and spawning *)
  Lemma inv_init R0 : Inv (init R0).
  Proof.
    constructor; simpl; try discriminate; auto.
  Qed.

  Lemma quiet_upd_same th i t' :
    midway t' = false ->
    (forall t, th i = Some t -> midway t = false) ->
    (quietT (upd th i (Some t')) <-> quietT th).
  Proof.
    intros Hm Ho. split; intros Q j t Hj.
    - destruct (Nat.eq_dec j i) as [->|Hne]; [auto|].
      apply (Q j). rewrite upd_other; auto.
    - destruct (Nat.eq_dec j i) as [->|Hne].
      + rewrite upd_same in Hj. inversion Hj. subst. auto.
      + rewrite upd_other in Hj; eauto.
  Qed.

  Lemma inv_spawn st t :
    Inv st -> midway t = false -> tc t = None ->
    match tkind t with KLookup => cont t = LPs /\ tviews t = None | KRegister => cont t = RPs /\ tpc t = 0 end ->
    Inv (spawn st t).
  Proof.
    intros I Hm Htc Hk.
    assert (Q : quiet (spawn st t) <-> quiet st).
    { unfold quiet, spawn. simpl. apply quiet_upd_same; auto.
      intros t0 H0. rewrite (inv_ntid _ I) in H0; [discriminate|lia]. }
    constructor; simpl.
    - apply (inv_nonempty _ I).
    - intros Hq. apply (inv_fresh _ I). apply Q, Hq.
    - apply (inv_cur _ I).
    - intros i t0 Hi. destruct (Nat.eq_dec i (ntid st)) as [->|Hne].
      + rewrite upd_same in Hi. inversion Hi. subst t0. split; simpl.
        * intros c Hc. congruence.
        * destruct (tkind t); [apply S0; tauto | left; tauto].
      + rewrite upd_other in Hi by auto. destruct (inv_threads _ I _ _ Hi) as [A B].
        split; [exact A|]. simpl. destruct (tkind t0); [|exact B].
        eapply lk_ok_frame; [exact B|]. intros H1 H2. repeat split; auto. apply Q, H2.
    - intros i Hi. rewrite upd_other by lia. apply (inv_ntid _ I). lia.
  Qed.

  (* ---------- steps that only change the stepping lookup thread *)
  Lemma inv_put_lookup st i t t' :
    Inv st -> threads st i = Some t -> tkind t = KLookup -> tkind t' = KLookup ->
    lk_ok (R st) (cur st) (quiet st) t' ->
    (forall c, tc t' = Some c -> c < ncid st) ->
    Inv (put st i t').
  Proof.
    intros I Hi Hk Hk' Hok Hc.
    assert (Q : quiet (put st i t') <-> quiet st).
    { unfold quiet, put. simpl. apply quiet_upd_same.
      - apply midway_lookup; auto.
      - intros t0 H0. rewrite Hi in H0. inversion H0. subst. apply midway_lookup; auto. }
    constructor; simpl.
    - apply (inv_nonempty _ I).
    - intros Hq. apply (inv_fresh _ I). apply Q, Hq.
    - apply (inv_cur _ I).
    - intros j t0 Hj. destruct (Nat.eq_dec j i) as [->|Hne].
      + rewrite upd_same in Hj. inversion Hj. subst t0. split; simpl; [exact Hc|].
        rewrite Hk'. eapply lk_ok_frame; [exact Hok|]. intros H1 H2. repeat split; auto. apply Q, H2.
      + rewrite upd_other in Hj by auto. destruct (inv_threads _ I _ _ Hj) as [A B].
        split; [exact A|]. simpl. destruct (tkind t0); [|exact B].
        eapply lk_ok_frame; [exact B|]. intros H1 H2. repeat split; auto. apply Q, H2.
    - intros j Hj. destruct (Nat.eq_dec j i) as [->|Hne].
      + rewrite (inv_ntid _ I) in Hi by auto. discriminate.
      + rewrite upd_other by auto. apply (inv_ntid _ I). auto.
  Qed.

  Lemma inv_set_lock st l : Inv st -> Inv (set_lock st l).
  Proof. intros I. destruct I. constructor; auto. Qed.

  (* ---------- a write of a lookup thread *)
  Lemma inv_write st i t c vs :
    Inv st -> threads st i = Some t -> tkind t = KLookup ->
    tc t = Some c -> vs <> [] ->
    consistent (R st) (cur st) (quiet st) t vs (slots (tkey t)) ->
    Inv (set_heap st (upd (heap st) c (dset (tkey t) vs (heap st c)))).
  Proof.
    intros I Hi Hk Hc Hne Hcons.
    constructor; simpl.
    - intros c0 k vs0. destruct (Nat.eq_dec c0 c) as [->|Hn].
      + rewrite upd_same, dget_dset. destruct (key_eqb k (tkey t)).
        * intros E. inversion E. subst. exact Hne.
        * apply (inv_nonempty _ I).
      + rewrite upd_other by auto. apply (inv_nonempty _ I).
    - intros Hq k vs0. destruct (Nat.eq_dec (cur st) c) as [E|Hn].
      + rewrite E, upd_same, dget_dset. destruct (key_eqb k (tkey t)) eqn:Ek.
        * apply key_eqb_eq in Ek. subst k. intros E1. inversion E1. subst vs0.
          apply Hcons; [congruence|exact Hq].
        * rewrite <- E. apply (inv_fresh _ I Hq).
      + rewrite upd_other by auto. apply (inv_fresh _ I Hq).
    - apply (inv_cur _ I).
    - intros j t0 Hj. apply (inv_threads _ I _ _ Hj).
    - apply (inv_ntid _ I).
  Qed.

  (* ---------- the two steps of a registration *)
  Lemma inv_register_adapter st i t :
    Inv st -> threads st i = Some t -> tkind t = KRegister -> cont t = RPs -> tpc t = 0 ->
    Inv (put (set_R st (rapply (tups t) (R st))) i (tick t [Clear Swap])).
  Proof.
    intros I Hi Hk Hc Hp.
    assert (NQ : ~ quiet (put (set_R st (rapply (tups t) (R st))) i (tick t [Clear Swap]))).
    { intros Q. specialize (Q i (tick t [Clear Swap])). simpl in Q. rewrite upd_same in Q.
      specialize (Q eq_refl). unfold midway in Q. simpl in Q. rewrite Hk in Q. discriminate. }
    constructor; simpl.
    - apply (inv_nonempty _ I).
    - intros Hq. contradiction.
    - apply (inv_cur _ I).
    - intros j t0 Hj. destruct (Nat.eq_dec j i) as [->|Hne].
      + rewrite upd_same in Hj. inversion Hj. subst t0. split; simpl.
        * apply (inv_threads _ I _ _ Hi).
        * rewrite Hk. right. left. split; [reflexivity|simpl; lia].
      + rewrite upd_other in Hj by auto. destruct (inv_threads _ I _ _ Hj) as [A B].
        split; [exact A|]. simpl. destruct (tkind t0); [|exact B].
        eapply lk_ok_frame; [exact B|]. intros H1 H2. contradiction.
    - intros j Hj. destruct (Nat.eq_dec j i) as [->|Hne].
      + rewrite (inv_ntid _ I) in Hi by auto. discriminate.
      + rewrite upd_other by auto. apply (inv_ntid _ I). auto.
  Qed.

  Lemma inv_clear_swap st i t :
    Inv st -> threads st i = Some t -> tkind t = KRegister -> cont t = [Clear Swap] ->
    Inv (put (swap_cache st) i (tick t [])).
  Proof.
    intros I Hi Hk Hc.
    constructor; simpl.
    - intros c k vs. destruct (Nat.eq_dec c (ncid st)) as [->|Hn].
      + rewrite upd_same. discriminate.
      + rewrite upd_other by auto. apply (inv_nonempty _ I).
    - intros _ k vs. rewrite upd_same. discriminate.
    - lia.
    - intros j t0 Hj. destruct (Nat.eq_dec j i) as [->|Hne].
      + rewrite upd_same in Hj. inversion Hj. subst t0. split; simpl.
        * intros c Hc'. destruct (inv_threads _ I _ _ Hi) as [A _]. specialize (A c Hc'). lia.
        * rewrite Hk. right. right. reflexivity.
      + rewrite upd_other in Hj by auto. destruct (inv_threads _ I _ _ Hj) as [A B].
        split; [intros c Hc'; specialize (A c Hc'); simpl; lia|]. simpl. destruct (tkind t0); [|exact B].
        eapply lk_ok_frame; [exact B|]. intros H1 H2. apply A in H1. simpl in H1. lia.
    - intros j Hj. destruct (Nat.eq_dec j i) as [->|Hne].
      + rewrite (inv_ntid _ I) in Hi by auto. discriminate.
      + rewrite upd_other by auto. apply (inv_ntid _ I). auto.
  Qed.
End Proofs.
