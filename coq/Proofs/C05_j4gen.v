(* C05 -- the judge clauses proved sound for the reference model, restated about the request path REGENERATED from the source
   (gen_router = router_call, Proofs/C05_gen.v): end-to-end compositions, plus non-vacuity of the registration-level J4 clause *)
From Coq Require Import List NArith ZArith Bool Lia.
Import ListNotations.
Require Import Verif.Lib.Wire Verif.Gen.Facts_C03 Verif.Model.C03 Verif.Gen.Facts_C05 Verif.Model.C05.
Require Import Verif.Proofs.C05 Verif.Proofs.C05_cfg Verif.Proofs.C05_seq Verif.Proofs.C05_judge Verif.Proofs.C05_gen.
Require Import Verif.Proofs.C05_j4.
Local Close Scope N_scope.
Local Open Scope nat_scope.

Theorem gen_j4D_sound R D tb q :
  j4D D (snd (gen_router R D tb q)) None false (fst (gen_router R D tb q)) = true.
Proof. rewrite gen_router_is_model. apply j4D_sound. Qed.

Theorem gen_judge_j2_sound R D tb q :
  let tr := fst (gen_router R D tb q) in
  let fin := snd (gen_router R D tb q) in
  j2 (proj_final fin) false false (proj_trace tr) = 0%N \/ j2 (proj_final fin) false false (proj_trace tr) = 4%N.
Proof. rewrite gen_router_is_model. apply judge_j2_sound. Qed.

Theorem gen_judge_j1_sound irq ier iw prog tb q :
  prog_ok prog ->
  let s := commit (init_state irq ier iw) prog in
  let tr := fst (gen_router (cs_R s) (cs_D s) tb q) in
  variant_okb prog tr = true -> j1 prog [] (proj_trace tr) = true.
Proof. intros OK s tr. subst tr. rewrite gen_router_is_model. apply (judge_j1_sound irq ier iw prog tb q OK). Qed.

(* non-vacuity of the clause: it REJECTS an HTTPForbidden that follows an open body, and one that follows nothing *)
Example ex_j4D_rejects :
  j4D [] (Resp 4500%N) None false [Raised EForbidden] = false
  /\ j4D [(2%N, mkD (mkReg (mkSlot 0%N 0%N 0%N []) 2%N [] 0%Z [] None false) None [] false (Plain BReturn) false)]
         (Resp 4500%N) None false [Body 2%N (CRes 0%N); Raised EForbidden] = false
  /\ j4D [(2%N, mkD (mkReg (mkSlot 0%N 0%N 0%N []) 2%N [] 0%Z [] None false) None [] false (Plain (BRaise EForbidden)) false)]
         (Resp 4500%N) None false [Body 2%N (CRes 0%N); Raised EForbidden] = true.
Proof. repeat split; vm_compute; reflexivity. Qed.
