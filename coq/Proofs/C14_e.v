(* C14 -- part 5: the RAISING SITE judge accepts every trace of the model (at full strength: view bodies may raise
   PredicateMismatch, the search goes on), and the subrequest scenario. *)
From Coq Require Import List NArith ZArith Bool Lia.
Import ListNotations.
Require Import Verif.Lib.Wire Verif.Gen.Facts_C03 Verif.Model.C03 Verif.Proofs.C03 Verif.Gen.Facts_C14 Verif.Model.C14
               Verif.Proofs.C14 Verif.Proofs.C14_b Verif.Proofs.C14_c Verif.Proofs.C14_d Verif.Proofs.C14_gen.

(* [transp evs]: bodies after which the search went on -- site_walk reads through them *)
Definition transp (W : world) (evs : list event) : Prop :=
  forall l o, site_walk W l o = true -> site_walk W (evs ++ l) o = true.

Lemma transp_nil W : transp W [].
Proof. intros l o H. exact H. Qed.
Lemma transp_app W a b : transp W a -> transp W b -> transp W (a ++ b).
Proof. intros Ha Hb l o H. rewrite <- app_assoc. apply Ha. apply Hb. exact H. Qed.
Lemma transp_end W evs o : transp W evs -> site_walk W evs o = true.
Proof. intros H. rewrite <- (app_nil_r evs). apply H. reflexivity. Qed.

(* every event is a view-body event with context [c] *)
Definition bodies_ctx (c : N) (evs : list event) : Prop := Forall (fun ev => exists t s, ev = EBody t c s) evs.

Lemma run_body_site P W sec deny site tag ctx a :
  let r := run_body P W sec deny site tag ctx a in
  bodies_ctx ctx (snd (fst r))
  /\ site_walk W (snd (fst r)) (fst (fst r)) = true
  /\ (is_pm W (fst (fst r)) <> None -> transp W (snd (fst r))).
Proof.
  unfold run_body.
  destruct (sec && b_perm (body_of (w_bodies W) tag) && deny).
  - simpl. split; [constructor|]. split; [reflexivity|]. intros _. apply transp_nil.
  - destruct (b_act (body_of (w_bodies W) tag)) as [| |v] eqn:Hact.
    + simpl. split; [repeat constructor; eauto|]. split.
      * rewrite Hact. simpl. apply N.eqb_refl.
      * intros H. exfalso. apply H. reflexivity.
    + assert (Hb : forall o evb a1, evb = [EBody tag ctx (snap a)] ->
                   bodies_ctx ctx (snd (fst (o, evb, a1 : amap))) /\
                   site_walk W (snd (fst (o, evb, a1))) (fst (fst (o, evb, a1))) = true /\
                   (is_pm W (fst (fst (o, evb, a1))) <> None -> transp W (snd (fst (o, evb, a1))))).
      { intros o evb a1 ->. simpl. split; [repeat constructor; eauto|]. rewrite Hact. split; [reflexivity|].
        intros _ l o' _. cbn [app site_walk]. rewrite Hact. reflexivity. }
      destruct (p_default_view_ctx P && negb (N.eqb (status_of W (ctx_returned W ctx a)) 0)); apply Hb; reflexivity.
    + cbn [fst snd]. split; [repeat constructor; eauto|].
      destruct (isa W cn_PredicateMismatch v) eqn:Hpm.
      * split; [cbn [site_walk]; rewrite Hact, Hpm; reflexivity|]. intros _ l o' H. cbn [app site_walk]. rewrite Hact, Hpm. exact H.
      * split; [cbn [site_walk]; rewrite Hact, Hpm; simpl; apply N.eqb_refl|]. intros H. exfalso. apply H. unfold is_pm. rewrite Hpm. reflexivity.
Qed.

Lemma bodies_ctx_app c a b : bodies_ctx c a -> bodies_ctx c b -> bodies_ctx c (a ++ b).
Proof. intros Ha Hb. apply Forall_app. split; assumption. Qed.

(* what one loop of _call_view / MultiView leaves: either an outcome that ends the dispatch, accepted by
   site_walk, or bodies after which the search may go on *)
Definition loop_ok (W : world) (ctx : N) (r : option outcome * list event * amap) : Prop :=
  bodies_ctx ctx (snd (fst r))
  /\ match fst (fst r) with
     | Some o => site_walk W (snd (fst r)) o = true
     | None => transp W (snd (fst r))
     end.

Lemma views_loop_site P W deny site ctx rq l : forall a evs,
  bodies_ctx ctx evs -> transp W evs ->
  loop_ok W ctx (views_loop P W deny site ctx rq l a evs).
Proof.
  induction l as [|v r IH]; intros a evs Hb Ht.
  - simpl. split; [exact Hb|exact Ht].
  - cbn [views_loop]. destruct (qualifies rq v); [|apply IH; assumption].
    pose proof (run_body_site P W true deny site (r_tag v) ctx a) as [B1 [B2 B3]].
    destruct (run_body P W true deny site (r_tag v) ctx a) as [[o ev] a']. simpl in B1, B2, B3.
    destruct (is_pm W o) eqn:Hpm.
    + apply IH; [apply bodies_ctx_app; assumption|].
      apply transp_app; [exact Ht|]. apply B3. discriminate.
    + split; simpl; [apply bodies_ctx_app; assumption|]. apply Ht. exact B2.
Qed.

Lemma comps_loop_site P W sec deny site ctx fpme rq l : forall pme a evs,
  bodies_ctx ctx evs -> transp W evs ->
  loop_ok W ctx (comps_loop P W sec deny site ctx fpme rq l pme a evs).
Proof.
  induction l as [|c r IH]; intros pme a evs Hb Ht.
  - simpl. split; [exact Hb|]. simpl. destruct pme; [apply transp_end|]; exact Ht.
  - assert (Hrun : forall v,
      loop_ok W ctx (let '(o, ev, a') := run_body P W sec deny site (r_tag v) ctx a in
                     match is_pm W o with
                     | Some p => comps_loop P W sec deny site ctx fpme rq r (Some p) a' (evs ++ ev)
                     | None => (Some o, evs ++ ev, a')
                     end)).
    { intros v. pose proof (run_body_site P W sec deny site (r_tag v) ctx a) as [B1 [B2 B3]].
      destruct (run_body P W sec deny site (r_tag v) ctx a) as [[o ev] a']. simpl in B1, B2, B3.
      destruct (is_pm W o) eqn:Hpm.
      - apply IH; [apply bodies_ctx_app; assumption|]. apply transp_app; [exact Ht|]. apply B3. discriminate.
      - split; simpl; [apply bodies_ctx_app; assumption|]. apply Ht. exact B2. }
    destruct c as [v|m]; cbn [comps_loop].
    + destruct (qualifies rq v || (negb sec && r_secured v && negb (p_perm_checks P))); [apply Hrun|].
      apply IH; assumption.
    + destruct sec.
      * pose proof (views_loop_site P W deny site ctx rq (map e_view (get_views m rq)) a evs Hb Ht) as [V1 V2].
        destruct (views_loop P W deny site ctx rq (map e_view (get_views m rq)) a evs) as [[[o|] evs'] a'];
          simpl in V1, V2.
        -- split; simpl; assumption.
        -- apply IH; assumption.
      * destruct (find (qualifies rq) (map e_view (get_views m rq))) as [v|]; [apply Hrun|apply IH; assumption].
Qed.

(* Router.handle_request (with the search-goes-on loop): the ordinary bodies it ran and its outcome *)
Lemma main_pm_site P W ri second st :
  let r := main_handler_pm P W ri second st in
  exists evs, st_log (snd r) = st_log st ++ evs /\ bodies_ctx ctx_resource evs /\ site_walk W evs (fst r) = true.
Proof.
  unfold main_handler_pm. destruct (ri_root_raise ri).
  - exists []. simpl. rewrite app_nil_r. repeat split; constructor.
  - pose proof (comps_loop_site P W true (ri_deny ri) site_main ctx_resource id_h_pme (req_of ri second)
                  (find_views (w_reg W) view_classifier (q_req_sro (req_of ri second)) (q_ctx_sro (req_of ri second))
                     (q_view_name (req_of ri second))) None (st_attrs st) [] (Forall_nil _) (transp_nil W)) as [L1 L2].
    destruct (comps_loop _ _ _ _ _ _ _ _ _ _ _ _) as [[res evs] a]. simpl in L1, L2.
    exists evs. simpl. split; [reflexivity|]. split; [exact L1|].
    destruct res as [o|]; [exact L2|apply transp_end; exact L2].
Qed.

(* invoke_exception_view writes view-body events with the exception as context only *)
Lemma iev_pm_log P W ri site rr sec e st :
  exists evs, st_log (snd (iev_pm P W ri site rr sec e st)) = st_log st ++ evs /\ bodies_ctx e evs.
Proof.
  unfold iev_pm, hide_attrs.
  destruct (hide_pop (p_hidden P) (st_attrs st) []) as [m1 s].
  pose proof (comps_loop_site P W sec (ri_deny ri) site e (fresh_pme site) (exc_request P W ri e)
                (find_views (w_reg W) exc_classifier_id (q_req_sro (exc_request P W ri e))
                   (q_ctx_sro (exc_request P W ri e)) (q_view_name (exc_request P W ri e))) None
                (set_all (p_set_in P) e m1) [] (Forall_nil _) (transp_nil W)) as [L1 _].
  destruct (comps_loop _ _ _ _ _ _ _ _ _ _ _ _) as [[res evs] a2]. simpl in L1.
  exists evs. split; [|exact L1].
  destruct res as [[r|e2]|]; reflexivity.
Qed.

Lemma excview_g_log P W ri o st :
  exists evs, st_log (snd (excview_tween_g P W (fun _ => iev_pm P W ri) o st)) = st_log st ++ evs
              /\ exists c, bodies_ctx c evs /\ (evs = [] \/ (o = Raise c /\ isa W (p_tween_catches P) c = true)).
Proof.
  unfold excview_tween_g. destruct o as [r|e].
  - exists []. simpl. rewrite app_nil_r. split; [reflexivity|]. exists 0%N. split; [constructor|left; reflexivity].
  - destruct (isa W (p_tween_catches P) e) eqn:Hc.
    + destruct (iev_pm_log P W ri site_tween false true e st) as [evs [Hl Hb]].
      exists evs. split.
      * destruct (iev_pm P W ri site_tween false true e st) as [[r|e2] st']; simpl in *; [exact Hl|].
        destruct (isa W (p_handler_catches P) e2); exact Hl.
      * exists e. split; [exact Hb|right; split; first [reflexivity|exact Hc]].
    + exists []. simpl. rewrite app_nil_r. split; [reflexivity|]. exists 0%N. split; [constructor|left; reflexivity].
Qed.

(* reading the part of the trace before the probe *)
Lemma ords_ord evs : forall l acc,
  bodies_ctx ctx_resource evs -> ords_until_iev (evs ++ l) acc = ords_until_iev l (rev evs ++ acc).
Proof.
  induction evs as [|ev evs IH]; intros l acc H; [reflexivity|].
  inversion H as [|x y [t [s ->]] Hr]; subst. simpl. rewrite IH by exact Hr. rewrite <- app_assoc. reflexivity.
Qed.
Lemma ords_ord_nil evs : bodies_ctx ctx_resource evs -> ords_until_iev evs [] = (evs, None).
Proof.
  intros H. pose proof (ords_ord evs [] [] H) as E. rewrite app_nil_r in E. rewrite E. simpl.
  rewrite app_nil_r, rev_involutive. reflexivity.
Qed.
Lemma ords_exc c evs : forall l acc,
  N.eqb c ctx_resource = false -> bodies_ctx c evs -> ords_until_iev (evs ++ l) acc = ords_until_iev l acc.
Proof.
  induction evs as [|ev evs IH]; intros l acc Hc H; [reflexivity|].
  inversion H as [|x y [t [s ->]] Hr]; subst. simpl. rewrite Hc. apply IH; assumption.
Qed.
Lemma bodies_no_probe c evs : bodies_ctx c evs -> no_probe evs.
Proof.
  intros H o s Hin. unfold bodies_ctx in H. rewrite Forall_forall in H. destruct (H _ Hin) as [t [s' E]]. discriminate E.
Qed.
Lemma no_probe_app a b : no_probe a -> no_probe b -> no_probe (a ++ b).
Proof. intros Ha Hb o s H. apply in_app_or in H. destruct H; [exact (Ha o s H)|exact (Hb o s H)]. Qed.

Section Site.
Variables (P : params) (W : world) (ri : rinfo).
Hypothesis Hres : isa W cn_Exception ctx_resource = false.

Lemma exc_not_res e : isa W cn_Exception e = true -> N.eqb e ctx_resource = false.
Proof.
  intros H. destruct (N.eqb e ctx_resource) eqn:E; [|reflexivity].
  apply N.eqb_eq in E. subst. rewrite Hres in H. discriminate.
Qed.

(* the tween under the excview tween: the part of the log before the probe, read by the site judge *)
Lemma under_site a0 :
  let r := under_tween_g W ri (main_handler_pm P W ri) (fun _ => iev_pm P W ri) (mkSt a0 []) in
  site_mode_of (ri_under ri) <> SSilent ->
  no_probe (st_log (snd r))
  /\ let '(ords, ie) := ords_until_iev (st_log (snd r)) [] in
     match site_mode_of (ri_under ri) with
     | SSilent => True
     | SNoDispatch => ords = []
     | SDirect => site_walk W ords (fst r) = true
     | SCatch thn =>
         match ie, thn with
         | Some e, _ => site_walk W ords (Raise e) = true
         | None, None => site_walk W ords (fst r) = true
         | None, Some _ => True
         end
     end.
Proof.
  intros r Hm. subst r. unfold under_tween_g.
  destruct (main_pm_site P W ri false (mkSt a0 [])) as [evs0 [Hl0 [Hb0 Hs0]]]. simpl in Hl0.
  destruct (ri_under ri) as [|e| |rr sec via thn] eqn:Hu; cbn [site_mode_of] in *.
  - rewrite Hl0. split; [exact (bodies_no_probe _ _ Hb0)|].
    rewrite (ords_ord_nil evs0 Hb0).
    exact Hs0.
  - simpl. split; [intros o s H; destruct H|reflexivity].
  - exfalso. apply Hm. reflexivity.
  - destruct (main_handler_pm P W ri false (mkSt a0 [])) as [o st1]. simpl in Hl0, Hs0.
    assert (Hbase : forall o2, (match o2, thn with Resp _, Some _ => True | _, _ => o2 = o end) ->
              no_probe (st_log st1)
              /\ let '(ords, ie) := ords_until_iev (st_log st1) [] in
                 match ie, thn with
                 | Some e, _ => site_walk W ords (Raise e) = true
                 | None, None => site_walk W ords o2 = true
                 | None, Some _ => True
                 end).
    { intros o2 Ho2. rewrite Hl0. split; [exact (bodies_no_probe _ _ Hb0)|].
      rewrite (ords_ord_nil evs0 Hb0).
      destruct thn; [exact I|]. destruct o2; rewrite Ho2; exact Hs0. }
    destruct o as [r|e].
    + destruct thn as [e2|]; simpl.
      * apply (Hbase (Resp r)). exact I.
      * apply (Hbase (Resp r)). reflexivity.
    + destruct (isa W cn_Exception e) eqn:Hisa.
      * destruct (iev_pm_log P W ri site_under rr sec e st1) as [evs [Hl Hb]].
        destruct (iev_pm P W ri site_under rr sec e st1) as [o2 st2]. simpl in Hl.
        assert (Hgoal : forall o3,
                  no_probe (st_log (snd (o3, add_log st2 (EIev e (snap (st_attrs st1)) o2 (snap (st_attrs st2))))))
                  /\ let '(ords, ie) := ords_until_iev (st_log (snd (o3, add_log st2 (EIev e (snap (st_attrs st1)) o2 (snap (st_attrs st2)))))) [] in
                     match ie, thn with
                     | Some e, _ => site_walk W ords (Raise e) = true
                     | None, None => site_walk W ords (fst (o3, add_log st2 (EIev e (snap (st_attrs st1)) o2 (snap (st_attrs st2))))) = true
                     | None, Some _ => True
                     end).
        { intros o3. simpl. rewrite Hl, Hl0. split.
          - apply no_probe_app; [apply no_probe_app; [exact (bodies_no_probe _ _ Hb0)|exact (bodies_no_probe _ _ Hb)]|].
            intros o s [H|[]]. discriminate H.
          - rewrite <- app_assoc. rewrite (ords_ord evs0 _ [] Hb0).
            rewrite (ords_exc e evs _ _ (exc_not_res e Hisa) Hb). simpl. rewrite app_nil_r, rev_involutive.
            exact Hs0. }
        destruct o2 as [r2|e2]; [destruct thn|]; apply Hgoal.
      * simpl. destruct thn; apply (Hbase (Raise e)); reflexivity.
Qed.

(* the site judge accepts every trace of the pipeline with the search-goes-on loop *)
Theorem judge_site_accepts_model :
  judge_site W (site_mode_of (ri_under ri)) (run_request_pm P W ri) = true.
Proof.
  unfold judge_site.
  destruct (site_mode_of (ri_under ri)) eqn:Hm; try reflexivity;
    (assert (Hne : site_mode_of (ri_under ri) <> SSilent) by (rewrite Hm; discriminate);
     unfold run_request_pm, run_request_g;
     pose proof (under_site (init_attrs ri) Hne) as [Hnp Hs];
     destruct (under_tween_g W ri (main_handler_pm P W ri) (fun _ => iev_pm P W ri) (mkSt (init_attrs ri) [])) as [o1 st1];
     simpl in Hnp, Hs;
     destruct (excview_g_log P W ri o1 (add_log st1 (EProbe o1 (snap (st_attrs st1))))) as [evs [Hl _]];
     destruct (excview_tween_g P W (fun _ => iev_pm P W ri) o1 (add_log st1 (EProbe o1 (snap (st_attrs st1))))) as [o2 st2];
     simpl in Hl; rewrite Hl; rewrite <- !app_assoc; simpl app;
     rewrite (split_probe_app (st_log st1) [] o1 (snap (st_attrs st1)) _ Hnp);
     change (rev [] ++ st_log st1) with (st_log st1);
     destruct (ords_until_iev (st_log st1) []) as [ords ie]; rewrite Hm in Hs).
  - exact Hs.
  - destruct ie; [exact Hs|]. destruct thn; [reflexivity|exact Hs].
  - rewrite Hs. reflexivity.
Qed.

End Site.

(* ------------------------------------------------------------------ *)
(* the subrequest scenario *)

(* the regenerated pipeline is the reference pipeline *)
Theorem run_request_sub_gen_is_model b W ri tweens :
  run_request_sub_gen (spec_params_b b) W ri tweens = run_request_sub_m (spec_params_b b) W ri tweens.
Proof.
  unfold run_request_sub_gen, run_request_sub_m, run_request_sub.
  destruct (main_handler_pm (spec_params_b b) W (sub_ri ri) false (mkSt [] [])) as [o s1].
  rewrite gen_excview_tween_is_model.
  destruct (if tweens then _ else _) as [o' s2]. rewrite gen_excview_tween_is_model. reflexivity.
Qed.

(* without the tweens (use_tweens not passed, the default being false, or passed as False) what reaches the excview
   tween of the outer request is exactly the outcome of the subrequest's main handler: nothing rendered it on the way *)
Theorem sub_without_tweens_reaches_outer P W ri :
  let '(o, s1) := main_handler_pm P W (sub_ri ri) false (mkSt [] []) in
  exists post, run_request_sub_m P W ri false = st_log s1 ++ EProbe o (snap (init_attrs ri)) :: post.
Proof.
  unfold run_request_sub_m, run_request_sub.
  destruct (main_handler_pm P W (sub_ri ri) false (mkSt [] [])) as [o s1].
  unfold add_log. cbn [st_attrs st_log].
  destruct (excview_g_log P W ri o (mkSt (init_attrs ri) (st_log s1 ++ [EProbe o (snap (init_attrs ri))]))) as [evs [Hl _]].
  destruct (excview_tween_g P W (fun _ => iev_pm P W ri) o _) as [o2 st2]. simpl in Hl.
  rewrite Hl. rewrite <- !app_assoc. simpl. eexists. reflexivity.
Qed.

Theorem judge_site_accepts_sub P W ri ut :
  judge_site W (site_mode_sub ut) (run_request_sub_m P W ri (sub_tweens false ut)) = true.
Proof.
  assert (Hd : forall m, m = SDirect -> judge_site W m (run_request_sub_m P W ri false) = true).
  { intros m ->. unfold judge_site.
    pose proof (sub_without_tweens_reaches_outer P W ri) as H.
    destruct (main_pm_site P W (sub_ri ri) false (mkSt [] [])) as [evs0 [Hl0 [Hb0 Hs0]]]. simpl in Hl0.
    destruct (main_handler_pm P W (sub_ri ri) false (mkSt [] [])) as [o s1]. simpl in Hl0, Hs0.
    destruct H as [post ->]. rewrite Hl0.
    rewrite (split_probe_app evs0 [] o _ _ (bodies_no_probe _ _ Hb0)). simpl.
    rewrite (ords_ord_nil evs0 Hb0).
    exact Hs0. }
  destruct ut as [[|]|]; cbn [site_mode_sub sub_tweens]; [reflexivity| |]; exact (Hd _ eq_refl).
Qed.

(* ... and it is NOT accepted when a subrequest without use_tweens is sent through the tweens (a default of True):
   a subrequest whose view raises, rendered by its own excview tween, reaches the outer request as a response *)
Definition sx_decls : list vdecl :=
  [mkDecl DView None false false (mkArgs 1 0 [] [] None false 1) 0 (mkBody false (ARaise 0) false) None false;
   mkDecl DExcView None false false (mkArgs 1 0 [] [] None false 2) 0 (mkBody false ARet false) None false].
Definition sx_regs : list reg := Eval vm_compute in regs_upto spec_params pred_names ex_nm sx_decls 0%N.
Definition sx_W : world :=
  mkWorld (register_all accept_order_default sx_regs) (bodies_of spec_params ex_nm sx_decls)
          [mkExc 0 [5; 6; 0]%N [cn_Exception; cn_truthy] 0%N] true false.
Definition sx_ri : rinfo :=
  mkRI (mkReq [71; 69; 84]%N [] [] false None false [47]%N [] false [] [] [] [1; 0]%N [4; 0]%N [])
       None [1; 0]%N [1; 0]%N false None (URaise 0) None.

Example sub_default_true_refuted :
  judge_site sx_W (site_mode_sub None) (run_request_sub_m spec_params sx_W sx_ri (sub_tweens true None)) = false
  /\ judge_site sx_W (site_mode_sub None) (run_request_sub_m spec_params sx_W sx_ri (sub_tweens false None)) = true.
Proof. split; vm_compute; reflexivity. Qed.

(* the rendering judge on the subrequest scenario: what reaches the outer excview tween is rendered for the OUTER
   request as for an exception raised above the router *)
Lemma judge_under_bodies regs W ri rr sec l : forall mid,
  Forall (fun ev => exists t c s, ev = EBody t c s) l -> judge_under regs W ri rr sec mid l = true.
Proof.
  induction l as [|ev l IH]; intros mid H; [reflexivity|].
  inversion H as [|x y [t [c [s ->]]] Hr]; subst. simpl. destruct (negb (N.eqb c ctx_resource)); apply IH; exact Hr.
Qed.

Lemma bodies_any c evs : bodies_ctx c evs -> Forall (fun ev => exists t c s, ev = EBody t c s) evs.
Proof. intros H. eapply Forall_impl; [|exact H]. intros ev [t [s ->]]. eauto. Qed.

Section SubJudge.
Variables (b : bool) (regs : list reg) (W : world) (ri : rinfo).
Notation SP := (spec_params_b b).
Hypothesis Hno : no_pm SP W.
Hypothesis Hlook : forall e,
  spec_ok exc_classifier_id regs (exc_request SP W ri e)
          (call_view (w_reg W) exc_classifier_id (exc_request SP W ri e)) = true.
Hypothesis Hres : isa W cn_Exception ctx_resource = false.
Hypothesis Hfresh : forall site, In site [site_under; site_tween] ->
  isa W cn_HTTPNotFound (fresh_nf site) = true /\ isa W cn_HTTPNotFound (fresh_pme site) = true
  /\ isa W cn_Exception (fresh_pme site) = true
  /\ isa W cn_HTTPForbidden (fresh_forb site) = true /\ isa W cn_Exception (fresh_forb site) = true
  /\ isa W cn_HTTPNotFound (fresh_forb site) = false.
Hypothesis Hu : sec_of (ri_under ri) = true.

Lemma excview_g_eq ri' o st :
  excview_tween_g SP W (fun _ => iev_pm SP W ri') o st = excview_tween SP W ri' o st.
Proof.
  unfold excview_tween_g, excview_tween. destruct o as [r|e]; [reflexivity|].
  destruct (isa W _ e); [|reflexivity]. rewrite (iev_pm_eq _ _ Hno). reflexivity.
Qed.

Theorem judge_accepts_sub tweens :
  judge regs W ri (run_request_sub_m SP W ri tweens) = true.
Proof.
  unfold run_request_sub_m, run_request_sub.
  destruct (main_pm_site SP W (sub_ri ri) false (mkSt [] [])) as [evs0 [Hl0 [Hb0 _]]]. simpl in Hl0.
  destruct (main_handler_pm SP W (sub_ri ri) false (mkSt [] [])) as [o s1]. simpl in Hl0.
  assert (Hpre : exists o' s2, (if tweens then excview_tween_g SP W (fun _ => iev_pm SP W (sub_ri ri)) o s1 else (o, s1)) = (o', s2)
                 /\ Forall (fun ev => exists t c s, ev = EBody t c s) (st_log s2)).
  { destruct tweens.
    - destruct (excview_g_log SP W (sub_ri ri) o s1) as [evs [Hl [c [Hb _]]]].
      destruct (excview_tween_g SP W (fun _ => iev_pm SP W (sub_ri ri)) o s1) as [o' s2]. simpl in Hl.
      exists o', s2. split; [reflexivity|]. rewrite Hl, Hl0. apply Forall_app. split; [exact (bodies_any _ _ Hb0)|exact (bodies_any _ _ Hb)].
    - exists o, s1. split; [reflexivity|]. rewrite Hl0. apply (bodies_any _ _ Hb0). }
  destruct Hpre as [o1 [s2 [-> Hbod]]].
  assert (Hnp : no_probe (st_log s2)).
  { intros o' s Hin. rewrite Forall_forall in Hbod. destruct (Hbod _ Hin) as [t [c [s' E]]]. discriminate E. }
  unfold add_log. cbn [st_attrs st_log].
  set (st1' := mkSt (init_attrs ri) (st_log s2 ++ [EProbe o1 (snap (init_attrs ri))])).
  rewrite excview_g_eq.
  assert (Hsec : b = true \/ sec_of (ri_under ri) = true) by (right; exact Hu).
  assert (Hshape : exists evs,
            st_log (snd (excview_tween SP W ri o1 st1')) = st_log st1' ++ evs
            /\ match o1 with
               | Resp _ => evs = [] /\ excview_tween SP W ri o1 st1' = (o1, st1')
               | Raise e =>
                   if isa W cn_Exception e
                   then judge_render regs W ri None true e (snap (st_attrs st1')) evs
                          (fst (excview_tween SP W ri o1 st1')) (snap (st_attrs (snd (excview_tween SP W ri o1 st1')))) = true
                   else evs = [] /\ excview_tween SP W ri o1 st1' = (o1, st1')
               end).
  { destruct o1 as [r|e].
    - exists []. simpl. rewrite app_nil_r. auto.
    - destruct (isa W cn_Exception e) eqn:Hisa.
      + destruct (excview_log b W ri e st1') as [evs [Hl _]]. exists evs. split; [exact Hl|].
        apply (excview_judge b regs W ri Hlook Hfresh); assumption.
      + exists []. rewrite (not_caught_passes SP W ri e st1' Hisa). simpl. rewrite app_nil_r. auto. }
  destruct Hshape as [evs [Hl Hcase]].
  destruct (excview_tween SP W ri o1 st1') as [o2 st2] eqn:Hex. simpl in Hl.
  unfold judge, judge_gen. rewrite Hl. subst st1'. simpl st_log. rewrite <- !app_assoc. simpl app.
  rewrite (split_probe_app (st_log s2) [] o1 (snap (init_attrs ri)) _ Hnp).
  rewrite rev_unit. cbv beta iota. rewrite rev_involutive.
  change (rev [] ++ st_log s2) with (st_log s2).
  rewrite (judge_under_bodies regs W ri _ _ _ [] Hbod). cbn [andb orb]. rewrite ?orb_true_r. cbn [andb].
  assert (Hfin : opt_N_eqb (aget hn_exception (st_attrs st2)) (nth 2 (snap (st_attrs st2)) None) = true)
    by (rewrite snap_eq; simpl; apply opt_N_eqb_refl).
  rewrite Hfin. cbn [andb].
  destruct o1 as [r|e].
  - destruct Hcase as [-> Hex']. inversion Hex'; subst. cbn [st_attrs rev andb].
    rewrite outcome_eqb_refl, snap_eqb_refl. reflexivity.
  - destruct (isa W cn_Exception e).
    + simpl in Hcase. exact Hcase.
    + destruct Hcase as [-> Hex']. inversion Hex'; subst. cbn [st_attrs rev andb].
      rewrite outcome_eqb_refl, snap_eqb_refl. reflexivity.
Qed.

End SubJudge.

(* non-vacuity of [judge_accepts_sub]: the world of [judge_accepts_model_nonvacuous] (two competing exception views,
   an ordinary view that raises), the request sent as a subrequest; the remaining two hypotheses (the resource is not
   an exception, the framework-made objects are what they are) do not mention the request and are discharged there *)
Lemma ex_no_pm_isa e : isa ex_W cn_PredicateMismatch e = false.
Proof.
  unfold isa. change (w_excs ex_W) with ex_excs.
  destruct (find_exc_in ex_excs e) as [H|H]; [|rewrite H; reflexivity].
  remember (find_exc ex_excs e) as x eqn:Hx. clear Hx. unfold ex_excs, ex_nf, ex_fb in H. simpl in H.
  repeat (destruct H as [H|H]; [subst x; vm_compute; reflexivity|]). contradiction.
Qed.

Definition sx2_ri : rinfo := set_under ex_ri (URaise 0) None.

Example judge_accepts_sub_nonvacuous :
  no_pm spec_params ex_W
  /\ (forall e, spec_ok exc_classifier_id ex_regs14 (exc_request spec_params ex_W sx2_ri e)
                  (call_view (w_reg ex_W) exc_classifier_id (exc_request spec_params ex_W sx2_ri e)) = true)
  /\ sec_of (ri_under sx2_ri) = true
  /\ run_request_sub_m spec_params ex_W sx2_ri false =
       [EBody 5 ctx_resource [None; None; None];
        EProbe (Raise 0) [None; None; None];
        EBody 3 0 [None; Some 0%N; Some 0%N];
        EFinal (Resp (RView 3)) [None; Some 0%N; Some 0%N] (Some 0%N)]
  /\ run_request_sub_m spec_params ex_W sx2_ri true =
       [EBody 5 ctx_resource [None; None; None];
        EBody 3 0 [None; Some 0%N; Some 0%N];
        EProbe (Resp (RView 3)) [None; None; None];
        EFinal (Resp (RView 3)) [None; None; None] None].
Proof.
  split. { apply no_pm_from_tables; intros; try split; apply ex_no_pm_isa. }
  split. { destruct judge_accepts_model_nonvacuous as [H1 [H2 [H3 [H4 [_ [H6 _]]]]]].
           apply (lookup_ok_register_all true accept_order_default ex_regs14 ex_W sx2_ri eq_refl H1 H2 H3 H4); [|exact H6].
           intros e. simpl. nodup_tac. }
  split; [reflexivity|]. split; vm_compute; reflexivity.
Qed.

(* the regenerated constants of this part *)
Lemma subrequest_default_ok : subrequest_use_tweens_default = false.
Proof. reflexivity. Qed.

(* the site judge on the pipeline built from the regenerated functions *)
Theorem gen_judge_site_accepts b W ri :
  isa W cn_Exception ctx_resource = false ->
  judge_site W (site_mode_of (ri_under ri)) (run_request_gen (spec_params_b b) W ri) = true.
Proof. intros H. rewrite run_request_gen_is_model. apply judge_site_accepts_model. exact H. Qed.

Theorem gen_judge_site_accepts_sub b W ri ut :
  judge_site W (site_mode_sub ut) (run_request_sub_gen (spec_params_b b) W ri (sub_tweens false ut)) = true.
Proof. rewrite run_request_sub_gen_is_model. apply judge_site_accepts_sub. Qed.
