(* C03 proofs: the lookup loop equals "first qualifying registration of the tried
   sequence"; the registry invariant of register_view; the tried sequence is sorted by
   the property's specificity order; order arithmetic; predicate characterisations. *)
From Coq Require Import List NArith ZArith Bool Lia Sorting.Sorted Sorting.Permutation.
Import ListNotations.
Require Import Verif.Lib.Wire Verif.Lib.Text Verif.Gen.Facts_C03 Verif.Model.C03.

(* ================================================================== *)
(* generic list facts *)

Lemma flat_map_flat_map {A B C} (f : B -> list C) (g : A -> list B) l :
  flat_map f (flat_map g l) = flat_map (fun x => flat_map f (g x)) l.
Proof. induction l as [|x l IH]; simpl; [reflexivity|]. rewrite flat_map_app, IH. reflexivity. Qed.

Lemma SSorted_app {A} (R : A -> A -> Prop) l1 l2 :
  StronglySorted R l1 -> StronglySorted R l2 ->
  (forall a b, In a l1 -> In b l2 -> R a b) -> StronglySorted R (l1 ++ l2).
Proof.
  induction l1 as [|x l1 IH]; simpl; intros H1 H2 H; [assumption|].
  inversion H1; subst. constructor.
  - apply IH; auto.
  - apply Forall_app. split; [assumption|]. apply Forall_forall. intros b Hb. apply H; auto.
Qed.

Lemma FOP_app {A} (P : A -> A -> Prop) l1 l2 :
  ForallOrdPairs P l1 -> ForallOrdPairs P l2 ->
  (forall a b, In a l1 -> In b l2 -> P a b) -> ForallOrdPairs P (l1 ++ l2).
Proof.
  induction l1 as [|x l1 IH]; simpl; intros H1 H2 H; [assumption|].
  inversion H1; subst. constructor.
  - apply Forall_app. split; [assumption|]. apply Forall_forall. intros b Hb. apply H; auto.
  - apply IH; auto.
Qed.

Lemma FOP_weaken {A} (P Q : A -> A -> Prop) l :
  ForallOrdPairs P l -> (forall a b, In a l -> In b l -> P a b -> Q a b) -> ForallOrdPairs Q l.
Proof.
  induction 1 as [|x l Hx Hl IH]; intros H; constructor.
  - apply Forall_forall. intros b Hb. rewrite Forall_forall in Hx. apply H; simpl; auto.
  - apply IH. intros a b Ha Hb. apply H; simpl; auto.
Qed.

Lemma FOP_map {A B} (f : A -> B) (P : B -> B -> Prop) l :
  ForallOrdPairs (fun a b => P (f a) (f b)) l -> ForallOrdPairs P (map f l).
Proof.
  induction 1 as [|x l Hx Hl IH]; simpl; constructor; [|assumption].
  apply Forall_map. exact Hx.
Qed.

Lemma SSorted_flat_map {A B} (R : B -> B -> Prop) (f : A -> list B) l :
  (forall x, In x l -> StronglySorted R (f x)) ->
  ForallOrdPairs (fun x y => forall a b, In a (f x) -> In b (f y) -> R a b) l ->
  StronglySorted R (flat_map f l).
Proof.
  intros Hs Hp. induction Hp as [|x l Hx Hl IH]; simpl; [constructor|].
  apply SSorted_app.
  - apply Hs. simpl; auto.
  - apply IH. intros y Hy. apply Hs. simpl; auto.
  - intros a b Ha Hb. apply in_flat_map in Hb. destruct Hb as (y & Hy & Hb).
    rewrite Forall_forall in Hx. exact (Hx y Hy a b Ha Hb).
Qed.

Lemma find_split {A} (f : A -> bool) l x :
  find f l = Some x ->
  exists l1 l2, l = l1 ++ x :: l2 /\ f x = true /\ forall y, In y l1 -> f y = false.
Proof.
  induction l as [|y l IH]; simpl; [discriminate|].
  destruct (f y) eqn:E.
  - intros H; inversion H; subst. exists [], l. repeat split; auto. intros ? [].
  - intros H. destruct (IH H) as (l1 & l2 & -> & Hx & Hl). exists (y :: l1), l2. repeat split; auto.
    intros z [->|Hz]; auto.
Qed.

Lemma find_none_iff {A} (f : A -> bool) l : find f l = None <-> forall y, In y l -> f y = false.
Proof.
  split; [apply find_none|]. induction l as [|y l IH]; simpl; intros H; [reflexivity|].
  rewrite (H y) by auto. apply IH. intros z Hz. apply H; auto.
Qed.

Lemma SSorted_split {A} (R : A -> A -> Prop) l1 x l2 :
  StronglySorted R (l1 ++ x :: l2) -> forall y, In y l2 -> R x y.
Proof.
  induction l1 as [|z l1 IH]; simpl; intros H y Hy.
  - inversion H; subst. rewrite Forall_forall in H3. auto.
  - inversion H; subst. eauto.
Qed.

(* ================================================================== *)
(* the stable insertion sort *)

Section Sort.
  Context {A : Type} (leb : A -> A -> bool).
  Hypothesis leb_total : forall a b, leb a b = true \/ leb b a = true.
  Hypothesis leb_trans : forall a b c, leb a b = true -> leb b c = true -> leb a c = true.

  Lemma insert_perm x l : Permutation (insert_by leb x l) (x :: l).
  Proof.
    induction l as [|y l IH]; simpl; [reflexivity|].
    destruct (leb x y); [reflexivity|]. rewrite IH. apply perm_swap.
  Qed.

  Lemma isort_perm l : Permutation (isort leb l) l.
  Proof. induction l as [|x l IH]; simpl; [constructor|]. rewrite insert_perm, IH. reflexivity. Qed.

  Lemma insert_sorted x l :
    StronglySorted (fun a b => leb a b = true) l ->
    StronglySorted (fun a b => leb a b = true) (insert_by leb x l).
  Proof.
    induction 1 as [|y l Hl IH Hy]; simpl; [repeat constructor|].
    destruct (leb x y) eqn:E.
    - constructor; [constructor; assumption|]. constructor; [assumption|].
      rewrite Forall_forall in *. intros z Hz. eapply leb_trans; eauto.
    - constructor; [assumption|].
      assert (Hyx : leb y x = true) by (destruct (leb_total x y); congruence).
      apply Forall_forall. intros z Hz.
      apply (Permutation_in _ (insert_perm x l)) in Hz. destruct Hz as [<-|Hz]; [assumption|].
      rewrite Forall_forall in Hy. auto.
  Qed.

  Lemma isort_sorted l : StronglySorted (fun a b => leb a b = true) (isort leb l).
  Proof. induction l as [|x l IH]; simpl; [constructor|]. apply insert_sorted. assumption. Qed.
End Sort.

Lemma entry_leb_total a b : entry_leb a b = true \/ entry_leb b a = true.
Proof. unfold entry_leb. destruct (Z.leb_spec (e_order a) (e_order b)); [auto|right; apply Z.leb_le; lia]. Qed.
Lemma entry_leb_trans a b c : entry_leb a b = true -> entry_leb b c = true -> entry_leb a c = true.
Proof. unfold entry_leb. rewrite !Z.leb_le. lia. Qed.

(* ================================================================== *)
(* facts about the regenerated view-type tuples *)

Lemma find_view_types_ok : find_view_types = [IView; ISecuredView; IMultiView].
Proof. vm_compute. reflexivity. Qed.
Lemma register_view_types_ok : register_view_types = [IView; ISecuredView; IMultiView].
Proof. vm_compute. reflexivity. Qed.
Lemma unregister_view_types_ok : unregister_view_types = [IView; ISecuredView].
Proof. vm_compute. reflexivity. Qed.

(* ================================================================== *)
(* slots *)

Lemma slot_eqb_eq a b : slot_eqb a b = true <-> a = b.
Proof.
  destruct a as [a1 a2 a3 a4], b as [b1 b2 b3 b4]. unfold slot_eqb; simpl.
  rewrite !andb_true_iff, !N.eqb_eq, text_eqb_eq. split.
  - intros [[[-> ->] ->] ->]. reflexivity.
  - intros H; inversion H; auto.
Qed.
Lemma slot_eqb_refl a : slot_eqb a a = true.
Proof. apply slot_eqb_eq. reflexivity. Qed.
Lemma slot_eqb_neq a b : slot_eqb a b = false <-> a <> b.
Proof.
  split; [intros H E; apply slot_eqb_eq in E; congruence|].
  intros H. destruct (slot_eqb a b) eqn:E; [apply slot_eqb_eq in E; contradiction|reflexivity].
Qed.

Lemma reg_set_same R s vt c : reg_set R s vt c s vt = c.
Proof. unfold reg_set. rewrite slot_eqb_refl. destruct vt; reflexivity. Qed.
Lemma reg_set_other_slot R s vt c s' vt' : s <> s' -> reg_set R s vt c s' vt' = R s' vt'.
Proof. intros H. unfold reg_set. apply slot_eqb_neq in H. rewrite H. reflexivity. Qed.
Lemma reg_set_other_vt R s vt c vt' : vtype_eqb vt vt' = false -> reg_set R s vt c s vt' = R s vt'.
Proof. intros H. unfold reg_set. rewrite H, andb_false_r. reflexivity. Qed.

(* ================================================================== *)
(* the lookup loop = first qualifying registration of the tried sequence *)

Definition comp_regs (rq : request) (c : component) : list reg :=
  match c with CView v => [v] | CMulti m => map e_view (get_views m rq) end.

Definition tried (R : registry) (cls : N) (rq : request) : list reg :=
  flat_map (comp_regs rq) (find_views R cls (q_req_sro rq) (q_ctx_sro rq) (q_view_name rq)).

Lemma mv_call_find rq l :
  mv_call rq l = option_map r_tag (find (qualifies rq) (map e_view l)).
Proof.
  induction l as [|e l IH]; simpl; [reflexivity|]. unfold call_reg.
  destruct (qualifies rq (e_view e)); simpl; [reflexivity|exact IH].
Qed.

Lemma call_component_find rq c :
  call_component rq c = option_map r_tag (find (qualifies rq) (comp_regs rq c)).
Proof.
  destruct c as [v|m]; simpl; [|apply mv_call_find].
  unfold call_reg. destruct (qualifies rq v); reflexivity.
Qed.

Lemma find_app {A} (f : A -> bool) l1 l2 :
  find f (l1 ++ l2) = match find f l1 with Some x => Some x | None => find f l2 end.
Proof. induction l1 as [|x l1 IH]; simpl; [reflexivity|]. destruct (f x); auto. Qed.

Definition not_found (r : result) : Prop := r = NotFoundPme \/ r = NotFoundNone.

Lemma call_loop_find rq l pme :
  match find (qualifies rq) (flat_map (comp_regs rq) l) with
  | Some v => call_loop rq l pme = Ran (r_tag v)
  | None => not_found (call_loop rq l pme)
  end.
Proof.
  revert pme; induction l as [|c l IH]; intros pme; simpl.
  - destruct pme; [left|right]; reflexivity.
  - rewrite find_app, call_component_find.
    destruct (find (qualifies rq) (comp_regs rq c)); simpl; [reflexivity|apply IH].
Qed.

Lemma call_view_find R cls rq :
  match find (qualifies rq) (tried R cls rq) with
  | Some v => call_view R cls rq = Ran (r_tag v)
  | None => not_found (call_view R cls rq)
  end.
Proof. apply call_loop_find. Qed.

(* ================================================================== *)
(* the registry invariant of register_view (no two registrations with the same
   (slot, phash), no accept=) *)

Definition slot_regs (regs : list reg) (s : slot) : list reg :=
  filter (fun v => slot_eqb (r_slot v) s) regs.
Definition vt_of (v : reg) : vtype := if r_secured v then ISecuredView else IView.
Definition no_accept (regs : list reg) : Prop := forall v, In v regs -> r_accept v = None.
Definition key (v : reg) : slot * text := (r_slot v, r_phash v).

Definition entry_of (v : reg) : entry := (r_order v, v, r_phash v).
Definition entry_ok (e : entry) : Prop := e = entry_of (e_view e).
Definition entries_sorted (l : list entry) : Prop := StronglySorted (fun a b => entry_leb a b = true) l.

Definition mv_ok (m : mview) (l : list reg) : Prop :=
  mv_accepts m = [] /\ Permutation (map e_view (mv_views m)) l
  /\ entries_sorted (mv_views m) /\ Forall entry_ok (mv_views m).

Definition slot_inv (R : registry) (s : slot) (l : list reg) : Prop :=
  match l with
  | [] => R s IView = None /\ R s ISecuredView = None /\ R s IMultiView = None
  | [v] => R s (vt_of v) = Some (CView v) /\ forall vt, vt <> vt_of v -> R s vt = None
  | _ => R s IView = None /\ R s ISecuredView = None
         /\ exists m, R s IMultiView = Some (CMulti m) /\ mv_ok m l
  end.

Definition inv (regs : list reg) (R : registry) : Prop := forall s, slot_inv R s (slot_regs regs s).

Lemma attr_phash_eq v : attr_phash v = r_phash v.
Proof.
  unfold attr_phash, attr_wrapped. destruct (r_accept v); simpl; [reflexivity|].
  destruct (Z.eqb (r_order v) max_order); simpl; [|reflexivity].
  destruct (text_eqb_spec (r_phash v) default_phash); simpl; congruence.
Qed.
Lemma attr_order_eq v : attr_order v = r_order v.
Proof.
  unfold attr_order, attr_wrapped. destruct (r_accept v); simpl; [reflexivity|].
  destruct (Z.eqb_spec (r_order v) max_order); simpl; [|reflexivity].
  destruct (text_eqb (r_phash v) default_phash); simpl; congruence.
Qed.
Lemma attr_accept_none v : r_accept v = None -> attr_accept v = None.
Proof. unfold attr_accept. intros ->. destruct (attr_wrapped v); reflexivity. Qed.

Lemma replace_phash_none ph new l :
  (forall e, In e l -> e_phash e <> ph) -> replace_phash ph new l = None.
Proof.
  induction l as [|e l IH]; simpl; intros H; [reflexivity|].
  destruct (text_eqb_spec ph (e_phash e)) as [E|E]; [exfalso; apply (H e); auto|].
  rewrite IH; auto.
Qed.

Lemma mv_add_plain m v ao :
  (forall e, In e (mv_views m) -> e_phash e <> r_phash v) ->
  mv_add m v (r_order v) (r_phash v) None ao =
  mkMV (isort entry_leb (mv_views m ++ [entry_of v])) (mv_media m) (mv_accepts m).
Proof. intros H. unfold mv_add. rewrite replace_phash_none by assumption. reflexivity. Qed.

Lemma register_view_other ao R v s vt : r_slot v <> s -> register_view ao R v s vt = R s vt.
Proof.
  intros H. unfold register_view. cbv zeta. rewrite unregister_view_types_ok.
  match goal with |- (if ?c then _ else _) s vt = _ => destruct c end.
  - apply reg_set_other_slot; assumption.
  - simpl. rewrite !reg_set_other_slot by assumption. reflexivity.
Qed.

Lemma register_view_fresh ao R v :
  R (r_slot v) IView = None -> R (r_slot v) ISecuredView = None -> R (r_slot v) IMultiView = None ->
  register_view ao R v = reg_set R (r_slot v) (vt_of v) (Some (CView v)).
Proof.
  intros H1 H2 H3. unfold register_view. cbv zeta. rewrite register_view_types_ok. simpl.
  rewrite H1, H2, H3. simpl. reflexivity.
Qed.

Definition unreg2 (R : registry) (s : slot) : registry :=
  reg_set (reg_set R s IView None) s ISecuredView None.

Lemma register_view_second ao R v o :
  R (r_slot v) (vt_of o) = Some (CView o) ->
  (forall vt, vt <> vt_of o -> R (r_slot v) vt = None) ->
  r_phash o <> r_phash v -> r_accept o = None -> r_accept v = None ->
  register_view ao R v =
  reg_set (unreg2 R (r_slot v)) (r_slot v) IMultiView
          (Some (CMulti (mkMV (isort entry_leb ([entry_of o] ++ [entry_of v])) [] []))).
Proof.
  intros H1 H2 Hne Ho Hv. unfold register_view. cbv zeta.
  rewrite register_view_types_ok, unregister_view_types_ok.
  assert (Hf : first_registered R (r_slot v) [IView; ISecuredView; IMultiView] = Some (CView o)).
  { simpl. unfold vt_of in *. destruct (r_secured o).
    - rewrite (H2 IView) by discriminate. rewrite H1. reflexivity.
    - rewrite H1. reflexivity. }
  rewrite Hf. rewrite attr_phash_eq, attr_order_eq, (attr_accept_none _ Ho). simpl.
  destruct (text_eqb_spec (r_phash o) (r_phash v)) as [E|_]; [contradiction|]. simpl.
  rewrite Hv.
  assert (Hm : mv_add mv_empty o (r_order o) (r_phash o) None None = mkMV [entry_of o] [] []).
  { reflexivity. }
  rewrite Hm. rewrite mv_add_plain.
  - reflexivity.
  - simpl. intros e [<-|[]]. simpl. assumption.
Qed.

Lemma register_view_multi ao R v m :
  R (r_slot v) IView = None -> R (r_slot v) ISecuredView = None ->
  R (r_slot v) IMultiView = Some (CMulti m) ->
  (forall e, In e (mv_views m) -> e_phash e <> r_phash v) -> r_accept v = None ->
  register_view ao R v =
  reg_set (unreg2 R (r_slot v)) (r_slot v) IMultiView
          (Some (CMulti (mkMV (isort entry_leb (mv_views m ++ [entry_of v])) (mv_media m) (mv_accepts m)))).
Proof.
  intros H1 H2 H3 Hne Hv. unfold register_view. cbv zeta.
  rewrite register_view_types_ok, unregister_view_types_ok. simpl.
  rewrite H1, H2, H3. simpl. rewrite Hv. rewrite mv_add_plain by assumption. reflexivity.
Qed.

Lemma slot_regs_snoc_same regs v : slot_regs (regs ++ [v]) (r_slot v) = slot_regs regs (r_slot v) ++ [v].
Proof. unfold slot_regs. rewrite filter_app. simpl. rewrite slot_eqb_refl. reflexivity. Qed.
Lemma slot_regs_snoc_other regs v s : r_slot v <> s -> slot_regs (regs ++ [v]) s = slot_regs regs s.
Proof.
  intros H. unfold slot_regs. rewrite filter_app. simpl. apply slot_eqb_neq in H. rewrite H.
  apply app_nil_r.
Qed.
Lemma slot_regs_in regs s v : In v (slot_regs regs s) <-> In v regs /\ r_slot v = s.
Proof. unfold slot_regs. rewrite filter_In, slot_eqb_eq. reflexivity. Qed.

Lemma mv_ok_snoc m l v :
  mv_ok m l -> r_accept v = None ->
  mv_ok (mkMV (isort entry_leb (mv_views m ++ [entry_of v])) (mv_media m) (mv_accepts m)) (l ++ [v]).
Proof.
  intros (Ha & Hp & Hs & Hf) Hv. unfold mv_ok. simpl. repeat split.
  - assumption.
  - rewrite (Permutation_map e_view (isort_perm entry_leb (mv_views m ++ [entry_of v]))).
    rewrite map_app. simpl. apply Permutation_app; [assumption|reflexivity].
  - apply isort_sorted; [apply entry_leb_total|apply entry_leb_trans].
  - eapply Permutation_Forall; [apply Permutation_sym, isort_perm|].
    apply Forall_app. split; [assumption|]. constructor; [reflexivity|constructor].
Qed.

Lemma unreg2_multi R s c vt :
  reg_set (unreg2 R s) s IMultiView c s vt =
  match vt with IMultiView => c | _ => None end.
Proof.
  unfold unreg2, reg_set. rewrite slot_eqb_refl. destruct vt; reflexivity.
Qed.

Lemma inv_step ao regs R v :
  inv regs R ->
  (forall w, In w regs -> r_slot w = r_slot v -> r_phash w <> r_phash v) ->
  no_accept (regs ++ [v]) ->
  inv (regs ++ [v]) (register_view ao R v).
Proof.
  intros Hinv Hk Hna s.
  assert (Hv : r_accept v = None) by (apply Hna, in_or_app; right; simpl; auto).
  destruct (slot_eqb (r_slot v) s) eqn:Es.
  2:{ apply slot_eqb_neq in Es. rewrite slot_regs_snoc_other by assumption.
      specialize (Hinv s). unfold slot_inv in *.
      destruct (slot_regs regs s) as [|a [|b t]]; rewrite !register_view_other by assumption; try assumption.
      destruct Hinv as [H1 H2]. split; [assumption|]. intros vt Hvt. rewrite register_view_other by assumption. auto. }
  apply slot_eqb_eq in Es. subst s. rewrite slot_regs_snoc_same.
  specialize (Hinv (r_slot v)). unfold slot_inv in Hinv.
  destruct (slot_regs regs (r_slot v)) as [|o [|o2 t]] eqn:El.
  - (* first registration of the slot *)
    destruct Hinv as (H1 & H2 & H3). rewrite (register_view_fresh ao R v H1 H2 H3). simpl. split.
    + apply reg_set_same.
    + intros vt Hvt. rewrite reg_set_other_vt; [destruct vt; assumption|].
      destruct vt, (vt_of v); simpl; try reflexivity; contradiction.
  - (* second: a MultiView is created *)
    destruct Hinv as (H1 & H2).
    assert (Ho : In o regs /\ r_slot o = r_slot v) by (apply slot_regs_in; rewrite El; simpl; auto).
    destruct Ho as [Ho1 Ho2].
    assert (Hoa : r_accept o = None) by (apply Hna, in_or_app; auto).
    rewrite (register_view_second ao R v o H1 H2 (Hk o Ho1 Ho2) Hoa Hv). simpl.
    rewrite !unreg2_multi. split; [reflexivity|]. split; [reflexivity|].
    eexists. split; [reflexivity|].
    apply (mv_ok_snoc (mkMV [entry_of o] [] []) [o] v); [|assumption].
    unfold mv_ok; simpl. repeat split; try reflexivity; repeat constructor.
  - (* third and later: added to the MultiView *)
    destruct Hinv as (H1 & H2 & m & H3 & Hm).
    assert (Hne : forall e, In e (mv_views m) -> e_phash e <> r_phash v).
    { intros e He. destruct Hm as (_ & Hp & _ & Hf). rewrite Forall_forall in Hf.
      rewrite (Hf e He). simpl.
      assert (Hin : In (e_view e) (slot_regs regs (r_slot v))).
      { rewrite El. eapply Permutation_in; [exact Hp|]. apply in_map. assumption. }
      apply slot_regs_in in Hin. destruct Hin. apply Hk; assumption. }
    rewrite (register_view_multi ao R v m H1 H2 H3 Hne Hv).
    change ((o :: o2 :: t) ++ [v]) with (o :: o2 :: (t ++ [v])). cbv beta iota.
    rewrite !unreg2_multi. split; [reflexivity|]. split; [reflexivity|].
    eexists. split; [reflexivity|].
    change (o :: o2 :: t ++ [v]) with ((o :: o2 :: t) ++ [v]).
    apply mv_ok_snoc; assumption.
Qed.

Lemma inv_empty : inv [] reg_empty.
Proof. intros s. simpl. auto. Qed.

Lemma NoDup_snoc {A} (l : list A) x : NoDup (l ++ [x]) -> NoDup l /\ ~ In x l.
Proof.
  intros H. split.
  - apply NoDup_remove_1 in H. rewrite app_nil_r in H. assumption.
  - apply NoDup_remove_2 in H. rewrite app_nil_r in H. assumption.
Qed.

Lemma register_all_inv ao regs :
  NoDup (map key regs) -> no_accept regs -> inv regs (register_all ao regs).
Proof.
  induction regs as [|v regs IH] using rev_ind; intros Hnd Hna; [apply inv_empty|].
  unfold register_all. rewrite fold_left_app. simpl.
  rewrite map_app in Hnd. simpl in Hnd. apply NoDup_snoc in Hnd. destruct Hnd as [Hnd Hni].
  apply inv_step.
  - apply IH; [assumption|]. intros w Hw. apply Hna, in_or_app. auto.
  - intros w Hw Hs Hp. apply Hni. apply in_map_iff. exists w. split; [|assumption].
    unfold key. congruence.
  - assumption.
Qed.
